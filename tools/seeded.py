#!/venv/bin/python
"""Evaluates the seeded breaking changes kept under /verif/seeded/<id>/ (patch.diff, demo.py, meta.json).

For each one, in a scratch git worktree of /repo's HEAD (outside /repo and /verif, removed afterwards):
  1. demo.py exits 0 on the clean tree            (--confirm)
  2. the patch applies, the package imports, demo.py exits 1 with it   (--confirm)
  3. the pinned stable-pass tests still pass with it                   (--tests, slow)
  4. the property's check (VERIF_REPO=<worktree>) exits 1              (always)
usage: tools/seeded.py [ids…] [--confirm] [--tests] [--tier quick|thorough] [--jobs N] [--seed S]
"""
import argparse
import json
import os
import re
import shutil
import subprocess
import sys
import tempfile
import time
import xml.etree.ElementTree as ET
from concurrent.futures import ThreadPoolExecutor

HERE = os.path.dirname(os.path.dirname(os.path.abspath(__file__)))
SEEDED = os.path.join(HERE, "seeded")
BASE = "/tmp/verif_seeded"


def sh(cmd, cwd=None, env=None, timeout=7200):
    p = subprocess.run(cmd, cwd=cwd, env=env, stdout=subprocess.PIPE, stderr=subprocess.STDOUT, text=True, timeout=timeout)
    return p.returncode, p.stdout


def stable_pass_ok(wt):
    base = json.load(open("/root/.vp/BASELINE.json"))
    out = os.path.join(BASE, "junit_%d_%s.xml" % (os.getpid(), os.path.basename(wt)))
    env = dict(os.environ)
    env["PYTHONPATH"] = wt
    sh(["/venv/bin/python", "-m", "pytest", "-q", "-p", "no:cacheprovider", "--timeout=900",
        "--continue-on-collection-errors", "--junitxml=" + out], cwd=wt, env=env)
    passed = set()
    for tc in ET.parse(out).getroot().iter("testcase"):
        if not any(ch.tag in ("failure", "error", "skipped") for ch in tc):
            passed.add((tc.get("classname") + "::" + tc.get("name")).replace(wt, "/repo"))
    os.remove(out)
    # the baseline names tests run from /repo; absolute /repo paths inside parametrised ids stay /repo
    missing = [t for t in base["stable_pass"] if t not in passed]
    return missing


def evaluate(sid, a):
    d = os.path.join(SEEDED, sid)
    pid = re.match(r"(C\d+)", sid).group(1)
    wt = tempfile.mkdtemp(prefix=sid + "_", dir=BASE)
    os.rmdir(wt)
    sh(["git", "-C", "/repo", "worktree", "add", "-q", "--detach", wt, "HEAD"])
    res = {"id": sid, "property": pid}
    try:
        env = dict(os.environ)
        env["PYTHONPATH"] = wt
        demo = os.path.join(d, "demo.py")
        if a.confirm:
            rc, out = sh(["/venv/bin/python", "-W", "ignore", demo], cwd=wt, env=env)
            res["demo_clean"] = rc
        rc, out = sh(["git", "-C", wt, "apply", os.path.join(d, "patch.diff")])
        res["applies"] = rc == 0
        if rc != 0:
            res["error"] = out[-300:]
            return res
        if a.confirm:
            rc, out = sh(["/venv/bin/python", "-W", "ignore", demo], cwd=wt, env=env)
            res["demo_patched"] = rc
            res["demo_tail"] = out.strip().splitlines()[-1][:200] if out.strip() else ""
        if a.tests:
            res["stable_missing"] = stable_pass_ok(wt)
            sh(["git", "-C", wt, "clean", "-fdq"])
        env2 = dict(os.environ)
        env2["VERIF_REPO"] = wt
        t0 = time.time()
        rc, out = sh([os.path.join(HERE, "check"), pid, "--tier", a.tier, "--seed", str(a.seed)], cwd=HERE, env=env2)
        res["check_exit"] = rc
        res["check_s"] = round(time.time() - t0)
        res["clauses"] = sorted({l.split("clause=")[1].split(" ")[0] for l in out.splitlines() if "clause=" in l})
        if rc not in (0, 1):
            res["check_tail"] = out[-400:]
        return res
    finally:
        sh(["git", "-C", "/repo", "worktree", "remove", "--force", wt])
        shutil.rmtree(wt, ignore_errors=True)
        sh(["git", "-C", "/repo", "worktree", "prune"])


def main():
    ap = argparse.ArgumentParser()
    ap.add_argument("ids", nargs="*")
    ap.add_argument("--confirm", action="store_true")
    ap.add_argument("--tests", action="store_true")
    ap.add_argument("--tier", default="quick")
    ap.add_argument("--seed", type=int, default=0)
    ap.add_argument("--jobs", type=int, default=3)
    a = ap.parse_args()
    ids = a.ids or sorted(x for x in os.listdir(SEEDED) if os.path.isdir(os.path.join(SEEDED, x)) and not x.startswith("_"))
    global BASE
    os.makedirs(BASE, exist_ok=True)
    BASE = tempfile.mkdtemp(prefix="run%d_" % os.getpid(), dir=BASE)      # private: instances may run concurrently
    bad = 0
    with ThreadPoolExecutor(max_workers=a.jobs) as ex:
        for r in ex.map(lambda s: evaluate(s, a), ids):
            status = {1: "CAUGHT", 0: "MISSED"}.get(r.get("check_exit"), "ERROR")
            print(status, json.dumps(r), flush=True)
            if status != "CAUGHT":
                bad += 1
    shutil.rmtree(BASE, ignore_errors=True)
    return 1 if bad else 0


if __name__ == "__main__":
    sys.exit(main())

#!/venv/bin/python
"""Regenerates MANIFEST.json from the table below (one entry per property that has a driver)."""
import json
import os

HERE = os.path.dirname(os.path.dirname(os.path.abspath(__file__)))

BASELINE_CMD = ("cd /repo && /venv/bin/python -m pytest -ra -q -p no:cacheprovider --timeout=900 "
                "--continue-on-collection-errors")

TRUST = ("Trusted base: TLC 1.8 and the TLA+ modules under /verif/spec; the interpretation/projection code in "
         "/verif/mbt (own Euler->matrix routines, independent EM/MRC/STAR readers, lattice snapping); numpy for "
         "array plumbing in the projection. Exact layers use inputs on which float64 arithmetic is exact. ")

CHECKS = {
    "C05": dict(
        text="Pose.tla states the six pose operations as actions and the clauses as action properties; TLC explores "
             "the full state graph of a small scope (2 particles, all 24 cube orientations, lattice positions incl. "
             "half-voxel ties). Every explored transition and simulated 6-step behaviours are replayed into live Motl "
             "objects and compared after each step (exact domain); random real-valued histories are recorded and "
             "validated step by step by PoseTrace.tla.",
        ref="DESIGN.md §4 C05",
        note=TRUST + "Real-valued histories are judged through integer-scaled residuals computed by the projection "
             "(tolerance 1e-6).",
        technique="TLA+ model checking (TLC) + spec-transition replay into Motl + TLC trace validation of recorded histories"),
    "C07": dict(
        text="Suppress.tla states the property as the predicate Valid(kept) over an abstract close relation, groups and a "
             "strict rank, models the greedy loop as an algorithm-level action system and lets TLC check, for every relation "
             "and grouping on up to 5 points, that the loop ends in a valid set and that the valid set is unique. TLC then "
             "enumerates exact lattice configurations whose unique valid set is replayed through clean_by_distance and "
             "scores_extract_particles; random real-valued lists and score maps are executed, their brute-force relations "
             "and outputs recorded and judged by SuppressTrace.tla (separation, domination, subset, threshold, payload).",
        ref="DESIGN.md §4 C07",
        note=TRUST + "Close relations, ranks and supra-threshold sets in recorded traces are computed by brute force in the "
             "driver; inputs with near-ties are discarded before the call.",
        technique="TLA+ model checking (TLC) of the greedy algorithm against the predicate + exact replay + TLC trace validation"),
}

NOT_YET = {}

# entries reported by the builders of the other properties (text, ref, note, technique)
for _pid, _c in json.load(open(os.path.join(HERE, "tools", "manifest_texts.json"))).items():
    CHECKS[_pid] = dict(text=_c["text"], ref=_c["ref"], note=TRUST + _c["note"], technique=_c["technique"])


# compositions (DESIGN 9.4): the check's final phase validates mixed histories in the scope of its own property
_MOTLSYS = (" Finally, mixed histories on ONE live particle list (pose operations, set operations and queries, spatial "
            "filters, symmetry expansion, EM / STOPGAP / RELION round trips; full abstract state logged after every public "
            "call) are validated step by step by MotlSysTrace.tla with Scope = \"%s\": only this property's steps are "
            "judged, all other steps re-synchronise.")
_MAPSYS = (" Finally, mixed histories on a pool of live maps and files (write / read / conversions, windowing, flips, "
           "right-angle rotations, mask algebra, thresholding, caller-side edits of results; full abstract state logged "
           "after every public call) are validated step by step by MapSysTrace.tla with Scope = \"%s\": only this "
           "property's steps are judged, all other steps re-synchronise.")
for _pid, _scope in (("C05", "pose"), ("C08", "set"), ("C04", "sg"), ("C03", "relion"), ("C09", "spatial"), ("C10", "sym")):
    CHECKS[_pid]["text"] += _MOTLSYS % _scope
    CHECKS[_pid]["technique"] += " + TLC trace validation of mixed histories (MotlSysTrace composition)"
for _pid, _scope in (("C11", "io"), ("C14", "geom"), ("C13", "mask")):
    CHECKS[_pid]["text"] += _MAPSYS % _scope
    CHECKS[_pid]["technique"] += " + TLC trace validation of mixed histories (MapSysTrace composition)"
for _pid in CHECKS:
    CHECKS[_pid]["note"] += (" Caller-side frame conditions (arguments untouched, results persist, call-history independence) "
                             "are enforced by mbt/argguard.py snapshots inside the drivers; input storage forms, table forms, "
                             "option spellings and identifier values follow the audit tables in /verif/audit.")


def main():
    props = [json.loads(l) for l in open(os.path.join(HERE, "properties.jsonl"))]
    checks = []
    na = []
    for p in props:
        pid = p["id"]
        if pid in CHECKS:
            c = CHECKS[pid]
            checks.append({
                "property_id": pid,
                "quick_cmd": "./check %s --tier quick" % pid,
                "thorough_cmd": "./check %s --tier thorough" % pid,
                "evidence_file": "/verif/evidence/%s.json" % pid,
                "replay_cmd_template": "./check %s --replay {path}" % pid,
                "engine": "tlc-mbt",
                "level_claimed": {"category": "model_checking", "text": c["text"], "design_ref": c["ref"]},
                "level_note": c["note"],
                "technique": c["technique"],
            })
        else:
            na.append({"property_id": pid, "reason": NOT_YET.get(pid, "check not built yet (work in progress; see DESIGN.md §8 build order)")})
    man = {
        "version": 1,
        "setup_cmd": "./check --setup",
        "hooks": {
            "guard": "CRYOCAT_VERIF",
            "enable": "no source hooks: cryoCAT is a sequential library whose public calls return the whole abstract "
                      "state; drivers record at the call's return. Checks import cryocat from /repo's working tree.",
            "baseline_off_cmd": BASELINE_CMD,
            "source_commits": [],
            "add_only": True,
        },
        "engines": [{"name": "tlc-mbt", "path": "/verif/check",
                     "serves_properties": [c["property_id"] for c in checks],
                     "kind_free_text": "explicit TLA+ specifications checked with TLC; transitions/behaviours replayed into "
                                       "the implementation and recorded traces validated by TLC trace specifications"}],
        "checks": checks,
        "not_applicable": na,
        "notes": "See DESIGN.md. exit 0 = held, 1 = VIOLATION line(s), 2 = machinery failure.",
    }
    with open(os.path.join(HERE, "MANIFEST.json"), "w") as fh:
        json.dump(man, fh, indent=1)
    print("MANIFEST.json: %d checks, %d not claimed" % (len(checks), len(na)))


if __name__ == "__main__":
    main()

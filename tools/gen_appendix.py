#!/venv/bin/python
"""Regenerates the generated tables of DESIGN.md (between marker comments): the seeded-change catch matrix
(Appendix F, from seeded/*/meta.json) and the single-edit mutant matrix (Appendix G, from tools/mutants/*.json)."""
import glob
import json
import os
import re

HERE = os.path.dirname(os.path.dirname(os.path.abspath(__file__)))


def esc(s):
    return str(s).replace("|", "\\|").replace("\n", " ")


def seeded_table():
    rows = ["| id | what breaks | needs in order to manifest | detected by |", "|----|-------------|----------------------------|-------------|"]
    for d in sorted(glob.glob(os.path.join(HERE, "seeded", "*", "meta.json"))):
        m = json.load(open(d))
        rows.append("| %s | %s | %s | %s |" % (os.path.basename(os.path.dirname(d)), esc(m["breaks"]), esc(m["needs"]), esc(m["detected_by"])))
    return "\n".join(rows)


def mutant_table():
    rows = ["| prop | mutants | expected to be caught | marked expected_miss (equivalent / outside the claim) |", "|------|---------|-----------------------|------------------------------------------------------|"]
    tot = [0, 0]
    for f in sorted(glob.glob(os.path.join(HERE, "tools", "mutants", "*.json"))):
        ms = json.load(open(f))
        miss = [m["name"] for m in ms if m.get("expected_miss")]
        tot[0] += len(ms)
        tot[1] += len(ms) - len(miss)
        rows.append("| %s | %d | %d | %s |" % (os.path.basename(f)[:-5], len(ms), len(ms) - len(miss), esc("; ".join(miss)) or "—"))
    rows.append("| **all** | **%d** | **%d** | |" % tuple(tot))
    return "\n".join(rows)


def main():
    p = os.path.join(HERE, "DESIGN.md")
    s = open(p).read()
    for tag, text in (("SEEDED", seeded_table()), ("MUTANTS", mutant_table())):
        pat = re.compile(r"(<!-- %s-TABLE-BEGIN -->\n).*?(\n<!-- %s-TABLE-END -->)" % (tag, tag), re.S)
        if not pat.search(s):
            raise SystemExit("marker %s missing in DESIGN.md" % tag)
        s = pat.sub(lambda m: m.group(1) + text + m.group(2), s)
    open(p, "w").write(s)
    print("DESIGN.md tables regenerated")


if __name__ == "__main__":
    main()

#!/venv/bin/python
"""Runs the pinned test suite (guard off) and checks that every stable-pass test of BASELINE.json still passes.
usage: tools/baseline_check.py [repo_dir]"""
import json, subprocess, sys, os, tempfile
import xml.etree.ElementTree as ET
repo = sys.argv[1] if len(sys.argv) > 1 else "/repo"
base = json.load(open("/root/.vp/BASELINE.json"))
out = tempfile.mktemp(suffix=".xml", dir="/verif/work")
os.makedirs("/verif/work", exist_ok=True)
env = dict(os.environ); env.pop("CRYOCAT_VERIF", None)
subprocess.run(["/venv/bin/python", "-m", "pytest", "-ra", "-q", "-p", "no:cacheprovider", "--timeout=900",
                "--continue-on-collection-errors", "--junitxml=" + out], cwd=repo, env=env,
               stdout=subprocess.DEVNULL, stderr=subprocess.DEVNULL)
passed = set()
for tc in ET.parse(out).getroot().iter("testcase"):
    if not any(ch.tag in ("failure", "error", "skipped") for ch in tc):
        passed.add(tc.get("classname") + "::" + tc.get("name"))
os.remove(out)
missing = [t for t in base["stable_pass"] if t not in passed]
print("passed=%d stable=%d missing=%d" % (len(passed), len(base["stable_pass"]), len(missing)))
for m in missing:
    print("  MISSING", m)
# untracked artefact the suite drops into the repository
art = os.path.join(repo, "tests/test_data/wedgeutils_data/wedge_mask.em")
if os.path.exists(art):
    os.remove(art)
sys.exit(1 if missing else 0)

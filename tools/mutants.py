#!/venv/bin/python
"""Sensitivity self-test: applies single-edit mutants of /repo/cryocat (in a scratch git worktree outside /repo and
/verif) and runs the quick check of the property each one targets with VERIF_REPO pointing at the scratch tree.
A mutant is 'caught' when the check exits 1.

usage: tools/mutants.py [--prop C07] [--name substring] [--tier quick] [--list] [--jobs N]
Mutants live in tools/mutants/<PID>.json: [{"name":…, "file": "cryocat/x.py", "old": "...", "new": "...", "count": 1}]
"""
import argparse
import glob
import json
import os
import shutil
import subprocess
import sys
import tempfile
import time
from concurrent.futures import ThreadPoolExecutor

HERE = os.path.dirname(os.path.dirname(os.path.abspath(__file__)))


def load(prop=None):
    out = []
    for f in sorted(glob.glob(os.path.join(HERE, "tools", "mutants", "*.json"))):
        pid = os.path.basename(f)[:-5]
        if prop and pid != prop:
            continue
        for m in json.load(open(f)):
            m["pid"] = pid
            out.append(m)
    return out


def run_one(m, tier, base):
    wt = tempfile.mkdtemp(prefix="mut_%s_" % m["pid"], dir=base)
    os.rmdir(wt)
    subprocess.run(["git", "-C", "/repo", "worktree", "add", "-q", "--detach", wt, "HEAD"], check=True,
                   stdout=subprocess.DEVNULL, stderr=subprocess.DEVNULL)
    try:
        edits = m.get("edits") or [m]
        for e in edits:
            path = os.path.join(wt, e["file"])
            src = open(path).read()
            if src.count(e["old"]) != e.get("count", 1):
                return m, "STALE", "pattern occurs %d times in %s" % (src.count(e["old"]), e["file"]), 0.0
            open(path, "w").write(src.replace(e["old"], e["new"]))
        # the mutant must still import
        p = subprocess.run(["/venv/bin/python", "-W", "ignore", "-c", "import sys; sys.path.insert(0, %r); import cryocat.cryomotl, "
                            "cryocat.cryomap, cryocat.cryomask, cryocat.geom, cryocat.tiltstack, cryocat.starfileio, cryocat.tmana, "
                            "cryocat.nnana, cryocat.ribana, cryocat.memthick, cryocat.mdoc, cryocat.wedgeutils, cryocat.ioutils" % wt],
                           stdout=subprocess.PIPE, stderr=subprocess.STDOUT, text=True)
        if p.returncode != 0:
            return m, "BROKEN", p.stdout[-300:], 0.0
        env = dict(os.environ)
        env["VERIF_REPO"] = wt
        t0 = time.time()
        p = subprocess.run([os.path.join(HERE, "check"), m["pid"], "--tier", tier, "--seed", str(m.get("seed", 0))],
                           cwd=HERE, env=env, stdout=subprocess.PIPE, stderr=subprocess.STDOUT, text=True)
        dt = time.time() - t0
        clauses = sorted({l.split("clause=")[1].split(" ")[0] for l in p.stdout.splitlines() if "clause=" in l})
        status = {0: "MISSED", 1: "CAUGHT"}.get(p.returncode, "ERROR(%d)" % p.returncode)
        detail = ",".join(clauses) if p.returncode == 1 else p.stdout[-300:].replace("\n", " | ")
        return m, status, detail, dt
    finally:
        subprocess.run(["git", "-C", "/repo", "worktree", "remove", "--force", wt], stdout=subprocess.DEVNULL,
                       stderr=subprocess.DEVNULL)
        shutil.rmtree(wt, ignore_errors=True)
        subprocess.run(["git", "-C", "/repo", "worktree", "prune"], stdout=subprocess.DEVNULL)


def main():
    ap = argparse.ArgumentParser()
    ap.add_argument("--prop")
    ap.add_argument("--name")
    ap.add_argument("--tier", default="quick")
    ap.add_argument("--list", action="store_true")
    ap.add_argument("--jobs", type=int, default=3)
    a = ap.parse_args()
    ms = [m for m in load(a.prop) if not a.name or a.name in m["name"]]
    if a.list:
        for m in ms:
            print(m["pid"], m["name"])
        return 0
    os.makedirs("/tmp/verif_mutants", exist_ok=True)
    base = tempfile.mkdtemp(prefix="run%d_" % os.getpid(), dir="/tmp/verif_mutants")   # private: instances may run concurrently
    bad = 0
    with ThreadPoolExecutor(max_workers=a.jobs) as ex:
        for m, status, detail, dt in ex.map(lambda m: run_one(m, a.tier, base), ms):
            print("%-8s %-4s %-45s %5.0fs %s" % (status, m["pid"], m["name"], dt, detail), flush=True)
            if status != "CAUGHT" and not m.get("expected_miss"):
                bad += 1
    shutil.rmtree(base, ignore_errors=True)
    return 1 if bad else 0


if __name__ == "__main__":
    sys.exit(main())

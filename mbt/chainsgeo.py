"""Interpretation (gamma) for C19: realise an abstract chain-tracing instance - n particles, the linked pairs
(exit of i -> entry of j in range) listed by strictly increasing distance - as entry / exit point sets in R^3.

Linked pairs get the distances  min + k (max - min) / (L + 1)  (k = rank), every other pair of different particles
is pushed beyond 1.25 max.  The result is verified by brute force (exactly the requested link set, in exactly the
requested order, with margins); an instance that cannot be realised is reported as None and discarded by the driver.
"""
import math

import numpy as np

DMIN, DMAX = 2.0, 5.0


def distances(entry, exit_):
    """D[a, b] = |exit(a) - entry(b)|, brute force."""
    entry = np.asarray(entry, dtype=float)
    exit_ = np.asarray(exit_, dtype=float)
    return np.sqrt(((exit_[:, None, :] - entry[None, :, :]) ** 2).sum(axis=2))


def verify(entry, exit_, links, dmin=DMIN, dmax=DMAX, margin=1e-3):
    n = len(entry)
    D = distances(entry, exit_)
    want = {(a - 1, b - 1) for a, b in links}
    for a in range(n):
        for b in range(n):
            if a == b:
                continue
            inr = dmin < D[a, b] <= dmax
            if inr != ((a, b) in want):
                return False
            if abs(D[a, b] - dmax) < margin or abs(D[a, b] - dmin) < margin:
                return False
    ds = [D[a - 1, b - 1] for a, b in links]
    return all(ds[k + 1] - ds[k] > margin for k in range(len(ds) - 1))


def realise(n, links, rng, tries=12):
    """links: list of [i, j] (1-based), ascending distance.  Returns (entry, exit) as lists or None."""
    from scipy.optimize import least_squares
    L = len(links)
    target = {(a - 1, b - 1): DMIN + (k + 1) * (DMAX - DMIN) / (L + 1) for k, (a, b) in enumerate(links)}
    far = 1.25 * DMAX
    box = 7.0 * max(1.0, n ** (1.0 / 3.0))
    pairs = [(a, b) for a in range(n) for b in range(n) if a != b]

    def resid(v):
        E = v[:3 * n].reshape(n, 3)
        X = v[3 * n:].reshape(n, 3)
        out = []
        for a, b in pairs:
            d = math.sqrt(((X[a] - E[b]) ** 2).sum() + 1e-12)
            if (a, b) in target:
                out.append(d - target[(a, b)])
            else:
                out.append(max(0.0, far + 0.3 - d))
        for a in range(n):                                   # the exit stays near its own entry (a displaced site)
            d = math.sqrt(((X[a] - E[a]) ** 2).sum() + 1e-12)
            out.append(max(0.0, d - 6.0) + max(0.0, 0.5 - d))
        return np.array(out)

    for _ in range(tries):
        v0 = np.array([rng.uniform(0, box) for _ in range(6 * n)])
        # start every exit near its own entry
        for a in range(n):
            for c in range(3):
                v0[3 * n + 3 * a + c] = v0[3 * a + c] + rng.uniform(-2.5, 2.5)
        sol = least_squares(resid, v0, xtol=1e-12, ftol=1e-12, gtol=1e-12, max_nfev=400)
        if np.max(np.abs(sol.fun)) > 1e-6:
            continue
        E = np.round(sol.x[:3 * n].reshape(n, 3), 5)
        X = np.round(sol.x[3 * n:].reshape(n, 3), 5)
        if verify(E, X, links):
            return E.tolist(), X.tolist()
    return None

"""Caller-side frame conditions shared by all drivers.

Every property speaks about what a call RETURNS (or writes); none of them allows the call to change what the
caller handed in.  The independently seeded changes of rounds 2-5 (DESIGN.md App. F) broke this in many shapes:
arrays written in place, lists popped, angle vectors negated, DataFrames re-labelled, results of earlier calls
overwritten by later ones, arrays returned that alias an argument.  This module gives the drivers one way to say it:

    g = argguard.Guard(points=points, angles=angles, masks=mask_list)      # deep snapshot, taken before the call
    out = api(points, angles, mask_list)
    why = g.changed()                 # None, or 'angles: values differ at index (0,) 30.0 -> -30.0'
    why = g.aliased(out)              # None, or 'result shares memory with argument points'

Supported values: numpy arrays, pandas DataFrame / Series, lists / tuples / dicts of those (recursively), scalars,
strings, None.  Anything else is compared by identity only.  NaN equals NaN; dtype, shape, memory order flags
(C / F contiguity), writeability, row labels and column order are all part of the snapshot.
"""
import numpy as np

try:
    import pandas as pd
except Exception:      # pragma: no cover
    pd = None


def _snap(v):
    if isinstance(v, np.ndarray):
        return ("nd", v.dtype.str, v.shape, bool(v.flags.c_contiguous), bool(v.flags.f_contiguous),
                bool(v.flags.writeable), v.copy(order="K"))
    if pd is not None and isinstance(v, pd.DataFrame):
        return ("df", list(v.columns), list(v.index), [str(t) for t in v.dtypes], v.to_numpy(copy=True))
    if pd is not None and isinstance(v, pd.Series):
        return ("se", v.name, list(v.index), str(v.dtype), v.to_numpy(copy=True))
    if isinstance(v, (list, tuple)):
        return ("seq", type(v).__name__, [id(x) for x in v], [_snap(x) for x in v])
    if isinstance(v, dict):
        return ("map", list(v.keys()), {k: _snap(x) for k, x in v.items()})
    if isinstance(v, (int, float, complex, str, bytes, bool, type(None), np.generic)):
        return ("val", v)
    return ("obj", id(v))


def _eq_values(a, b):
    a, b = np.asarray(a), np.asarray(b)
    if a.shape != b.shape:
        return "shape %s -> %s" % (a.shape, b.shape)
    if a.dtype.kind in "fc" and b.dtype.kind in "fc":
        same = (a == b) | (np.isnan(a) & np.isnan(b))
    elif a.dtype.kind == "O" or b.dtype.kind == "O":
        same = np.array([x is y or x == y or (isinstance(x, float) and isinstance(y, float) and x != x and y != y)
                         for x, y in zip(a.ravel().tolist(), b.ravel().tolist())], dtype=bool).reshape(a.shape)
    else:
        same = a == b
    if np.all(same):
        return None
    idx = tuple(int(i) for i in np.argwhere(~np.asarray(same))[0])
    return "values differ at index %s: %r -> %r (%d entries changed)" % (idx, a[idx], b[idx], int(np.sum(~same)))


def _diff(s, v):
    kind = s[0]
    if kind == "nd":
        if not isinstance(v, np.ndarray):
            return "no longer an ndarray"
        if v.dtype.str != s[1]:
            return "dtype %s -> %s" % (s[1], v.dtype.str)
        if v.shape != s[2]:
            return "shape %s -> %s" % (s[2], v.shape)
        if (bool(v.flags.c_contiguous), bool(v.flags.f_contiguous)) != (s[3], s[4]):
            return "memory layout changed"
        if bool(v.flags.writeable) != s[5]:
            return "writeable flag changed"
        return _eq_values(s[6], v)
    if kind == "df":
        if list(v.columns) != s[1]:
            return "columns %s -> %s" % (s[1], list(v.columns))
        if list(v.index) != s[2]:
            return "row labels %s -> %s" % (s[2][:6], list(v.index)[:6])
        if [str(t) for t in v.dtypes] != s[3]:
            return "column dtypes changed"
        return _eq_values(s[4], v.to_numpy())
    if kind == "se":
        if list(v.index) != s[2] or str(v.dtype) != s[3] or v.name != s[1]:
            return "labels / dtype / name changed"
        return _eq_values(s[4], v.to_numpy())
    if kind == "seq":
        if type(v).__name__ != s[1]:
            return "container type changed"
        if len(v) != len(s[3]):
            return "container length %d -> %d" % (len(s[3]), len(v))
        if [id(x) for x in v] != s[2]:
            return "container entries replaced or reordered"
        for i, (ss, x) in enumerate(zip(s[3], v)):
            d = _diff(ss, x)
            if d:
                return "[%d] %s" % (i, d)
        return None
    if kind == "map":
        if list(v.keys()) != s[1]:
            return "keys changed"
        for k in s[1]:
            d = _diff(s[2][k], v[k])
            if d:
                return "[%r] %s" % (k, d)
        return None
    if kind == "val":
        same = (v is s[1]) or (v == s[1]) or (isinstance(v, float) and v != v and s[1] != s[1])
        return None if same else "%r -> %r" % (s[1], v)
    return None if id(v) == s[1] else "object replaced"


def _arrays(v, out):
    if isinstance(v, np.ndarray):
        out.append(v)
    elif pd is not None and isinstance(v, (pd.DataFrame, pd.Series)):
        try:
            out.append(v.to_numpy(copy=False))
        except Exception:
            pass
    elif isinstance(v, (list, tuple)):
        for x in v:
            _arrays(x, out)
    elif isinstance(v, dict):
        for x in v.values():
            _arrays(x, out)
    elif hasattr(v, "df") and pd is not None and isinstance(getattr(v, "df"), pd.DataFrame):
        _arrays(v.df, out)
    elif hasattr(v, "data") and isinstance(getattr(v, "data"), np.ndarray):
        out.append(v.data)
    return out


class Guard:
    """Deep snapshot of the named arguments of one call (or of earlier results that must stay what they were)."""

    def __init__(self, **named):
        self.named = named
        self.snaps = {k: _snap(v) for k, v in named.items()}

    def changed(self):
        for k, v in self.named.items():
            d = _diff(self.snaps[k], v)
            if d:
                return "%s: %s" % (k, d)
        return None

    def aliased(self, result):
        """A returned array that shares memory with an argument lets a later edit of either change the other."""
        res = _arrays(result, [])
        for k, v in self.named.items():
            for a in _arrays(v, []):
                for r in res:
                    if a.size and r.size and np.shares_memory(a, r):
                        return "result shares memory with argument %s" % k
        return None

"""Helpers to build concrete particle tables (pandas) from abstract rows and to project them back."""
import numpy as np
import pandas as pd

from . import geo

# canonical field order as the property text (C01) states it - not read from the code
FIELDS = ["score", "geom1", "geom2", "subtomo_id", "tomo_id", "object_id", "subtomo_mean", "x", "y", "z",
          "shift_x", "shift_y", "shift_z", "geom3", "geom4", "geom5", "phi", "psi", "theta", "class"]


def empty_rows(n):
    return {f: np.zeros(n, dtype=float) for f in FIELDS}


def df_from_cols(cols, order=None):
    df = pd.DataFrame({f: np.asarray(cols[f], dtype=float) for f in FIELDS})
    if order is not None:
        df = df[list(order)]
    return df


def poses_to_df(poses, rng=None, extra=None):
    """poses: list of {x:[3], s:[3], r:code, t:int} on the 1/8 lattice -> 20-column DataFrame."""
    n = len(poses)
    cols = empty_rows(n)
    for k, p in enumerate(poses):
        cols["x"][k], cols["y"][k], cols["z"][k] = [v / geo.U for v in p["x"]]
        cols["shift_x"][k], cols["shift_y"][k], cols["shift_z"][k] = [v / geo.U for v in p["s"]]
        phi, theta, psi = geo.euler_for_code(p["r"], rng)
        cols["phi"][k], cols["theta"][k], cols["psi"][k] = phi, theta, psi
        cols["tomo_id"][k] = p["t"]
        cols["subtomo_id"][k] = k + 1
        cols["object_id"][k] = 1
        cols["class"][k] = 1
        cols["score"][k] = 0.5
    if extra:
        for f, v in extra.items():
            cols[f][:] = v
    return df_from_cols(cols)


def project_poses(df):
    """-> list of {c:[3] complete position on the lattice, x:[3], s:[3], r: code or None, t}, max lattice residual."""
    out = []
    worst = 0.0
    for _, row in df.iterrows():
        x, rx_ = geo.to_lattice([row["x"], row["y"], row["z"]])
        s, rs = geo.to_lattice([row["shift_x"], row["shift_y"], row["shift_z"]])
        worst = max(worst, rx_, rs)
        m = geo.zxz_matrix(row["phi"], row["theta"], row["psi"])
        out.append({"x": x, "s": s, "c": [x[i] + s[i] for i in range(3)], "r": geo.matrix_to_code(m, 1e-9),
                    "t": int(round(row["tomo_id"]))})
    return out, worst


def vary_index(df, k):
    """The same table with another row index: a particle list handed to cryoCAT may be a sorted, sampled or filtered
    DataFrame whose labels are not 0..N-1 (k % 4: 0, 1 default; 2 permuted labels; 3 gapped, unsorted labels)."""
    n = len(df)
    mode = k % 4
    if n == 0:
        return df
    if (k // 4) % 2 == 1:
        df = int_ids(df)
    if mode < 2:
        return df
    out = df.copy()
    if mode == 2:
        labels = [(i * 7 + k) % n for i in range(n)] if n % 7 else [(i * 11 + k) % n for i in range(n)]
        if len(set(labels)) != n:
            labels = list(range(n - 1, -1, -1))
    else:
        labels = [100 + 3 * ((i * 5 + k) % n) for i in range(n)] if n % 5 else [100 + 3 * ((i * 3 + k) % n) for i in range(n)]
        if len(set(labels)) != n:
            labels = [100 + 3 * i for i in range(n)]
    out.index = labels
    return out


def repeat_labels(df, k):
    """The same table with REPEATED row labels: Motl(df) does not reset the index, so a list built with
    pd.concat([t1, t2]) (without ignore_index) or sliced from a frame with a constant index is a valid input
    (k % 3: 0 unchanged; 1 labels restart in the middle, as after a concat of two frames; 2 all labels equal)."""
    n = len(df)
    mode = k % 3
    if n < 2 or mode == 0:
        return df
    out = df.copy()
    if mode == 1:
        m = max(1, n // 2)
        out.index = list(range(m)) + list(range(n - m))
    else:
        out.index = [0] * n
    return out


def vary_columns(df, k):
    """The same table with another COLUMN order: Motl(df) accepts any order of the 20 named columns (a dict-built,
    alphabetically sorted or user-reordered frame), so every operation must address fields by name
    (k % 3: 0 canonical; 1 alphabetical; 2 rotated and pairwise swapped)."""
    mode = k % 3
    cols = list(df.columns)
    if mode == 0 or len(cols) < 2:
        return df
    if mode == 1:
        order = sorted(cols)
    else:
        r = 1 + (k // 3) % (len(cols) - 1)
        order = cols[r:] + cols[:r]
        for i in range(0, len(order) - 1, 2):
            order[i], order[i + 1] = order[i + 1], order[i]
    return df[order]


ID_COLUMNS = ["subtomo_id", "tomo_id", "object_id", "class", "geom2", "geom5"]


def int_ids(df):
    """The same table with its identifier columns stored as int64 (lists built from integer data, as the
    repository's own test fixtures are) - only where every value is a finite integer."""
    out = df.copy()
    for c in ID_COLUMNS:
        if c in out.columns:
            v = out[c].to_numpy()
            if v.dtype.kind == "f" and np.all(np.isfinite(v)) and np.all(np.abs(v) < 2.0 ** 53) and np.all(v == np.rint(v)):
                out[c] = v.astype("int64")
    return out


POS_COLUMNS = ["x", "y", "z", "shift_x", "shift_y", "shift_z"]


def int_positions(df):
    """The same table with the position / shift columns stored as int64 where every value of the column is a finite
    integer (lists of freshly picked particles built from integer data, as in the repository's own fixtures)."""
    out = df.copy()
    for c in POS_COLUMNS:
        if c in out.columns:
            v = out[c].to_numpy()
            if v.dtype.kind == "f" and np.all(np.isfinite(v)) and np.all(np.abs(v) < 2.0 ** 53) and np.all(v == np.rint(v)):
                out[c] = v.astype("int64")
    return out

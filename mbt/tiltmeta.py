"""Interpretation (gamma) and projection (alpha) for C17 - mdoc documents, loader files, wedge lists.

gamma: abstract documents of TiltMeta.tla (raw tokens dig / dec / neg / txt) -> mdoc text; number lists -> one-value-per-
line files, gctf STAR, ctffind4 text, dimension / z-shift files.
alpha: a live Mdoc object -> the value-level state of the specification; written mdoc text -> abstract document (own
section splitter, no cryoCAT code); wedge-list tables / STAR / EM files -> rows of scaled integers.
"""
import math
import os
import re

# free text that may stand right of "=" (no "=", never numeric-looking).  Index = id of the txt token.
TXT = {
    1: "-0.0733564 0.646703",
    2: "017_01.mrc",
    3: "06-Jun-23  23:19:46",
    4: "text here",
    5: "SerialEM Version 4.0.20 64-bit,  built Feb 17 2023  20:15:15",
    6: "4096 4096",
    7: "1e-05",
    8: "NaN",
    9: "3.5 -2.25",
    10: "True",
    11: "a b  c",
    12: "1.2.3",
    13: "+5",
    14: "--3",
    15: "1,5",
    16: "X:\\frames\\TS 017\\017_01.tif",
    17: "0 1948 630.934",
    18: "-4096 -4096",
    19: "1.5e3",
    20: ".",
    21: "-",
    22: "- 3",
    23: "12 ]",
    24: "d\u00e9focus \u00b5m \u00c5 \u6e2c\u5b9a.mrc",
    25: "\u00d8 0.5 \u00b1 0.1",
}
TXT_REV = {v: k for k, v in TXT.items()}

# header titles (the text between the brackets, as read back: stripped)
TITLES = {
    1: "T = SerialEM: Titan Krios G4 D3946 at MPI BP                06-Jun-23  23:19:47",
    2: "T =     Tilt axis angle = 82.9, binning = 1  spot = 5  camera = 1 dosym = 8.0",
    3: "T = x",
    4: "Note = second title, (no brackets)  kept",
}
TITLES_REV = {v: k for k, v in TITLES.items()}


# ---- gamma: tokens -> text ---------------------------------------------------------------------------------------
def render_raw(tok):
    c = tok["c"]
    if c == "dig":
        return "0" * tok["pad"] + str(tok["n"])
    if c == "dec":
        return ("" if tok["noip"] else str(tok["ip"])) + "." + "".join(str(x) for x in tok["fd"])
    if c == "neg":
        return "-" + render_raw(tok["b"])
    if c == "txt":
        return TXT[tok["id"]]
    raise ValueError("unknown raw token %r" % (tok,))


def restyle(path, style):
    """Rewrite a text input with another line-end / end-of-file convention (bit 0: CRLF line ends, bit 1: two trailing
    blank lines) - both are things an editor or another operating system does to .tlt / .mdoc / .star / .txt files."""
    if not style & 3:
        return
    with open(path, newline="", encoding="utf-8") as fh:
        text = fh.read()
    eol = "\r\n" if style & 1 else "\n"
    text = text.replace("\r\n", "\n").replace("\n", eol)
    if style & 2:
        text += eol + eol
    with open(path, "w", newline="", encoding="utf-8") as fh:
        fh.write(text)


def render_doc(doc, layout=0):
    """Abstract document -> mdoc text.  layout varies what the format leaves free: spaces around '=', trailing blanks,
    number of blank lines, blanks inside the title brackets."""
    eq = [" = ", "=", " =  ", "  = "][layout % 4]
    trail = ["", "", "  ", "\t"][(layout // 4) % 4]
    gap = ["\n", "\n\n", "\n"][(layout // 16) % 3]
    tpad = ["", "    ", " "][(layout // 48) % 3]
    out = []
    for key, raw in doc["hdr"]:
        out.append("%s%s%s%s\n" % (key, eq, render_raw(raw), trail))
    out.append(gap)
    for t in doc["titles"]:
        out.append("[%s%s]\n" % (TITLES[t], tpad))
        out.append(gap)
    for sec in doc["secs"]:
        out.append("[ZValue = %s]\n" % render_raw(sec["z"]))
        for key, raw in sec["kv"]:
            out.append("%s%s%s%s\n" % (key, eq, render_raw(raw), trail))
        out.append(gap)
    return "".join(out)


# ---- alpha: text -> tokens ---------------------------------------------------------------------------------------
_DIG = re.compile(r"^\d+$")
_DEC = re.compile(r"^(\d*)\.(\d*)$")


def parse_raw(s):
    """Text right of '=' (stripped) -> raw token.  Unknown free text gets id -1 and keeps its text."""
    s = s.strip()
    if _DIG.match(s) and s.isascii():
        n = int(s)
        return {"c": "dig", "n": n, "pad": len(s) - len(str(n))}
    m = _DEC.match(s)
    if m and s.isascii() and (m.group(1) or m.group(2)):
        ip = m.group(1)
        if ip == "" or str(int(ip)) == ip:
            return {"c": "dec", "ip": int(ip) if ip else 0, "fd": [int(ch) for ch in m.group(2)], "noip": ip == ""}
    if s.startswith("-"):
        b = parse_raw(s[1:]) if s[1:] == s[1:].strip() else {"c": "txt"}
        if b["c"] in ("dig", "dec"):
            return {"c": "neg", "b": b}
    if s in TXT_REV:
        return {"c": "txt", "id": TXT_REV[s]}
    return {"c": "txt", "id": -1, "text": s}


def parse_doc(text):
    """Own splitter of an mdoc text: header entries, bracketed titles, ZValue sections (file order)."""
    hdr, titles, secs = [], [], []
    cur = None
    for line in text.splitlines():
        s = line.strip()
        if not s:
            continue
        if s.startswith("[ZValue"):
            z = s[1:].rstrip("]").split("=", 1)[1].strip()
            cur = {"z": parse_raw(z), "kv": []}
            secs.append(cur)
        elif s.startswith("[") and cur is None:
            inner = s[1:]
            if inner.endswith("]"):
                inner = inner[:-1]
            inner = inner.strip()
            titles.append(TITLES_REV.get(inner, -1))
        else:
            key, _, val = s.partition("=")
            entry = [key.strip(), parse_raw(val)]
            if cur is None:
                hdr.append(entry)
            else:
                cur["kv"].append(entry)
    return {"hdr": hdr, "titles": titles, "secs": secs}


# ---- alpha: live values -> value records ---------------------------------------------------------------------------
def value_of(v):
    """A cell / header value of a live Mdoc -> the specification's value record."""
    import numpy as np
    if isinstance(v, (bool, np.bool_)):
        return {"t": "bool", "v": bool(v)}
    if isinstance(v, (int, np.integer)):
        if v < 0:
            return {"t": "negint", "n": int(v)}
        return {"t": "int", "n": int(v)}
    if isinstance(v, (float, np.floating)):
        r = repr(float(v))
        if "e" in r or "n" in r:                      # exponent form, nan, inf: outside the generated class
            return {"t": "float?", "repr": r}
        neg = r.startswith("-")
        ip, _, fd = r.lstrip("-").partition(".")
        fd = [int(ch) for ch in fd] if fd else [0]
        while len(fd) > 1 and fd[-1] == 0:
            fd.pop()
        return {"t": "float", "neg": neg, "ip": int(ip), "fd": fd}
    if isinstance(v, str):
        return {"t": "str", "raw": parse_raw(v)}
    return {"t": "other", "repr": repr(v)[:80]}


def project_mdoc(m):
    """Live Mdoc -> [hdr, titles, cols, imgs] as TiltMeta!MdocJ prints it."""
    hdr = [[str(k), value_of(v)] for k, v in m.project_info.items()]
    titles = [TITLES_REV.get(t, -1) for t in m.titles]
    cols = [c for c in m.imgs.columns if c not in (m.section_id, "Removed")]
    imgs = []
    for lab, row in m.imgs.iterrows():
        imgs.append({"lab": int(lab), "z": int(row[m.section_id]), "f": [value_of(row[c]) for c in cols],
                     "rm": bool(row["Removed"])})
    return {"hdr": hdr, "titles": titles, "cols": cols, "imgs": imgs}


# ---- gamma for loader / wedge inputs ---------------------------------------------------------------------------------
def dec(v, scale, places):
    """Scaled integer -> decimal text with the given number of places."""
    return "%.*f" % (places, v / scale)


def write_values(path, vals, scale, places, pad=""):
    with open(path, "w") as fh:
        for v in vals:
            fh.write("%s%s\n" % (pad, dec(v, scale, places)))


def micrograph_names(n, style, seed=0):
    """Micrograph names as processing pipelines write them; their string order has nothing to do with the tilt order."""
    import random
    if style == "padded":
        return ["split.mrc.%02d" % (k + 1) for k in range(n)]
    if style == "unpadded":
        return ["ts_%d.mrc" % (k + 1) for k in range(n)]          # ts_1, ts_10, ts_11, ts_2 ... as strings
    if style == "reversed":
        return ["frame_%03d.mrc" % (n - k) for k in range(n)]
    rnd = random.Random(seed)
    pool = ["img_%04d_%s.mrc" % (rnd.randrange(10000), rnd.choice("abcxyz")) for _ in range(n)]
    return pool


def write_gctf(path, rows, with_phase, names="padded", optional=7):
    """gctf STAR file: rows [u, v, ang, ps] with u, v in Angstrom x10, ang x100, ps x1000.  names: style of the
    rlnMicrographName column or "absent"; optional bits: 1 rlnCtfImage, 2 microscope constants, 4 figure of merit."""
    labels, cols = [], []
    n = len(rows)
    if names != "absent":
        nm = micrograph_names(n, names, n)
        labels.append("_rlnMicrographName")
        cols.append(nm)
        if optional & 1:
            labels.append("_rlnCtfImage")
            cols.append([x + ".ctf:mrc" for x in nm])
    labels += ["_rlnDefocusU", "_rlnDefocusV", "_rlnDefocusAngle"]
    cols += [[dec(r["u"], 10, 6) for r in rows], [dec(r["v"], 10, 6) for r in rows], [dec(r["ang"], 100, 6) for r in rows]]
    if optional & 2:
        labels += ["_rlnVoltage", "_rlnSphericalAberration", "_rlnAmplitudeContrast"]
        cols += [["300.000000"] * n, ["2.700000"] * n, ["0.070000"] * n]
    if with_phase:
        labels.append("_rlnPhaseShift")
        cols.append([dec(r["ps"], 1000, 6) for r in rows])
    if optional & 4:
        labels.append("_rlnCtfFigureOfMerit")
        cols.append(["0.0%05d" % (k + 1) for k in range(n)])
    with open(path, "w") as fh:
        fh.write("\ndata_\n\nloop_\n")
        for i, lab in enumerate(labels):
            fh.write("%s #%d\n" % (lab, i + 1))
        for k in range(n):
            fh.write(" ".join("%12s" % c[k] for c in cols) + "\n")
        fh.write("\n")


def write_ctffind4(path, rows):
    with open(path, "w") as fh:
        fh.write("# Output from CTFFind version 4.1.8, run on 2019-02-25 11:33:34\n")
        fh.write("# Input file: 031.mrc ; Number of micrographs: %d\n" % len(rows))
        fh.write("# Pixel size: 1.327 Angstroms ; acceleration voltage: 300.0 keV ; spherical aberration: 2.70 mm\n")
        fh.write("# Box size: 512 pixels ; min. res.: 30.0 Angstroms ; max. res.: 5.0 Angstroms\n")
        fh.write("# Columns: #1 - micrograph number; #2 - defocus 1 [Angstroms]; #3 - defocus 2; #4 - azimuth of astigmatism; "
                 "#5 - additional phase shift [radians]; #6 - cross correlation; #7 - spacing (in Angstroms)\n")
        for k, r in enumerate(rows):
            fh.write("%.6f %s %s %s %s 0.00%04d 12.144508\n" % (k + 1, dec(r["u"], 10, 6), dec(r["v"], 10, 6),
                                                              dec(r["ang"], 100, 6), dec(r["ps"], 1000, 6), k + 1))


def read_star_table(path):
    """Own reader of a single-loop STAR file: (labels, rows of strings)."""
    labels, rows = [], []
    with open(path) as fh:
        for line in fh:
            s = line.strip()
            if not s or s.startswith("data_") or s == "loop_" or s.startswith("#"):
                continue
            if s.startswith("_"):
                labels.append(s.split()[0][1:])
            else:
                rows.append(s.split())
    return labels, rows


def sround(x, scale):
    """float -> scaled integer (None for nan)."""
    x = float(x)
    if math.isnan(x) or math.isinf(x):
        return None
    return int(round(x * scale))

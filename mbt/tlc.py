"""Thin runner around TLC (tla2tools 1.8) used by every driver.

The runner copies the specification modules into a private work directory, writes the cfg it
is given, runs `java -Xss512m ... tlc2.TLC` and parses
  * the summary line (states generated / distinct states),
  * `PrintT` output of JSON strings (lines that are a TLA+ string holding a JSON object),
  * invariant / property violations and evaluation errors,
  * per-action coverage (with coverage=True).
"""
import json
import os
import re
import shutil
import subprocess
import time

TLA_JAR = "/opt/veriftools/tla/tla2tools.jar"
CM_JAR = "/opt/veriftools/tla/CommunityModules-deps.jar"
SPEC_DIR = os.path.join(os.path.dirname(os.path.dirname(os.path.abspath(__file__))), "spec")


class TLCError(Exception):
    """Machinery failure (exit 2): TLC could not run or the spec itself is broken."""


class TLCResult:
    def __init__(self):
        self.stdout = ""
        self.generated = 0
        self.distinct = 0
        self.records = []       # JSON objects printed with PrintT(ToJson(..)) / PrintT(<<"tag", ToJson(..)>>)
        self.tagged = {}        # tag -> list of JSON objects
        self.violated = []      # names of violated invariants / properties
        self.errors = []        # TLC error messages (evaluation errors etc.)
        self.coverage = {}      # action name -> (distinct, generated)
        self.wall_s = 0.0
        self.cmd = ""
        self.finished = False

    @property
    def ok(self):
        return self.finished and not self.violated and not self.errors


_SUMMARY = re.compile(r"^(\d+) states generated, (\d+) distinct states found")
_SIMSUM = re.compile(r"(\d+) states checked")
_COV = re.compile(r"^<(\w+) line \d+, col \d+ to line \d+, col \d+ of module (\w+)>: (\d+):(\d+)")
_INV = re.compile(r"Invariant (\w+) is violated")
_PROP = re.compile(r"(?:Action property|Temporal property|Property) (\w+) (?:is|was) violated|property (\w+) is violated", re.I)


def _unquote_tla_string(s):
    """A TLA+ string printed by TLC: "...." with \\" and \\\\ escapes."""
    try:
        return json.loads(s)
    except Exception:
        body = s[1:-1]
        return body.replace('\\"', '"').replace("\\\\", "\\")


def parse_output(text, res):
    for raw in text.splitlines():
        line = raw.strip()
        if not line:
            continue
        if line.startswith('"{') and line.endswith('}"'):
            try:
                res.records.append(json.loads(_unquote_tla_string(line)))
            except Exception as e:  # pragma: no cover
                res.errors.append("unparsable PrintT line: %r (%s)" % (line[:200], e))
            continue
        if line.startswith('<<"') and line.endswith('>>'):
            m = re.match(r'^<<"(\w+)", (".*")>>$', line)
            if m:
                try:
                    obj = json.loads(_unquote_tla_string(m.group(2)))
                    res.tagged.setdefault(m.group(1), []).append(obj)
                    continue
                except Exception:
                    pass
            m = re.match(r'^<<"(\w+)", (.*)>>$', line)
            if m:
                res.tagged.setdefault(m.group(1), []).append(m.group(2))
                continue
        m = _SUMMARY.match(line)
        if m:
            res.generated = int(m.group(1))
            res.distinct = int(m.group(2))
            continue
        m = _COV.match(line)
        if m:
            res.coverage[m.group(1)] = (int(m.group(3)), int(m.group(4)))
            continue
        m = _INV.search(line)
        if m:
            res.violated.append(m.group(1))
            continue
        m = _PROP.search(line)
        if m:
            res.violated.append(m.group(1) or m.group(2))
            continue
        if line.startswith("Error:"):
            # "Error: Invariant X is violated." is handled above; keep the rest
            if "is violated" not in line and "behavior up to this point" not in line:
                res.errors.append(line)
        if "Model checking completed" in line or "Finished in" in line or "Finished computing" in line:
            res.finished = True
        m = _SIMSUM.search(line)
        if m and "simulation" in text[:4000].lower():
            res.generated = max(res.generated, int(m.group(1)))


def run(module, cfg_text, workdir, *, workers=None, env=None, simulate=None, depth=None, seed=None,
        timeout=1800, coverage=False, deadlock=False, extra_modules=(), extra_args=()):
    """Run TLC on spec/<module>.tla with the given cfg text.  Returns TLCResult."""
    os.makedirs(workdir, exist_ok=True)
    for f in os.listdir(SPEC_DIR):
        if f.endswith(".tla"):
            shutil.copy(os.path.join(SPEC_DIR, f), os.path.join(workdir, f))
    for path in extra_modules:
        shutil.copy(path, os.path.join(workdir, os.path.basename(path)))
    cfg_path = os.path.join(workdir, module + ".cfg")
    with open(cfg_path, "w") as fh:
        fh.write(cfg_text)
    meta = os.path.join(workdir, "meta_%s_%d" % (module, int(time.time() * 1000) % 10000000))
    if workers is None:
        workers = "auto"
    cmd = ["java", "-Xss512m", "-XX:+UseParallelGC", "-cp", TLA_JAR + ":" + CM_JAR, "tlc2.TLC",
           "-workers", str(workers), "-metadir", meta, "-noGenerateSpecTE", "-config", module + ".cfg"]
    if not deadlock:
        cmd.append("-deadlock")  # -deadlock switches deadlock checking OFF
    if coverage:
        cmd += ["-coverage", "1"]
    if simulate is not None:
        cmd += ["-simulate", "num=%d" % simulate]
        if depth is not None:
            cmd += ["-depth", str(depth)]
    if seed is not None:
        cmd += ["-seed", str(seed)]
    cmd += list(extra_args)
    cmd.append(module + ".tla")
    e = dict(os.environ)
    if env:
        e.update({k: str(v) for k, v in env.items()})
    res = TLCResult()
    res.cmd = " ".join(cmd)
    t0 = time.time()
    try:
        p = subprocess.run(cmd, cwd=workdir, env=e, stdout=subprocess.PIPE, stderr=subprocess.STDOUT,
                           timeout=timeout, text=True, errors="replace")
    except subprocess.TimeoutExpired as te:
        out = te.stdout or ""
        if isinstance(out, bytes):
            out = out.decode("utf-8", "replace")
        res.stdout = out
        parse_output(out, res)
        res.wall_s = time.time() - t0
        if simulate is None:
            raise TLCError("TLC timed out after %ss on %s" % (timeout, module))
        res.finished = True
        return res
    res.stdout = p.stdout
    res.wall_s = time.time() - t0
    parse_output(p.stdout, res)
    shutil.rmtree(meta, ignore_errors=True)
    if simulate is not None and p.returncode == 0:
        res.finished = True
    if p.returncode not in (0, 12, 13) and not res.violated:
        # 12 = safety violation, 13 = liveness violation; anything else is a spec / tool error
        tail = "\n".join(p.stdout.splitlines()[-40:])
        raise TLCError("TLC failed on %s (exit %d):\n%s" % (module, p.returncode, tail))
    return res


def sany(path):
    cmd = ["java", "-cp", TLA_JAR + ":" + CM_JAR, "tla2sany.SANY", os.path.basename(path)]
    p = subprocess.run(cmd, cwd=os.path.dirname(path), stdout=subprocess.PIPE, stderr=subprocess.STDOUT, text=True)
    ok = p.returncode == 0 and "Semantic errors" not in p.stdout and "Parse Error" not in p.stdout \
        and "Fatal errors" not in p.stdout and "Could not find module" not in p.stdout
    return ok, p.stdout

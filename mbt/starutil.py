"""Interpretation / projection helpers for STAR texts (used by the C02, C03, C04 drivers).

Nothing in here decides a property: texts are handed to TLC as lines of byte codes, numbers as exact decimals
[neg, digits, exp] (value = (-1)^neg * digits * 10^exp, digits without leading / trailing zeros - the canonical
form of Star!NumCanon), and Star.tla tokenizes, parses, types and rounds them.
"""
import decimal
import math
import os
from fractions import Fraction

from . import core

D = decimal.Decimal
_CTX = decimal.Context(prec=400)


# ---- bytes <-> text ------------------------------------------------------------------------------
def s2b(s):
    """Text -> the bytes a UTF-8 file holds for it (STAR files are written / read with the default text encoding,
    which the drivers require to be UTF-8 before they generate non-ASCII tokens)."""
    return list(s.encode("utf-8", errors="surrogateescape"))


def b2s(bs):
    return bytes(bs).decode("utf-8", errors="replace")


def default_encoding_is_utf8():
    import locale
    import sys
    if sys.flags.utf8_mode:
        return True
    enc = (locale.getpreferredencoding(False) or "").lower().replace("-", "").replace("_", "")
    return enc == "utf8"


def file_lines(path):
    """The bytes of a file split at LF (the only lexing done outside TLA+)."""
    with open(path, "rb") as fh:
        raw = fh.read()
    return [list(l) for l in raw.split(b"\n")]


def write_lines(path, lines):
    with open(path, "wb") as fh:
        fh.write(b"\n".join(bytes(l) for l in lines))


# ---- exact decimals ------------------------------------------------------------------------------
def canon_of_decimal(d):
    sign, digits, exp = d.as_tuple()
    ds = list(digits)
    while ds and ds[0] == 0:
        ds.pop(0)
    while ds and ds[-1] == 0:
        ds.pop()
        exp += 1
    if not ds:
        return {"neg": False, "digits": [], "exp": 0}
    return {"neg": bool(sign), "digits": ds, "exp": int(exp)}


def canon_of_number(v):
    """int -> its exact value; float -> the decimal of its shortest round-tripping spelling (identifies the float)."""
    import numpy as np
    if isinstance(v, (bool, np.bool_)):
        raise core.MachineryError("boolean where a number was expected")
    if isinstance(v, (int, np.integer)):
        return canon_of_decimal(D(int(v)))
    try:
        f = float(v)
    except (TypeError, ValueError):
        # text where a number was expected: visible as a value no decimal of the exact domain equals
        return {"neg": False, "digits": [9] * 3, "exp": 9997}
    if not math.isfinite(f):
        # outside every quantifier; make it visible as a value no finite decimal equals
        return {"neg": f < 0, "digits": [9] * 3, "exp": 9999 if f == f else 9998}
    return canon_of_decimal(D(repr(f)))


def fraction_of_canon(c):
    n = 0
    for d in c["digits"]:
        n = n * 10 + d
    if c["neg"]:
        n = -n
    e = c["exp"]
    return Fraction(n) * (Fraction(10) ** e)


def float_matches_canon(v, c, ulps=4):
    """Is the float v the correctly rounded value of the exact decimal c, up to a few ulps of parser slack?"""
    fr = fraction_of_canon(c)
    fe = float(fr)
    fv = float(v)
    if fv == fe:
        return True
    return abs(fv - fe) <= ulps * math.ulp(fe)


def near_rounding_tie(v, window=0.01):
    """Is the 7th decimal of v within `window` of an exact half (outcome of round(6) not part of the property)?"""
    x = abs(D(float(v))) * 1000000
    frac = x - x.to_integral_value(rounding=decimal.ROUND_FLOOR)
    return abs(frac - D("0.5")) < D(str(window))


# ---- projection of pandas frames -----------------------------------------------------------------
def project_frames(frames, specifiers):
    """alpha: frames returned by Starfile.read -> blocks [name, labels, types, rows of cells]."""
    import pandas as pd
    blocks = []
    for f, sp in zip(frames, specifiers):
        labels = [s2b(str(c)) for c in f.columns]
        n = f.shape[0]
        types = []
        cols = []
        for k in range(f.shape[1]):
            col = f.iloc[:, k]
            if n == 0:
                types.append("none")
                cols.append([])
                continue
            if pd.api.types.is_bool_dtype(col.dtype):
                types.append("bool")
                cols.append([{"text": s2b(str(x))} for x in col.tolist()])
            elif pd.api.types.is_numeric_dtype(col.dtype):
                types.append("num")
                cols.append([{"num": canon_of_number(x)} for x in col.tolist()])
            else:
                vals = col.tolist()
                if all(isinstance(x, str) for x in vals):
                    types.append("text")
                    cols.append([{"text": s2b(x)} for x in vals])
                else:
                    types.append("mixed")
                    cols.append([{"text": s2b(str(x))} for x in vals])
        rows = [[cols[k][r] for k in range(f.shape[1])] for r in range(n)]
        blocks.append({"name": s2b(str(sp)), "labels": labels, "types": types, "rows": rows})
    return blocks


def describe_blocks(blocks, limit=3):
    out = []
    for b in blocks[:limit]:
        out.append("%s%s rows=%d" % (b2s(b["name"]), [b2s(l) for l in b["labels"]][:6], len(b["rows"])))
    return "; ".join(out)


def cell_str(c):
    if "num" in c:
        return str(fraction_of_canon(c["num"]).limit_denominator(10 ** 9)) if c["num"]["exp"] < -9 else \
            str(float(fraction_of_canon(c["num"])))
    return repr(b2s(c["text"]))


def first_difference(got, exp, numeric_equal=None):
    """Diagnostic only (never the verdict): where two block lists differ."""
    if len(got) != len(exp):
        return "block count %d != %d" % (len(got), len(exp))
    for bi, (g, e) in enumerate(zip(got, exp)):
        if g["name"] != e["name"]:
            return "block %d name %r != %r" % (bi + 1, b2s(g["name"]), b2s(e["name"]))
        if g["labels"] != e["labels"]:
            return "block %d labels %s != %s" % (bi + 1, [b2s(x) for x in g["labels"]], [b2s(x) for x in e["labels"]])
        if g["types"] != e["types"]:
            return "block %d column types %s != %s" % (bi + 1, g["types"], e["types"])
        if len(g["rows"]) != len(e["rows"]):
            return "block %d row count %d != %d" % (bi + 1, len(g["rows"]), len(e["rows"]))
        for ri, (gr, er) in enumerate(zip(g["rows"], e["rows"])):
            for ki, (gc, ec) in enumerate(zip(gr, er)):
                same = gc == ec
                if not same and numeric_equal is not None and "num" in gc and "num" in ec:
                    same = numeric_equal(gc["num"], ec["num"])
                if not same:
                    return "block %d row %d column %d (%s): %s != %s" % (
                        bi + 1, ri + 1, ki + 1, b2s(e["labels"][ki]), cell_str(gc), cell_str(ec))
    return "no difference found by the diagnostic"


def round6_equal(a, b):
    q = D("0.000001")

    def r(c):
        fr = fraction_of_canon(c)
        return (_CTX.divide(D(fr.numerator), D(fr.denominator))).quantize(q, rounding=decimal.ROUND_HALF_EVEN, context=_CTX)
    return r(a) == r(b)

"""Mixed histories on a small pool of live maps and files (file IO / conversions, windowing, mask algebra,
thresholding, observers, the caller editing its own array), recorded with the full abstract state after every public
call and validated by spec/MapSysTrace.tla.  `scope` selects whose clauses are enforced: "io" (C11), "geom" (C14),
"mask" (C13); "all" judges every relation (calibration of the composition itself).  See the module comment of
MapSysTrace.tla.

    mapsys.run(ctx, "io", n)        # n histories of 3..10 calls, one TLC run per 500 histories
"""
import json
import os
import random
import shutil

import numpy as np

from . import argguard, core, geo, parsers

MEANCODE = 777777
FACECODE = 888888
SLOTS = ["A", "B", "M", "N"]
TYPES = ["f64", "f32", "i16", "i8"]
NP = {"f64": np.float64, "f32": np.float32, "i16": np.int16, "i8": np.int8, "i64": np.int64, "u8": np.uint8}
TYNAME = {"float64": "f64", "float32": "f32", "int16": "i16", "int8": "i8", "int64": "i64", "uint8": "u8"}
MODE_OF = {"float32": "f32", "int16": "i16", "int8": "i8"}
STEMS = ["volume", "frame", "tomogram", "mic", "a.b", "rec", "em", "tilt_1", "ctf_corr", "x.em.bak", "2024", "007"]
EXTS = ["mrc", "rec", "em"]
SPELL = {
    "f64": [np.float64, np.dtype("float64"), "float64", "f8", "d", np.double, float],
    "f32": [np.float32, np.dtype("float32"), "float32", "f4", "f", np.single],
    "i16": [np.int16, np.dtype("int16"), "int16", "i2", "h", np.short],
    "i8": [np.int8, np.dtype("int8"), "int8", "i1", "b", np.byte],
}
SCOPE_OF = {"write": "io", "read": "io", "em2mrc": "io", "mrc2em": "io", "invert": "io",
            "crop": "geom", "extract": "geom", "pad": "geom", "flip": "geom", "rotate": "geom",
            "union": "mask", "intersection": "mask", "subtraction": "mask", "difference": "mask",
            "binarize": "aux", "observe": "aux", "poke": "aux"}


def stored(arr, af):
    """the same map in another storage form (C / Fortran / non-contiguous view / read-only); 'live' = the object itself"""
    if af == "live":
        return arr
    if af == "f":
        return np.asfortranarray(arr)
    if af == "view":
        big = np.zeros(tuple(2 * n + 1 for n in arr.shape), dtype=arr.dtype)
        big[1::2, 1::2, 1::2] = arr
        return big[1::2, 1::2, 1::2]
    out = np.ascontiguousarray(arr).copy()
    if af == "ro":
        out.setflags(write=False)
    return out


# ---- projection alpha ----------------------------------------------------------------------------------------------
SENTINEL_MAP = {"dims": [0, 0, 0], "ty": "sentinel", "vox": []}
SENTINEL_FILE = {"fmt": "sentinel", "dims": [0, 0, 0], "mode": "sentinel", "data": []}


def project_map(arr, by, mean=None, faces=False, gen=0):
    out = _project_map(arr, by, mean, faces)
    out["gen"] = gen
    return out


def _project_map(arr, by, mean=None, faces=False):
    if not isinstance(arr, np.ndarray) or arr.ndim != 3 or arr.size == 0 or arr.size > 4096:
        return dict(SENTINEL_MAP, by=by)
    ty = TYNAME.get(arr.dtype.name)
    if ty is None:
        return dict(SENTINEL_MAP, by=by)
    vals = arr.astype(np.float64)
    out = np.zeros(arr.shape, dtype=np.int64)
    for idx in np.ndindex(*arr.shape):
        v = float(vals[idx])
        if np.isfinite(v) and v.is_integer() and abs(v) <= 10 ** 6:
            out[idx] = int(v)
        elif mean is not None and np.isfinite(v) and abs(v - mean) <= 1e-6 * max(1.0, abs(mean)):
            out[idx] = MEANCODE
        elif faces and np.isfinite(v) and abs(v - round(v)) <= 1e-6 and abs(v) <= 10 ** 6:
            out[idx] = int(round(v))                 # an interpolated voxel: snapped when within 1e-6 of an integer
        elif faces:
            out[idx] = FACECODE
        else:
            return dict(SENTINEL_MAP, by=by)
    return {"dims": [int(n) for n in arr.shape], "ty": ty, "vox": out.tolist(), "by": by}


def project_file(path):
    try:
        d = parsers.read_map(path)
    except (parsers.FormatError, OSError, Exception):      # noqa: B014 - anything unreadable is a sentinel
        return dict(SENTINEL_FILE)
    mode = MODE_OF.get(d["dtype"])
    if mode is None or (d["fmt"] == "mrc" and (d["mapc"], d["mapr"], d["maps"]) != (1, 2, 3)):
        return dict(SENTINEL_FILE)
    data = []
    for v in d["data"]:
        fv = float(v)
        if not (np.isfinite(fv) and fv.is_integer() and abs(fv) <= 10 ** 6):
            return dict(SENTINEL_FILE)
        data.append(int(fv))
    return {"fmt": d["fmt"], "dims": [d["nx"], d["ny"], d["nz"]], "mode": mode, "data": data}


class World:
    """the live objects: named arrays and a scratch directory"""

    def __init__(self, root):
        self.root = root
        self.live = {}
        self.by = {}
        self.gen = {}

    def path(self, name):
        return os.path.join(self.root, name)

    def put(self, slot, arr, by, step):
        self.live[slot] = arr
        self.by[slot] = by
        self.gen[slot] = step

    def state(self, mean_for=None, mean=None, faces_for=None):
        slots = {s: project_map(self.live[s], self.by[s], mean if s == mean_for else None, s == faces_for, self.gen[s])
                 for s in SLOTS}
        files = {f: project_file(self.path(f)) for f in sorted(os.listdir(self.root))}
        return {"slots": slots, "files": files}


# ---- generation of the next call from the current abstract state ---------------------------------------------------------
def is_mask(vox_flat):
    return all(v in (0, 1) for v in vox_flat)


def flat(vox):
    return [v for plane in vox for row in plane for v in row]


def gen_init(rng):
    def dims():
        d = [rng.choice([1, 2, 2, 3, 3, 4, 5]) for _ in range(3)]
        if d[0] == d[1] == d[2]:
            d[rng.randrange(3)] = d[0] % 5 + 1
        return d
    da, db, dm = dims(), dims(), dims()
    if rng.random() < 0.6:
        da = [rng.choice([3, 3, 4, 5]) for _ in range(3)]        # a map with interior voxels (right-angle rotations)
        if da[0] == da[1] == da[2]:
            da[rng.randrange(3)] = da[0] % 3 + 3
    init = {}
    for s, d, mask in (("A", da, False), ("B", db, False), ("M", dm, True), ("N", dm, True)):
        n = d[0] * d[1] * d[2]
        vals = [rng.randint(0, 1) for _ in range(n)] if mask else [rng.randint(-9, 9) for _ in range(n)]
        init[s] = {"dims": d, "ty": rng.choice(TYPES + (["u8", "u8"] if mask else [])), "vals": vals}
    return init


def choose(rng, st, stems, last=None, before=None):
    """the next call (a dict) given the logged state; every choice keeps the call inside the claimed domain"""
    slots, files = st["slots"], st["files"]
    exact = {s: m for s, m in slots.items() if m["ty"] != "sentinel"}
    if len(exact) < len(slots) or any(f["fmt"] == "sentinel" for f in files.values()):
        return None
    if last is not None and last["name"] == "poke" and before is not None and SCOPE_OF[before["name"]] in ("geom", "mask") \
            and before.get("slot") != before.get("src") and rng.random() < 0.5 \
            and all(o["name"] != before["slot"] for o in before.get("operands", [])):
        return dict(before)              # the same call again, on the same objects, after the caller's edit
    if last is not None and last["name"] in SCOPE_OF and SCOPE_OF[last["name"]] in ("geom", "mask") and rng.random() < 0.3:
        # the caller edits the array it handed to the previous call, or the array that call returned
        s = rng.choice([x for x in (last.get("src"), last.get("slot")) if x] +
                       [o["name"] for o in last.get("operands", []) if o["kind"] == "slot"])
        return poke_of(rng, st["slots"], s)
    if last is not None and last["name"] == "read" and last["file"] in files and rng.random() < 0.35:
        # "rewrite source": the file the previous read came from is overwritten with the voxels of another map of the
        # same size and on-disk type (the array read earlier must not follow its file)
        nv = len(files[last["file"]]["data"])
        cands = [x for x in SLOTS if x != last["slot"] and len(flat(slots[x]["vox"])) == nv]
        if cands:
            ext = last["file"].rsplit(".", 1)[-1]
            return {"name": "write", "slot": rng.choice(cands), "file": last["file"], "ext": ext, "tr": rng.random() < 0.5,
                    "dt": files[last["file"]]["mode"], "spi": rng.randrange(7), "af": "live", "ow": True}
    for _ in range(40):
        kind = rng.choice(["rotate", "write", "write", "read", "read", "em2mrc", "mrc2em", "invert", "crop", "extract", "pad", "flip",
                           "union", "intersection", "subtraction", "difference", "binarize", "observe", "poke"])
        dest = rng.choice(SLOTS)
        if kind == "write":
            s = rng.choice(SLOTS)
            dt = rng.choice(["none", "none"] + TYPES)
            if slots[s]["ty"] in ("i64", "u8") and dt == "none":
                continue
            stem, ext = rng.choice(stems), rng.choice(EXTS)
            name = stem + "." + ext
            ow = rng.random() < (0.5 if name in files else 0.8)
            return {"name": "write", "slot": s, "file": name, "ext": ext, "tr": rng.random() < 0.7, "dt": dt,
                    "spi": rng.randrange(7), "af": rng.choice(["live", "live", "f", "view", "ro"]), "ow": ow}
        if kind == "read" and files:
            f = rng.choice(sorted(files))
            return {"name": "read", "slot": dest, "file": f, "tr": rng.random() < 0.7, "dt": rng.choice(["none", "none"] + TYPES),
                    "spi": rng.randrange(7)}
        if kind in ("em2mrc", "mrc2em"):
            frm, to = ("em", "mrc") if kind == "em2mrc" else ("mrc", "em")
            cands = [f for f in sorted(files) if f.endswith("." + frm)]
            if not cands:
                continue
            f = rng.choice(cands)
            base = f[:-(len(frm) + 1)]
            ob = "default" if rng.random() < 0.6 else rng.choice(stems)
            target = (base if ob == "default" else ob) + "." + to
            ow = rng.random() < (0.5 if target in files else 0.8)
            return {"name": kind, "file": f, "base": base, "to": to, "inv": rng.random() < 0.5, "ow": ow, "ob": ob}
        if kind == "invert" and files:
            f = rng.choice(sorted(files))
            out, ext = "none", "mrc"
            if rng.random() < 0.5:
                ext = rng.choice(EXTS)
                out = rng.choice(stems) + "." + ext
            return {"name": "invert", "slot": dest, "file": f, "out": out, "ext": ext}
        if kind in ("crop", "extract", "pad", "flip", "rotate"):
            src = rng.choice(SLOTS)
            d = slots[src]["dims"]
            if kind == "rotate":
                if min(d) < 3:
                    continue
                return {"name": "rotate", "src": src, "slot": dest, "r": rng.choice(geo.all_codes()), "form": rng.randrange(3)}
            if kind == "crop":
                if min(d) < 2:
                    continue
                shape = [rng.choice([n for n in range(2, d[a] + 1, 2)]) for a in range(3)]
                given = rng.random() < 0.5
                centre = [rng.randint(shape[a] // 2, d[a] - shape[a] // 2) for a in range(3)] if given else [d[a] // 2 for a in range(3)]
                return {"name": "crop", "src": src, "slot": dest, "shape": shape, "centre": centre, "given": given,
                        "form": rng.randrange(3)}
            if kind == "extract":
                shape = [rng.choice([2, 2, 4]) for _ in range(3)]
                centre = [rng.randint(-1, d[a] + 1) for a in range(3)]
                if rng.random() < 0.5:               # windows fully inside the volume where the volume is large enough
                    shape = [2 if d[a] < 4 else shape[a] for a in range(3)]
                    centre = [rng.randint(shape[a] // 2, d[a] - shape[a] // 2) if d[a] >= shape[a] else centre[a] for a in range(3)]
                return {"name": "extract", "src": src, "slot": dest, "shape": shape, "centre": centre,
                        "enforce": rng.random() < 0.35, "form": rng.randrange(3)}
            if kind == "pad":
                shape = [d[a] + rng.choice([0, 2, 2, 4]) for a in range(3)]
                if max(shape) > 8:
                    continue
                return {"name": "pad", "src": src, "slot": dest, "shape": shape,
                        "fillk": "mean" if rng.random() < 0.5 else "value", "fill": rng.randint(-3, 3)}
            axes = rng.choice(["x", "y", "z", "xy", "zy", "xz", "zyx", "Z", "yX"])
            return {"name": "flip", "src": src, "slot": dest, "axes": sorted(set(axes.lower())), "spelt": axes}
        if kind in ("union", "intersection", "subtraction", "difference"):
            cands = [("slot", s, tuple(m["dims"])) for s, m in slots.items() if is_mask(flat(m["vox"]))]
            cands += [("file", f, tuple(doc["dims"])) for f, doc in files.items() if is_mask(doc["data"])]
            groups = {}
            for c in cands:
                groups.setdefault(c[2], []).append(c)
            groups = [g for g in groups.values() if len(g) >= 2]
            if not groups:
                continue
            g = rng.choice(sorted(groups))
            k = 2 if kind == "difference" else rng.choice([2, 2, 3])
            ops = [rng.choice(g) for _ in range(k)]
            if ops[0][:2] == ops[1][:2] and len(g) > 1:
                ops[1] = rng.choice([c for c in g if c[:2] != ops[0][:2]])
            out, ext = "none", "mrc"
            if rng.random() < 0.4:
                ext = rng.choice(EXTS)
                out = rng.choice(stems) + "." + ext
            return {"name": kind, "slot": dest, "operands": [{"kind": o[0], "name": o[1]} for o in ops], "out": out, "ext": ext,
                    "af": rng.choice(["live", "live", "f", "view", "ro"])}
        if kind == "binarize":
            src = rng.choice(SLOTS)
            return {"name": "binarize", "src": src, "slot": dest, "thr": rng.randint(-2, 3)}
        if kind == "observe":
            return {"name": "observe", "which": rng.randrange(4), "slot": rng.choice(SLOTS)}
        if kind == "poke":
            return poke_of(rng, slots, rng.choice(SLOTS))
    return None


def poke_of(rng, slots, s):
    d = slots[s]["dims"]
    cell = [rng.randrange(d[a]) for a in range(3)]
    old = slots[s]["vox"][cell[0]][cell[1]][cell[2]]
    return {"name": "poke", "slot": s, "cell": cell,
            "value": 1 - old if is_mask(flat(slots[s]["vox"])) else old + rng.choice([1, -1, 5])}


def size_arg(v, form):
    return [list(v), tuple(v), np.array(v)][form % 3]


def do_call(w, op, variant, step=0):
    """Performs the ONE public call the op names on the live objects.  Returns the event fields that describe what was
    asked and observed (not the state)."""
    from cryocat import cryomap, cryomask
    name = op["name"]
    ev = {k: v for k, v in op.items() if k not in ("spi", "form", "spelt", "which", "value", "cell", "given", "af")}
    kept = True
    if name == "write":
        handed = stored(w.live[op["slot"]], op["af"])
        g = argguard.Guard(array=handed)
        kw = {}
        if not op["tr"] or variant % 2:
            kw["transpose"] = op["tr"]
        if op["dt"] != "none":
            kw["data_type"] = SPELL[op["dt"]][op["spi"] % len(SPELL[op["dt"]])]
        if not op["ow"] or variant % 3 == 0:
            kw["overwrite"] = op["ow"]
        _, err = core.call_guarded(cryomap.write, handed, w.path(op["file"]), **kw)
        ev["refused"] = err is not None
        ev["err"] = err or ""
        kept = g.changed() is None
    elif name == "read":
        kw = {}
        if not op["tr"] or variant % 2:
            kw["transpose"] = op["tr"]
        if op["dt"] != "none":
            kw["data_type"] = SPELL[op["dt"]][op["spi"] % len(SPELL[op["dt"]])]
        w.put(op["slot"], cryomap.read(w.path(op["file"]), **kw), "io", step)
    elif name in ("em2mrc", "mrc2em"):
        kw = {}
        if op["inv"] or variant % 2:
            kw["invert"] = op["inv"]
        if not op["ow"] or variant % 3 == 0:
            kw["overwrite"] = op["ow"]
        if op["ob"] != "default":
            kw["output_name"] = w.path(op["ob"] + "." + op["to"])
        _, err = core.call_guarded(getattr(cryomap, name), w.path(op["file"]), **kw)
        ev["refused"] = err is not None
        ev["err"] = err or ""
    elif name == "invert":
        if op["out"] == "none":
            res = cryomap.invert_contrast(w.path(op["file"]))
        else:
            res = cryomap.invert_contrast(w.path(op["file"]), output_name=w.path(op["out"]))
        w.put(op["slot"], res, "io", step)
    elif name in ("crop", "extract", "pad", "flip", "rotate"):
        src = w.live[op["src"]]
        g = argguard.Guard(array=src)
        if name == "crop":
            kw = {"crop_coord": size_arg(op["centre"], op["form"] + 1)} if op["given"] else {}
            res = cryomap.crop(src, size_arg(op["shape"], op["form"]), **kw)
        elif name == "extract":
            res = cryomap.extract_subvolume(src, size_arg(op["centre"], op["form"]), size_arg(op["shape"], op["form"] + 1),
                                            enforce_shape=op["enforce"])
        elif name == "pad":
            if op["fillk"] == "mean":
                res = cryomap.pad(src, tuple(op["shape"])) if variant % 2 else cryomap.pad(src, tuple(op["shape"]), fill_value=None)
            else:
                res = cryomap.pad(src, tuple(op["shape"]), fill_value=float(op["fill"]))
        elif name == "rotate":
            from scipy.spatial.transform import Rotation
            ang = np.array(geo.euler_for_code(op["r"], random.Random(variant)), dtype=float)
            g2 = argguard.Guard(angles=ang)
            if op["form"] % 3 == 0:
                res = cryomap.rotate(src, rotation_angles=ang)
            elif op["form"] % 3 == 1:
                res = cryomap.rotate(src, rotation=Rotation.from_matrix(geo.code_to_matrix(op["r"])), transpose_rotation=True)
            else:
                res = cryomap.rotate(src, rotation_angles=ang, coord_space="zxz", degrees=True, spline_order=3)
            kept = g2.changed() is None
        else:
            res = cryomap.flip(src, axis=op["spelt"])
        kept = kept and g.changed() is None
        w.put(op["slot"], res, "geom", step)
    elif name in ("union", "intersection", "subtraction", "difference"):
        items = []
        for o in op["operands"]:
            items.append(stored(w.live[o["name"]], op["af"]) if o["kind"] == "slot" else w.path(o["name"]))
        g = argguard.Guard(mask_list=items)
        fn = getattr(cryomask, name)
        res = fn(items) if op["out"] == "none" else fn(items, output_name=w.path(op["out"]))
        kept = g.changed() is None
        w.put(op["slot"], res, "mask", step)
    elif name == "binarize":
        w.put(op["slot"], cryomap.binarize(w.live[op["src"]], threshold=op["thr"] + 0.5), "aux", step)
    elif name == "observe":
        files = sorted(os.listdir(w.root))
        k = op["which"]
        if k == 0 and files:
            cryomap.read(w.path(files[variant % len(files)]), transpose=False, data_type=np.float64)
        elif k == 1:
            cryomap.binarize(w.live[op["slot"]], 0.5)
        elif k == 2:
            cryomask.union([np.clip(w.live["M"], 0, 1)])
        else:
            cryomap.flip(w.live[op["slot"]], "xyz")
    elif name == "poke":
        arr = w.live[op["slot"]]
        if arr.flags.writeable:
            arr[tuple(op["cell"])] = op["value"]
        ev["cell"] = op["cell"]
    else:
        raise core.MachineryError("unknown op %r" % (op,))
    ev["args_kept"] = bool(kept)
    return ev


def execute(ctx, case, scope):
    """Runs one history; returns the trace {init, ev}."""
    rng = random.Random(case["seed"])
    root = os.path.join(ctx.sub("mapsys"), "h_%d_%d" % (os.getpid(), case["id"]))
    shutil.rmtree(root, ignore_errors=True)
    os.makedirs(root)
    w = World(root)
    init = gen_init(rng)
    for s, m in init.items():
        w.put(s, np.array(m["vals"], dtype=np.float64).reshape(tuple(m["dims"])).astype(NP[m["ty"]]), "init", 0)
    stems = rng.sample(STEMS, 3)
    # one file exists from the start (written by the independent writer)
    d0 = init["B"]["dims"]
    first = stems[0] + "." + rng.choice(["em", "mrc"])
    vals0 = [int(v) for v in np.asarray(w.live["B"], dtype=np.float64).transpose(2, 1, 0).ravel()]
    if first.endswith(".em"):
        parsers.write_em(w.path(first), tuple(d0), "int16", vals0)
    else:
        parsers.write_mrc(w.path(first), tuple(d0), "int16", vals0)
    st = w.state()
    trace = {"init": st, "ev": []}
    nsteps = rng.randint(3, 10)
    last = before = None
    for i in range(nsteps):
        op = choose(rng, st, stems, last, before)
        if last is not None and last["name"] != "poke":
            before = last
        last = op
        if op is None:
            break
        own = SCOPE_OF[op["name"]] == scope or scope == "all"
        res, err = core.call_guarded(do_call, w, op, case["seed"] + i, i + 1)
        if err is not None:
            if own:
                ctx.fail("call_raises", "step %d %s: %s" % (i + 1, {k: v for k, v in op.items() if k != "operands"}, err),
                         dict(case, scope=scope), {"op": op["name"], "layer": "mixed"})
            break                                    # a call of another property that raises only ends the history
        ev = res
        mean = None
        if op["name"] in ("extract", "pad"):
            src = st["slots"][op["src"]]
            fl = flat(src["vox"])
            mean = sum(fl) / float(len(fl))
        st = w.state(mean_for=op.get("slot"), mean=mean, faces_for=op.get("slot") if op["name"] == "rotate" else None)
        ev["post"] = st
        trace["ev"].append(ev)
        # named, unjudged re-synchronisation: voxels that hold a non-integral volume mean are set to 0
        slot = op.get("slot")
        if mean is not None and slot and MEANCODE in flat(st["slots"][slot]["vox"] or [[[]]]):
            arr = np.array(w.live[slot], dtype=np.float64, copy=True)
            vox = np.array(st["slots"][slot]["vox"])
            arr[vox == MEANCODE] = 0.0
            w.live[slot] = arr
            st = w.state()
            trace["ev"].append({"name": "resync_mean", "slot": slot, "args_kept": True, "post": st})
        if op["name"] == "rotate" and st["slots"][slot]["ty"] != "sentinel":
            # named, unjudged re-synchronisation: interpolated voxels are snapped to the integers they are within 1e-6 of,
            # the voxels interpolation does not decide (faces) are set to 0
            vox = np.array(st["slots"][slot]["vox"], dtype=np.float64)
            vox[vox == FACECODE] = 0.0
            w.live[slot] = vox
            st = w.state()
            trace["ev"].append({"name": "resync_faces", "slot": slot, "args_kept": True, "post": st})
    ctx.ran(case)
    shutil.rmtree(root, ignore_errors=True)
    return trace


def run_mixed(ctx, scope, cases):
    traces = [execute(ctx, c, scope) for c in cases]
    wd = ctx.sub("mapsys_" + scope)
    path = os.path.join(wd, "traces.ndjson")
    with open(path, "w") as fh:
        for t in traces:
            fh.write(json.dumps(t) + "\n")
    cfg = 'SPECIFICATION TraceSpec\nCONSTANTS\n Scope = "%s"\nCONSTRAINT Report\n' % scope
    res = ctx.tlc("MapSysTrace", cfg, name="mapsys_" + scope, env={"TRACE_FILE": path}, workers=1)
    verdicts = {v["tid"]: v for v in res.tagged.get("VERDICT", [])}
    if len(verdicts) != len(traces):
        raise core.MachineryError("MapSysTrace: %d verdicts for %d traces\n%s" % (len(verdicts), len(traces), res.stdout[-2000:]))
    kinds = ctx.extra.setdefault("mixed_%s_step_kinds" % scope, {})
    for t in traces:
        for e in t["ev"]:
            kinds[e["name"]] = kinds.get(e["name"], 0) + 1
            if e.get("refused"):
                kinds["(refused)"] = kinds.get("(refused)", 0) + 1
            if any(m["ty"] == "sentinel" for m in e["post"]["slots"].values()) or \
                    any(f["fmt"] == "sentinel" for f in e["post"]["files"].values()):
                kinds["(sentinel state)"] = kinds.get("(sentinel state)", 0) + 1
    nev = sum(len(t["ev"]) for t in traces)
    judged = sum(1 for t in traces for e in t["ev"] if SCOPE_OF.get(e["name"]) == scope or scope == "all")
    ctx.extra["mixed_%s_steps" % scope] = ctx.extra.get("mixed_%s_steps" % scope, 0) + nev
    ctx.extra["mixed_%s_judged_steps" % scope] = ctx.extra.get("mixed_%s_judged_steps" % scope, 0) + judged
    for i, case in enumerate(cases):
        v = verdicts[i + 1]
        if not v["ok"]:
            ev = traces[i]["ev"][v["step"] - 1]
            ctx.fail(v["clause"], "mixed map history rejected by MapSysTrace at step %d (%s)" % (
                v["step"], {k: ev[k] for k in ev if k != "post"}), dict(case, scope=scope), {"op": ev["name"], "layer": "mixed"})


def gen_case(rng, idx):
    return {"kind": "mapsys", "id": idx, "seed": rng.randint(0, 10 ** 9)}


def run(ctx, scope, n):
    cases = [gen_case(ctx.rng, i + 1) for i in range(n)]
    for a in range(0, len(cases), 500):
        run_mixed(ctx, scope, cases[a:a + 500])


def replay(ctx, case):
    run_mixed(ctx, case.get("scope", "io"), [case])

"""./check dispatcher."""
import argparse
import importlib
import io
import json
import os
import sys
import traceback
import contextlib

from . import core, tlc


def setup():
    os.makedirs(core.WORK, exist_ok=True)
    os.makedirs(core.EVIDENCE, exist_ok=True)
    bad = 0
    for f in sorted(os.listdir(tlc.SPEC_DIR)):
        if f.endswith(".tla"):
            ok, out = tlc.sany(os.path.join(tlc.SPEC_DIR, f))
            if not ok:
                bad += 1
                print("SANY FAILED", f)
                print(out[-2000:])
    import compileall
    compileall.compile_dir(os.path.join(core.VERIF, "mbt"), quiet=1, legacy=False)
    core.import_cryocat()
    print("setup ok" if not bad else "setup: WARNING %d spec(s) do not parse (the checks using them will exit 2)" % bad)
    return 0


def main(argv=None):
    ap = argparse.ArgumentParser()
    ap.add_argument("pid", nargs="?")
    ap.add_argument("--tier", default=os.environ.get("VERIF_TIER", "quick"), choices=["quick", "thorough"])
    ap.add_argument("--seed", type=int, default=None)
    ap.add_argument("--replay", default=None)
    ap.add_argument("--setup", action="store_true")
    ap.add_argument("--keep", action="store_true")
    ap.add_argument("--only", default=None, help="comma list of sub-runs of the driver (development aid)")
    a = ap.parse_args(argv)
    if a.setup:
        return setup()
    if not a.pid:
        ap.error("property id required")
    seed = a.seed if a.seed is not None else int(os.environ.get("VERIF_SEED", "0") or 0)
    pid_ = a.pid.upper()
    ctx = core.Ctx(pid_, a.tier, seed)
    if a.replay:
        a.replay = os.path.abspath(a.replay)
        ctx.replay_mode = True
    ctx.only = set(a.only.split(",")) if a.only else None
    try:
        core.import_cryocat()
        mod = importlib.import_module("mbt.drivers." + pid_.lower())
        os.chdir(ctx.workdir)   # cryomap.bandpass drops band.em into the cwd
        if a.replay:
            with open(a.replay) as fh:
                rep = json.load(fh)
            case = rep.get("case", rep)
            with contextlib.redirect_stdout(io.StringIO()):
                mod.replay(ctx, case)
        else:
            # committed replays of open known findings are re-executed first (deterministic KNOWN-FINDING lines)
            for f in core.load_findings(pid_):
                if f.get("status") == "open" and f.get("replay"):
                    with open(os.path.join(core.VERIF, f["replay"])) as fh:
                        rep = json.load(fh)
                    with contextlib.redirect_stdout(io.StringIO()):
                        mod.replay(ctx, rep.get("case", rep))
            # the library prints progress messages; they are captured, never parsed
            sink = io.StringIO()
            with contextlib.redirect_stdout(sink):
                mod.run(ctx)
        os.chdir(core.VERIF)
        core.assert_cryocat_origin()
        return core.finish(ctx, keep_work=a.keep)
    except (core.MachineryError, tlc.TLCError) as e:
        os.chdir(core.VERIF)
        print("MACHINERY-ERROR %s: %s" % (pid_, e))
        return 2
    except Exception:
        os.chdir(core.VERIF)
        print("MACHINERY-ERROR %s: unexpected exception in the harness" % pid_)
        traceback.print_exc()
        return 2


if __name__ == "__main__":
    sys.exit(main())

"""Storage forms of array arguments (BUILDING.md, generic perturbation dimension 5), shared by the C06 / C14 / C18 drivers.

A property speaks about the VALUES handed to a call; how the caller happens to store them is not part of it.
`store(values, k)` returns the same values in another storage form, `frame(values, k)` a DataFrame with the values in
the named columns but other row labels / extra columns / another column order."""
import numpy as np

FORMS = ["c_float64", "fortran", "noncontiguous", "readonly", "float32", "int64", "list", "tuple"]


def applicable(values, form, containers=False):
    a = np.asarray(values, dtype=float)
    if form == "float32":
        return bool(np.all(a.astype(np.float32).astype(np.float64) == a))
    if form == "int64":
        return bool(np.all(np.isfinite(a)) and np.all(a == np.rint(a)))
    if form in ("list", "tuple"):
        return containers
    return True


def store(values, form):
    """values: array-like of floats -> the same values stored as `form`"""
    a = np.array(values, dtype=np.float64)
    if form == "c_float64":
        return np.ascontiguousarray(a)
    if form == "fortran":
        return np.asfortranarray(a) if a.ndim > 1 else a.copy()
    if form == "noncontiguous":
        big = np.full(tuple(2 * s for s in a.shape), -777.25)
        big[tuple(slice(0, 2 * s, 2) for s in a.shape)] = a
        return big[tuple(slice(0, 2 * s, 2) for s in a.shape)]          # a strided view into a larger buffer
    if form == "readonly":
        a.flags.writeable = False
        return a
    if form == "float32":
        return a.astype(np.float32)
    if form == "int64":
        return np.rint(a).astype(np.int64)
    if form == "list":
        return a.tolist()
    if form == "tuple":
        return tuple(tuple(r) for r in a.tolist()) if a.ndim > 1 else tuple(a.tolist())
    raise ValueError(form)


def pick(rng, values, containers=False, forms=None):
    """a random applicable form name"""
    ok = [f for f in (forms or FORMS) if applicable(values, f, containers)]
    return rng.choice(ok)


def frame(values, columns, k):
    """DataFrame holding `values` (n x len(columns)) in `columns`; k selects row labels (default / permuted / gapped /
    sliced out of a larger table), extra columns and the column order."""
    import pandas as pd
    a = np.asarray(values)
    n = a.shape[0]
    df = pd.DataFrame({c: a[:, i] for i, c in enumerate(columns)})
    mode = k % 4
    if mode == 1 and n > 1:
        df.index = [(i * 7 + k) % n for i in range(n)] if n % 7 else list(range(n - 1, -1, -1))
        if len(set(df.index)) != n:
            df.index = list(range(n - 1, -1, -1))
    elif mode == 2:
        df.index = [100 + 3 * i for i in range(n)][::-1]
    elif mode == 3:
        # rows sliced out of a larger table (labels keep their old values)
        pad = pd.DataFrame({c: np.full(n + 2, 9.5) for c in columns})
        big = pd.concat([pad.iloc[:1], df, pad.iloc[1:]], ignore_index=True)
        df = big.iloc[1:1 + n]
    extra = (k // 4) % 3
    if extra >= 1:
        df = df.assign(score=np.linspace(0.0, 1.0, n), label=["p%d" % i for i in range(n)])
    if extra == 2:
        cols = list(df.columns)
        df = df[cols[::-1]]
    return df

"""Interpretation (abstract -> concrete) and projection (concrete -> abstract) for orientations and
lattice positions.  Nothing here uses scipy: rotation matrices are built from first principles so that the
projection does not share code with the implementation under test."""
import itertools
import math

import numpy as np

U = 8.0  # lattice units per voxel


def rz(deg):
    a = math.radians(deg)
    c, s = math.cos(a), math.sin(a)
    return np.array([[c, -s, 0.0], [s, c, 0.0], [0.0, 0.0, 1.0]])


def rx(deg):
    a = math.radians(deg)
    c, s = math.cos(a), math.sin(a)
    return np.array([[1.0, 0.0, 0.0], [0.0, c, -s], [0.0, s, c]])


def ry(deg):
    a = math.radians(deg)
    c, s = math.cos(a), math.sin(a)
    return np.array([[c, 0.0, s], [0.0, 1.0, 0.0], [-s, 0.0, c]])


def zxz_matrix(phi, theta, psi):
    """cryoCAT / scipy extrinsic "zxz" with angles (phi, theta, psi): first Rz(phi), then Rx(theta), then Rz(psi)."""
    return rz(psi) @ rx(theta) @ rz(phi)


def zyz_intrinsic_matrix(rot, tilt, psi):
    """RELION angles, scipy intrinsic "ZYZ": Rz(rot) . Ry(tilt) . Rz(psi)."""
    return rz(rot) @ ry(tilt) @ rz(psi)


def code_to_matrix(code):
    p, s = code[:3], code[3:]
    m = np.zeros((3, 3))
    for j in range(3):
        m[p[j] - 1, j] = s[j]
    return m


def matrix_to_code(m, tol=1e-9):
    """Snap a matrix to a signed permutation; returns None when it is further than tol from one."""
    m = np.asarray(m, dtype=float)
    p, s = [], []
    for j in range(3):
        col = m[:, j]
        i = int(np.argmax(np.abs(col)))
        p.append(i + 1)
        s.append(1 if col[i] > 0 else -1)
    snapped = code_to_matrix(p + s)
    if np.max(np.abs(snapped - m)) > tol:
        return None
    return p + s


_QT = {}


def quarter_triples(code):
    """All quarter-turn triples (a, b, c) in 0..3 with zxz_matrix(90a, 90b, 90c) equal to the cube element."""
    if not _QT:
        for a, b, c in itertools.product(range(4), repeat=3):
            m = zxz_matrix(90 * a, 90 * b, 90 * c)
            _QT.setdefault(tuple(matrix_to_code(m, 1e-6)), []).append((a, b, c))
    return _QT[tuple(code)]


def euler_for_code(code, rng=None):
    """One zxz Euler triple in degrees for a cube element; with rng the representative is random and may be
    shifted by multiples of 360 (angles outside the canonical ranges)."""
    triples = quarter_triples(code)
    if rng is None:
        a, b, c = triples[0]
        return [90.0 * a, 90.0 * b, 90.0 * c]
    a, b, c = triples[rng.randrange(len(triples))]
    out = [90.0 * a, 90.0 * b, 90.0 * c]
    for i in range(3):
        r = rng.random()
        if r < 0.2:
            out[i] -= 360.0
        elif r < 0.3:
            out[i] += 360.0
    return out


def all_codes():
    quarter_triples([1, 2, 3, 1, 1, 1])
    return [list(k) for k in sorted(_QT)]


def random_rotation_matrix(rng):
    """Uniform random rotation from a unit quaternion (no scipy)."""
    while True:
        q = [rng.gauss(0, 1) for _ in range(4)]
        n = math.sqrt(sum(v * v for v in q))
        if n > 1e-6:
            break
    w, x, y, z = [v / n for v in q]
    return np.array([
        [1 - 2 * (y * y + z * z), 2 * (x * y - z * w), 2 * (x * z + y * w)],
        [2 * (x * y + z * w), 1 - 2 * (x * x + z * z), 2 * (y * z - x * w)],
        [2 * (x * z - y * w), 2 * (y * z + x * w), 1 - 2 * (x * x + y * y)],
    ])


def zxz_from_matrix(m):
    """Some (phi, theta, psi) in degrees with zxz_matrix(phi, theta, psi) == m (own derivation).
    m = Rz(psi) Rx(theta) Rz(phi):  m[2,2] = cos(theta), m[2,0] = sin(theta) sin(phi), m[2,1] = sin(theta) cos(phi),
    m[0,2] = sin(psi) sin(theta), m[1,2] = -cos(psi) sin(theta)."""
    ct = max(-1.0, min(1.0, m[2, 2]))
    st = math.sqrt(max(0.0, 1 - ct * ct))
    theta = math.degrees(math.atan2(st, ct))
    if st > 1e-8:
        phi = math.degrees(math.atan2(m[2, 0], m[2, 1]))
        psi = math.degrees(math.atan2(m[0, 2], -m[1, 2]))
    else:
        # gimbal lock: only phi +- psi is determined; put everything into phi
        psi = 0.0
        if ct > 0:
            phi = math.degrees(math.atan2(m[1, 0], m[0, 0]))
        else:
            phi = math.degrees(math.atan2(-m[1, 0], m[0, 0]))
    return phi, theta, psi


def rot_angle_deg(m):
    """Rotation angle of a rotation matrix, numerically stable near 0 and 180."""
    sk = np.array([m[2, 1] - m[1, 2], m[0, 2] - m[2, 0], m[1, 0] - m[0, 1]])
    return math.degrees(math.atan2(float(np.linalg.norm(sk)), float(np.trace(m) - 1.0)))


def to_lattice(values, tol=1e-9):
    """Project float voxel values onto the 1/8 lattice; returns (ints, max residual)."""
    arr = np.asarray(values, dtype=float) * U
    r = np.rint(arr)
    res = float(np.max(np.abs(arr - r))) if arr.size else 0.0
    return r.astype(int).tolist(), res

"""Independent binary readers / writers of EM (512-byte header) and MRC (1024-byte header) files.

Written with `struct` only - no mrcfile, no emfile, no numpy.fromfile - so that a convention error applied
symmetrically by the library's reader and writer does not cancel.  The payload is returned as a flat tuple in
*file order* (the first header dimension varies fastest); callers index it with `offset(i, j, k)`.

EM (TOM toolbox, tom_emread.m):  byte 0 machine (6 = PC, little endian; 3 = SGI / 5 = Mac big endian), byte 1
general purpose, byte 2 unused, byte 3 data type (1 int8, 2 int16, 4 int32, 5 float32, 8 complex64, 9 float64),
then nx, ny, nz as int32, 80 bytes comment, 40 int32 parameters, 256 bytes user data; payload nx fastest.

MRC2014: words 1-3 nx, ny, nz (int32), word 4 mode (0 int8, 1 int16, 2 float32, 6 uint16, 12 float16), words 17-19
mapc, mapr, maps (axis stored as column / row / section), word 24 nsymbt (extended header bytes), bytes 208-211 "MAP ",
bytes 212-213 machine stamp (0x44 0x44 / 0x44 0x41 little endian, 0x11 0x11 big endian); payload after 1024 + nsymbt.
"""
import os
import struct

EM_HEADER = 512
MRC_HEADER = 1024

EM_TYPES = {1: ("b", 1, "int8"), 2: ("h", 2, "int16"), 4: ("i", 4, "int32"), 5: ("f", 4, "float32"),
            9: ("d", 8, "float64")}
EM_CODES = {"int8": 1, "int16": 2, "int32": 4, "float32": 5, "float64": 9}
MRC_MODES = {0: ("b", 1, "int8"), 1: ("h", 2, "int16"), 2: ("f", 4, "float32"), 6: ("H", 2, "uint16"),
             12: ("e", 2, "float16")}
MRC_CODES = {"int8": 0, "int16": 1, "float32": 2, "uint16": 6, "float16": 12}


class FormatError(Exception):
    """The bytes are not a valid file of the format (this is an observation about the file, not a harness bug)."""


def f32(x):
    """Single-precision rounding of a Python float, by struct (round to nearest even in C)."""
    return struct.unpack("<f", struct.pack("<f", x))[0]


def offset(i, j, k, nx, ny):
    """0-based linear payload offset of voxel (i, j, k) when x varies fastest."""
    return i + nx * (j + ny * k)


def read_em(path):
    """-> dict(fmt='em', machine, code, dtype, nx, ny, nz, data (flat tuple, file order), size, endian)."""
    with open(path, "rb") as fh:
        raw = fh.read()
    if len(raw) < EM_HEADER:
        raise FormatError("EM file shorter than its 512-byte header (%d bytes)" % len(raw))
    machine, version, unused, code = struct.unpack("4b", raw[:4])
    if machine == 6:
        endian = "<"
    elif machine in (3, 4, 5):
        endian = ">"
    else:
        raise FormatError("EM machine code %d not recognised" % machine)
    nx, ny, nz = struct.unpack(endian + "3i", raw[4:16])
    if code not in EM_TYPES:
        raise FormatError("EM data type code %d not supported" % code)
    ch, size, name = EM_TYPES[code]
    if min(nx, ny, nz) < 1:
        raise FormatError("EM dimensions %s not positive" % ((nx, ny, nz),))
    n = nx * ny * nz
    if len(raw) != EM_HEADER + n * size:
        raise FormatError("EM file has %d bytes, header (%d,%d,%d) of %s needs %d" % (
            len(raw), nx, ny, nz, name, EM_HEADER + n * size))
    data = struct.unpack("%s%d%s" % (endian, n, ch), raw[EM_HEADER:])
    return {"fmt": "em", "machine": machine, "code": code, "dtype": name, "nx": nx, "ny": ny, "nz": nz,
            "data": data, "size": len(raw), "endian": endian}


def write_em(path, dims, dtype, values):
    """Write an EM file from scratch: dims = (nx, ny, nz), values flat in file order (x fastest)."""
    nx, ny, nz = dims
    ch = EM_TYPES[EM_CODES[dtype]][0]
    if len(values) != nx * ny * nz:
        raise ValueError("payload length does not match the dimensions")
    head = struct.pack("<4b3i", 6, 0, 0, EM_CODES[dtype], nx, ny, nz)
    head += b" " * 80 + struct.pack("<40i", *([0] * 40)) + b"\x00" * 256
    assert len(head) == EM_HEADER
    with open(path, "wb") as fh:
        fh.write(head + struct.pack("<%d%s" % (len(values), ch), *values))


def read_mrc(path):
    """-> dict(fmt='mrc', mode, dtype, nx, ny, nz, mapc, mapr, maps, nsymbt, data (flat tuple, file order), size)."""
    with open(path, "rb") as fh:
        raw = fh.read()
    if len(raw) < MRC_HEADER:
        raise FormatError("MRC file shorter than its 1024-byte header (%d bytes)" % len(raw))
    stamp = raw[212:214]
    if stamp[0] == 0x44:
        endian = "<"
    elif stamp[0] == 0x11:
        endian = ">"
    else:
        raise FormatError("MRC machine stamp %r not recognised" % (stamp,))
    if raw[208:212] != b"MAP ":
        raise FormatError("MRC file lacks the 'MAP ' identifier at byte 208")
    nx, ny, nz, mode = struct.unpack(endian + "4i", raw[0:16])
    mx, my, mz = struct.unpack(endian + "3i", raw[28:40])
    mapc, mapr, maps = struct.unpack(endian + "3i", raw[64:76])
    nsymbt = struct.unpack(endian + "i", raw[92:96])[0]
    if mode not in MRC_MODES:
        raise FormatError("MRC mode %d not supported" % mode)
    ch, size, name = MRC_MODES[mode]
    if min(nx, ny, nz) < 1 or nsymbt < 0:
        raise FormatError("MRC dimensions %s / nsymbt %d invalid" % ((nx, ny, nz), nsymbt))
    n = nx * ny * nz
    if len(raw) != MRC_HEADER + nsymbt + n * size:
        raise FormatError("MRC file has %d bytes, header (%d,%d,%d) mode %d needs %d" % (
            len(raw), nx, ny, nz, mode, MRC_HEADER + nsymbt + n * size))
    data = struct.unpack("%s%d%s" % (endian, n, ch), raw[MRC_HEADER + nsymbt:])
    return {"fmt": "mrc", "mode": mode, "dtype": name, "nx": nx, "ny": ny, "nz": nz, "mx": mx, "my": my, "mz": mz,
            "mapc": mapc, "mapr": mapr, "maps": maps, "nsymbt": nsymbt, "data": data, "size": len(raw),
            "endian": endian}


def write_mrc(path, dims, dtype, values):
    """Write a minimal valid MRC2014 volume from scratch: dims = (nx, ny, nz), values flat, x fastest.
    (ispg is 1 for every nz: with ispg = 0 and nz = 1 the file would be a single 2-D image, which is not a map.)"""
    nx, ny, nz = dims
    mode = MRC_CODES[dtype]
    ch = MRC_MODES[mode][0]
    if len(values) != nx * ny * nz:
        raise ValueError("payload length does not match the dimensions")
    fv = [float(v) for v in values]
    dmin, dmax = min(fv), max(fv)
    dmean = sum(fv) / len(fv)
    head = bytearray(MRC_HEADER)
    struct.pack_into("<4i", head, 0, nx, ny, nz, mode)          # nx ny nz mode
    struct.pack_into("<3i", head, 16, 0, 0, 0)                  # nxstart ..
    struct.pack_into("<3i", head, 28, nx, ny, nz)               # mx my mz
    struct.pack_into("<3f", head, 40, float(nx), float(ny), float(nz))   # cell a b c
    struct.pack_into("<3f", head, 52, 90.0, 90.0, 90.0)         # cell angles
    struct.pack_into("<3i", head, 64, 1, 2, 3)                  # mapc mapr maps
    struct.pack_into("<3f", head, 76, dmin, dmax, dmean)
    struct.pack_into("<2i", head, 88, 1, 0)                     # ispg = 1 (a 3-D volume, also when nz = 1), nsymbt
    head[104:108] = b"\x00\x00\x00\x00"                         # exttyp
    struct.pack_into("<i", head, 108, 20140)                    # nversion
    head[208:212] = b"MAP "
    head[212:216] = b"\x44\x44\x00\x00"
    struct.pack_into("<f", head, 216, 0.0)                      # rms
    struct.pack_into("<i", head, 220, 0)                        # nlabl
    with open(path, "wb") as fh:
        fh.write(bytes(head) + struct.pack("<%d%s" % (len(values), ch), *values))


def read_map(path):
    """Dispatch on the extension the way other cryo-EM software does: .em -> EM, anything else -> MRC."""
    if path.endswith(".em"):
        return read_em(path)
    return read_mrc(path)


def exists(path):
    return os.path.isfile(path)

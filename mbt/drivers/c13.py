"""C13 - masks: analytic lattice shapes and voxel-wise set algebra.

L1  Masks.tla (MC_Masks small scope) is model-checked: every clause C13_* is an invariant of the built state.
L2  TLC emits, for every request it explores (exhaustive small scope chosen by the seed + seeded mid-size requests
    read from a case file), the exact voxel set (C-order linear indices) and - for ellipsoids - the voxels the
    property does not decide; the driver builds the request with cryomask (interpretation: argument forms, dtypes,
    files), and compares the returned array voxel by voxel with what TLC emitted.  Set algebra: TLC emits the input
    sets and the union / intersection / subtraction / difference sets.
L3  masks built in boxes up to 48 per axis are projected loss-free (per-column runs of ones) and MasksTrace.tla
    re-decides every voxel with the integer inequalities; soft masks: range and core (runs of values >= 1 - 1e-3);
    algebra on soft masks: range and input immutability.
The driver has no oracle of its own: expected sets and verdicts come from TLC."""
import hashlib
import json
import os

import numpy as np

from .. import argguard, core, mapsys

CLAUSES = ["TypeOK", "C13_WellFormed", "C13_InsideBox", "C13_MembershipPredicates", "C13_SphereIsDistanceLeqR",
           "C13_CylinderIsDiscTimesSlab", "C13_EllipsoidIsNormalisedSumLeq1", "C13_SphereShellIsOuterMinusInner",
           "C13_EllipsoidShellIsOuterMinusInner", "C13_SolidsCentredAndNested", "C13_NameBuildsSameShape",
           "C13_AlgebraIsVoxelwiseLogic", "C13_InputsUntouched", "C13_AlgebraLaws"]
CHEAP = ["TypeOK", "C13_WellFormed", "C13_InsideBox"]
SHAPE_CLAUSE = {"sphere": "C13_SphereIsDistanceLeqR", "cyl": "C13_CylinderIsDiscTimesSlab",
                "ell": "C13_EllipsoidIsNormalisedSumLeq1", "sshell": "C13_SphereShellIsOuterMinusInner",
                "eshell": "C13_EllipsoidShellIsOuterMinusInner", "name": "C13_NameBuildsSameShape"}
SHAPE_OP = {"sphere": "spherical_mask", "cyl": "cylindrical_mask", "ell": "ellipsoid_mask",
            "sshell": "spherical_shell_mask", "eshell": "ellipsoid_shell_mask", "name": "generate_mask"}
CORE_TOL = 1000          # 1e-3 on the x1e6 scale
CLAMP = 2000000
TLC_WORKERS = 4


def setlit(xs):
    return "{" + ", ".join(str(x) for x in sorted(xs)) + "}"


def cfg_small(consts, cases, emit, invs, props=()):
    lines = ["SPECIFICATION Spec", "CONSTANTS", " Cases <- %s" % cases, ' EmitMode = "%s"' % ("tr" if emit else "none")]
    for k in ("N1", "N2", "N3", "E1", "E2", "E3", "CM", "CR", "SweepMax"):
        lines.append(" %s = %d" % (k, consts[k]))
    for k in ("Radii", "Heights", "Thick", "EllRadii", "NameNums"):
        lines.append(" %s = %s" % (k, setlit(consts[k])))
    lines += ["INVARIANT %s" % i for i in invs]
    lines += ["PROPERTY %s" % i for i in props]
    if emit:
        lines.append("ACTION_CONSTRAINT EmitTR")
    return "\n".join(lines) + "\n"


# ---- interpretation (abstract request -> cryomask call) --------------------------------------------------
def _form(seq, variant, allow_scalar=True):
    """One of the accepted argument forms of a size / centre / radii triple."""
    seq = [int(x) for x in seq]
    k = variant % 4
    if allow_scalar and k == 3 and seq[0] == seq[1] == seq[2]:
        return seq[0]
    if k == 0:
        return list(seq)
    if k == 1:
        return np.array(seq)
    return tuple(seq)


def prepare_request(q, variant, gaussian=0.0, outwards=None, output_name=None):
    """The cryomask constructor the request names and its argument objects (built once, so that the SAME objects can be
    handed to several calls).  variant selects argument forms only.  Returns (function, args, kwargs)."""
    from cryocat import cryomask
    sh = q["shape"]
    if sh == "name":
        kw = {}
        if q["size"] > 0:
            kw["mask_size"] = int(q["size"])
        if q.get("exp", 4) != 4 or variant % 3 == 0:
            kw["mask_expansion"] = int(q.get("exp", 4))
        return cryomask.generate_mask, (q["_name"],), kw
    size = _form(q["n"], variant)
    centre = None if q["dc"] else _form(q["c"], variant // 4, allow_scalar=False)
    kw = {"center": centre}
    if gaussian:
        kw["gaussian"] = gaussian
    if outwards is not None:
        kw["gaussian_outwards"] = outwards
    if output_name is not None:
        kw["output_name"] = output_name
    if sh == "sphere":
        kw["radius"] = int(q["r"])
        return cryomask.spherical_mask, (size,), kw
    if sh == "cyl":
        kw.update({"radius": int(q["r"]), "height": int(q["h"])})
        return cryomask.cylindrical_mask, (size,), kw
    if sh == "ell":
        kw["radii"] = _form(q["rr"], variant // 16)
        return cryomask.ellipsoid_mask, (size,), kw
    if sh == "sshell":
        kw["radius"] = int(q["r"])
        return cryomask.spherical_shell_mask, (size, int(q["t"])), kw
    if sh == "eshell":
        return cryomask.ellipsoid_shell_mask, (size, int(q["t"]), _form(q["rr"], variant // 16, allow_scalar=False)), kw
    raise core.MachineryError("unknown shape %r" % (sh,))


def build_request(q, variant, gaussian=0.0, outwards=None):
    fn, args, kw = prepare_request(q, variant, gaussian, outwards)
    return fn(*args, **kw)


def call_history(n, variant, workdir):
    """Other public functions of cryomask with non-default options: nothing of them may leak into later calls."""
    from cryocat import cryomask
    m = [max(6, int(x)) for x in n]
    cryomask.spherical_mask(m, radius=2, center=[1, 2, 3], gaussian=1.0, gaussian_outwards=False)
    cryomask.cylindrical_mask(m, radius=1, height=3, gaussian=0.5)
    cryomask.generate_mask("sphere_r2", mask_size=8, mask_expansion=2)
    cryomask.generate_mask("ellipsoid_rx1_ry2_rz3")
    a = np.zeros(m)
    a[1:3, 1:3, 1:3] = 1
    cryomask.difference([a, 1 - a, a], output_name=os.path.join(workdir, "hist_%d.em" % os.getpid()))
    cryomask.subtraction((a.astype(bool), a))


def shape_sig(q):
    sig = {"op": SHAPE_OP[q["shape"]], "shape": q["shape"]}
    if q["shape"] == "cyl":
        lo, hi = q["c"][2] - q["h"] // 2, q["c"][2] + q["h"] // 2
        sig["zslab"] = "inside" if (lo >= 0 and hi <= q["n"][2] - 1) else "leaves_box"
    if q["shape"] == "name":
        sig["kind"] = q["kind"]
    return sig


def compare_mask(ctx, arr, rec, case, sig):
    """Voxel-by-voxel comparison of a returned array with the set TLC emitted."""
    q = rec["case"]
    clause = SHAPE_CLAUSE[q["shape"]]
    if not isinstance(arr, np.ndarray) or list(arr.shape) != list(rec["n"]):
        ctx.fail("C13_InsideBox", "returned array of shape %s, expected box %s" % (getattr(arr, "shape", None), rec["n"]),
                 case, sig)
        return False
    flat = np.asarray(arr).reshape(-1)
    if not bool(np.all((flat == 0) | (flat == 1))):
        ctx.fail("C13_BinaryValues", "hard-edged mask holds values other than 0 and 1: %s" % np.unique(flat)[:6].tolist(),
                 case, sig)
        return False
    ones = set(np.flatnonzero(flat == 1).tolist())
    bad = (ones ^ set(rec["in"])) - set(rec["skip"])
    if bad:
        n = rec["n"]
        w = sorted(bad)[:5]
        vox = [[x // (n[1] * n[2]), (x // n[2]) % n[1], x % n[2]] for x in w]
        ctx.fail(clause, "%d voxel(s) differ from the analytic set; first (i,j,k) %s: array has %s" % (
            len(bad), vox, [int(x in ones) for x in w]), case, sig)
        return False
    return True


def _same(a, b):
    return isinstance(a, np.ndarray) and a.shape == b.shape and a.dtype == b.dtype and bool(np.array_equal(a, b))


def alias_check(ctx, call, first, case, sig, what):
    """C13_CallsAreIndependent: `first` is a result that already conformed.  Call again with the same arguments (the
    earlier result must not change, the new one must be the same mask), then scribble over the returned arrays in
    place - as caller code may - and call once more: the result must again be the same mask."""
    keep = first.copy()
    second, err = core.call_guarded(call)
    if err is not None:
        ctx.fail("call_raises", "second call with the same arguments: %s" % err, case, sig)
        return
    if not _same(first, keep):
        ctx.fail("C13_CallsAreIndependent", "%s: an earlier result was changed by a later call with the same arguments" % what,
                 case, sig)
        return
    if not _same(second, keep):
        ctx.fail("C13_CallsAreIndependent", "%s: the second call with the same arguments returned a different array" % what,
                 case, sig)
        return
    for arr in (first, second):
        if arr.flags.writeable:
            if arr.dtype == bool:
                arr[...] = ~arr
            else:
                arr[...] = arr + 1
    third, err = core.call_guarded(call)
    if err is not None:
        ctx.fail("call_raises", "call after the caller edited an earlier result: %s" % err, case, sig)
    elif not _same(third, keep):
        ctx.fail("C13_CallsAreIndependent", "%s: after the caller edited the returned array in place, the same call returns "
                 "a different mask (%d voxels differ)" % (what, int(np.sum(np.asarray(third) != keep)) if getattr(third, "shape", None) == keep.shape else -1),
                 case, sig)


def replay_shape(ctx, rec, variant):
    from cryocat import cryomask, cryomap
    q = dict(rec["case"])
    if q["shape"] == "name":
        q["_name"] = rec["name"]
    case = {"kind": "l2", "req": rec["case"], "variant": variant}
    sig = shape_sig(rec["case"])
    if variant % 11 == 0:
        _, herr = core.call_guarded(call_history, rec["n"], variant, ctx.workdir)
        if herr is not None:
            ctx.fail("call_raises", "call history (other cryomask functions, non-default options): %s" % herr, case,
                     {"op": "call_history"})
    outp = None
    if variant % 13 == 0 and q["shape"] != "name":           # written to a file as well (every accepted extension)
        outp = os.path.join(ctx.workdir, "mask_%d.%s" % (os.getpid(), ["mrc", "em", "rec"][variant % 3]))
    fn, args, kw = prepare_request(q, variant, output_name=outp)
    guard = argguard.Guard(args=list(args), kwargs=kw)

    def call():
        return fn(*args, **kw)                                   # the SAME argument objects on every call
    arr, err = core.call_guarded(call)
    ctx.ran(case)
    if err is not None:
        ctx.fail("call_raises", err, case, sig)
        return
    why = guard.changed()
    if why:
        ctx.fail("C13_InputsUntouched", "%s changed an argument: %s" % (SHAPE_OP[q["shape"]], why), case, sig)
        return
    if not compare_mask(ctx, arr, rec, case, sig):
        return
    if outp is not None:
        back = cryomap.read(outp) if os.path.exists(outp) else None
        if back is None or back.shape != arr.shape or not bool(np.array_equal(np.asarray(back, dtype=float), np.asarray(arr, dtype=float))):
            ctx.fail(SHAPE_CLAUSE[q["shape"]], "the mask written to output_name differs from the returned mask", case, sig)
        if os.path.exists(outp):
            os.remove(outp)
    alias_check(ctx, call, arr, case, sig, SHAPE_OP[rec["case"]["shape"]])
    if q["shape"] != "name" and variant % 5 == 0:
        # the same size / centre objects handed to another constructor with other options, then once more to this one
        core.call_guarded(cryomask.cylindrical_mask, args[0], radius=1, height=2, center=kw.get("center"), gaussian=0.5,
                          gaussian_outwards=False)
        again, err = core.call_guarded(call)
        if err is not None:
            ctx.fail("call_raises", "after the arguments were reused for another constructor: %s" % err, case, sig)
        else:
            compare_mask(ctx, again, rec, case, sig)
    why = guard.changed()
    if why:
        ctx.fail("C13_InputsUntouched", "an argument of %s changed during repeated / interleaved calls: %s" % (
            SHAPE_OP[q["shape"]], why), case, sig)
    if outp is not None and os.path.exists(outp):
        os.remove(outp)


# ---- algebra ------------------------------------------------------------------------------------------------
DTYPES = ["float64", "float32", "int64", "int32", "uint8", "bool", "em", "mrc", "rec"]
LAYOUTS = ["c", "c", "f", "strided", "ro"]
OPS = [("union", "union"), ("intersection", "inter"), ("subtraction", "sub"), ("difference", "diff")]


def dtype_class(d):
    if d in ("em", "mrc", "rec"):
        return "file"
    if d == "bool":
        return "bool"
    return "float" if d.startswith("float") else "int"


def layout_of(a, layout):
    if layout == "f":
        return np.asfortranarray(a)
    if layout == "strided" and a.ndim == 3:
        big = np.zeros(a.shape[:2] + (2 * a.shape[2],), dtype=a.dtype)
        big[:, :, ::2] = a
        return big[:, :, ::2]
    if layout == "ro":
        r = np.array(a, copy=True)
        r.setflags(write=False)
        return r
    return a


def materialise(ctx, sets, n, dts, tag, layouts=None):
    """gamma for a list of voxel sets: arrays of the chosen dtypes and memory layouts, or map files."""
    from cryocat import cryomap
    items = []
    for i, (s, d) in enumerate(zip(sets, dts)):
        a = np.zeros(int(n[0] * n[1] * n[2]), dtype=np.float64)
        a[np.asarray(s, dtype=int)] = 1.0
        a = a.reshape(n)
        if d in ("em", "mrc", "rec"):
            path = os.path.join(ctx.workdir, "alg_%s_%d.%s" % (tag, i, d))
            cryomap.write(a, path, data_type=np.single)
            items.append(path)
        else:
            items.append(layout_of(a.astype(d), layouts[i] if layouts else "c"))
    return items


def container_changed(lst, items):
    """The caller's list object: same length, the very same element objects in the same order."""
    return len(lst) != len(items) or any(a is not b for a, b in zip(lst, items))


def snapshot(items):
    out = []
    for it in items:
        if isinstance(it, str):
            with open(it, "rb") as fh:
                out.append(("file", hashlib.sha1(fh.read()).hexdigest()))
        else:
            out.append((str(it.dtype), it.shape, hashlib.sha1(np.ascontiguousarray(it).tobytes()).hexdigest()))
    return out


def replay_algebra(ctx, rec, variant):
    from cryocat import cryomask
    import random
    rng = random.Random(variant)
    n = rec["n"]
    k = len(rec["masks"])
    dts = [rng.choice(DTYPES[:6]) if rng.random() < 0.85 else rng.choice(DTYPES[6:]) for _ in range(k)]
    lays = [rng.choice(LAYOUTS) for _ in range(k)]
    if min(n) < 2:
        dts = [d if d not in ("em", "mrc", "rec") else "float32" for d in dts]
    case = {"kind": "l2", "req": rec["case"], "variant": variant}
    items = materialise(ctx, rec["masks"], n, dts, "%d_%d" % (os.getpid(), variant % 7), lays)
    before = snapshot(items)
    ctx.ran(case)
    as_tuple = rec["case"].get("cont", "list") == "tuple"
    lst = tuple(items) if as_tuple else list(items)
    flags = argguard.Guard(masks=list(items))          # dtype, layout and writeable flag of every array as well
    if variant % 11 == 0:
        _, herr = core.call_guarded(call_history, n, variant, ctx.workdir)
        if herr is not None:
            ctx.fail("call_raises", "call history (other cryomask functions, non-default options): %s" % herr, case,
                     {"op": "call_history"})
    for fname, key in OPS:
        sig = {"op": fname, "first_dtype": dtype_class(dts[0]), "nmasks": k if k < 3 else "3+"}
        res, err = core.call_guarded(getattr(cryomask, fname), lst)       # ONE list object, reused for every operation
        if container_changed(lst, items):
            ctx.fail("C13_InputsUntouched", "%s(%s) changed the caller's list (%d entries before, %d after)" % (
                fname, dts, len(items), len(lst)), case, sig)
            lst = tuple(items) if as_tuple else list(items)
        if err is not None:
            ctx.fail("call_raises", "%s(%s): %s" % (fname, dts, err), case, sig)
            continue
        if snapshot(items) != before or flags.changed():
            ctx.fail("C13_InputsUntouched", "%s(%s) modified one of its inputs (%s)" % (fname, dts, flags.changed()), case, sig)
            flags = argguard.Guard(masks=list(items))
            items = materialise(ctx, rec["masks"], n, dts, "%d_%d" % (os.getpid(), variant % 7), lays)
            before = snapshot(items)
            lst = tuple(items) if as_tuple else list(items)
        if not isinstance(res, np.ndarray) or list(res.shape) != list(n):
            ctx.fail("C13_AlgebraIsVoxelwiseLogic", "%s returned shape %s" % (fname, getattr(res, "shape", None)), case, sig)
            continue
        flat = np.asarray(res, dtype=float).reshape(-1)
        if not bool(np.all((flat >= 0) & (flat <= 1))):
            ctx.fail("C13_AlgebraRange", "%s(%s): values outside [0,1]: min %r max %r" % (
                fname, dts, float(np.nanmin(flat)), float(np.nanmax(flat))), case, sig)
            continue
        if key == "diff" and not rec["diffdef"]:
            # XOR is stated for two masks only; range and immutability were checked, independence of calls still holds
            alias_check(ctx, lambda: getattr(cryomask, fname)(lst), res, case, sig, fname)
            if container_changed(lst, items):
                ctx.fail("C13_InputsUntouched", "%s(%s) changed the caller's list on a repeated call" % (fname, dts), case, sig)
                lst = tuple(items) if as_tuple else list(items)
            continue
        if not bool(np.all((flat == 0) | (flat == 1))):
            ctx.fail("C13_AlgebraIsVoxelwiseLogic", "%s(%s) of binary masks is not binary" % (fname, dts), case, sig)
            continue
        ones = set(np.flatnonzero(flat == 1).tolist())
        bad = ones ^ set(rec[key])
        if bad:
            ctx.fail("C13_AlgebraIsVoxelwiseLogic", "%s(%s): %d voxel(s) differ from the voxel-wise %s" % (
                fname, dts, len(bad), {"union": "OR", "inter": "AND", "sub": "AND-NOT", "diff": "XOR"}[key]), case, sig)
            continue
        if variant % 13 == 0:           # the result written with output_name (every accepted extension) and read back
            from cryocat import cryomap
            outp = os.path.join(ctx.workdir, "alg_out_%d.%s" % (os.getpid(), ["mrc", "em", "rec"][variant % 3]))
            r2, err = core.call_guarded(getattr(cryomask, fname), lst, output_name=outp)
            back = cryomap.read(outp) if err is None and os.path.exists(outp) else None
            if err is not None:
                ctx.fail("call_raises", "%s with output_name: %s" % (fname, err), case, sig)
            elif not _same(np.asarray(r2, dtype=float), np.asarray(res, dtype=float)) or back is None or not bool(
                    np.array_equal(np.asarray(back, dtype=float), np.asarray(res, dtype=float))):
                ctx.fail("C13_AlgebraIsVoxelwiseLogic", "%s: result returned / written with output_name differs" % fname, case, sig)
            if os.path.exists(outp):
                os.remove(outp)
        alias_check(ctx, lambda: getattr(cryomask, fname)(lst), res, case, sig, fname)
        if container_changed(lst, items):
            ctx.fail("C13_InputsUntouched", "%s(%s) changed the caller's list on a repeated call" % (fname, dts), case, sig)
            lst = tuple(items) if as_tuple else list(items)
        if snapshot(items) != before:
            ctx.fail("C13_InputsUntouched", "%s(%s) modified one of its inputs on a repeated call" % (fname, dts), case, sig)
            items = materialise(ctx, rec["masks"], n, dts, "%d_%d" % (os.getpid(), variant % 7), lays)
            before = snapshot(items)
            lst = tuple(items) if as_tuple else list(items)
    for it in items:
        if isinstance(it, str) and os.path.exists(it):
            os.remove(it)


def replay_records(ctx, records, base_variant):
    for i, rec in enumerate(records):
        variant = (base_variant + 7919 * i) % 1000003
        if rec["case"]["shape"] == "algebra":
            replay_algebra(ctx, rec, variant)
        else:
            replay_shape(ctx, rec, variant)


# ---- seeded requests (mid-size boxes) evaluated by TLC from a case file ----------------------------------------
def rand_box(rng, lo, hi, even=False, cap=None):
    while True:
        n = [rng.randint(lo, hi) for _ in range(3)]
        if even:
            n = [x + (x % 2) for x in n]
            n = [min(x, hi - (hi % 2)) for x in n]
        if cap is None or n[0] * n[1] * n[2] <= cap:
            return n


def rand_request(rng, lo, hi, cap=None, shapes=("sphere", "cyl", "ell", "sshell", "eshell")):
    sh = rng.choice(shapes)
    n = rand_box(rng, lo, hi, even=sh in ("ell", "eshell"), cap=cap)
    dc = rng.random() < 0.2
    c = [x // 2 for x in n] if dc else [rng.randrange(x) for x in n]
    big = max(n) + 6                      # "from 1 to beyond the box"

    def rad():
        return rng.choice([1, 2, rng.randint(1, max(2, min(n) // 2)), rng.randint(1, big), rng.randint(1, big)])
    q = {"shape": sh, "n": n, "c": c, "dc": dc}
    if sh == "sphere":
        q["r"] = rad()
    elif sh == "cyl":
        q["r"] = rad()
        q["h"] = rng.choice([1, 2, 3, rng.randint(1, n[2]), rng.randint(1, 2 * n[2] + 4)])
    elif sh == "ell":
        q["rr"] = [rad(), rad(), rad()]
    elif sh == "sshell":
        q["t"] = rng.randint(1, 8)
        q["r"] = max(rad(), (q["t"] + 1) // 2)
    else:
        q["t"] = 2 * rng.randint(1, 3)
        q["rr"] = [max(rad(), q["t"] // 2 + 1) for _ in range(3)]
    return q


def rand_algebra(rng):
    n = rand_box(rng, 3, 12, cap=800)
    k = rng.randint(1, 5)
    parts = []
    for _ in range(k):
        sh = rng.choice(["sphere", "cyl", "sshell", "sphere"])
        c = [rng.randrange(x) for x in n]
        q = {"shape": sh, "n": n, "c": c, "dc": False}
        if sh == "sphere":
            q["r"] = rng.randint(1, max(n))
        elif sh == "cyl":
            q["r"] = rng.randint(1, max(n))
            q["h"] = rng.randint(1, 2 * n[2])
        else:
            q["t"] = rng.randint(1, 4)
            q["r"] = max(rng.randint(1, max(n)), (q["t"] + 1) // 2)
        parts.append(q)
    if rng.random() < 0.2:
        parts[rng.randrange(len(parts))] = {"shape": "empty", "n": n}
    return {"shape": "algebra", "n": n, "cont": rng.choice(["list", "list", "tuple"]), "parts": parts}


def tlc_eval_requests(ctx, reqs, name):
    """TLC computes the expected sets of the given requests (MC_Masks, Cases <- FileCases)."""
    wd = ctx.sub(name)
    path = os.path.join(wd, "cases.ndjson")
    with open(path, "w") as fh:
        for q in reqs:
            fh.write(json.dumps(q) + "\n")
    consts = {"N1": 6, "N2": 7, "N3": 8, "E1": 6, "E2": 8, "E3": 6, "CM": 1, "CR": 0, "SweepMax": 1, "Radii": [1], "Heights": [1],
              "Thick": [1], "EllRadii": [1], "NameNums": [1]}
    res = ctx.tlc("MC_Masks", cfg_small(consts, "FileCases", True, CHEAP), name=name, env={"CASE_FILE": path},
                  workers=TLC_WORKERS)
    if len(res.records) != len({core.stable_hash(q) for q in reqs}):
        raise core.MachineryError("TLC emitted %d records for %d requests\n%s" % (len(res.records), len(reqs), res.stdout[-1500:]))
    return res.records


# ---- L3: large boxes, every voxel re-decided by MasksTrace ---------------------------------------------------------
def runs_of(flag):
    """Per column (i, j): maximal k-intervals [lo, hi] where flag is True."""
    n1, n2, n3 = flag.shape
    pad = np.zeros((n1, n2, n3 + 2), dtype=np.int8)
    pad[:, :, 1:-1] = flag
    d = np.diff(pad, axis=2)
    runs = [[] for _ in range(n1 * n2)]
    si, sj, sk = np.nonzero(d == 1)
    ei, ej, ek = np.nonzero(d == -1)
    for a, b, lo, hi in zip(si.tolist(), sj.tolist(), sk.tolist(), ek.tolist()):
        runs[a * n2 + b].append([lo, hi - 1])
    return runs


def scaled(x):
    if x != x:
        return -CLAMP
    return int(max(-CLAMP, min(CLAMP, round(float(x) * 1e6))))


def make_traces(ctx, cases):
    """Executes L3 cases and returns the trace records (None where the call raised)."""
    from cryocat import cryomask
    traces = []
    for case in cases:
        kind = case["kind"]
        ctx.ran(case)
        if kind in ("hard", "soft"):
            q = case["req"]
            sig = shape_sig(q)
            if kind == "soft":
                sig["gaussian"] = True
                arr, err = core.call_guarded(build_request, q, case["variant"], case["sigma"],
                                             case["outwards"] if case["has_flag"] else None)
            else:
                arr, err = core.call_guarded(build_request, q, case["variant"])
            if err is not None:
                ctx.fail("call_raises", err, case, sig)
                traces.append(None)
                continue
            arr = np.asarray(arr)
            if arr.ndim != 3:
                ctx.fail("C13_InsideBox", "returned array has %d dimensions" % arr.ndim, case, sig)
                traces.append(None)
                continue
            af = arr.astype(float)
            t = {"kind": kind, "req": q, "dims": list(arr.shape), "vmin": scaled(np.min(af)), "vmax": scaled(np.max(af))}
            if kind == "hard":
                t["binary"] = bool(np.all((af == 0) | (af == 1)))
                t["runs"] = runs_of(af == 1)
            else:
                thr = 1000000 - CORE_TOL
                t["thr"] = thr
                t["outwards"] = bool(case["outwards"])
                t["runs"] = runs_of(np.rint(af * 1e6) >= thr)
            traces.append(t)
        else:   # softalg
            items = [np.array(m["data"], dtype=m["dtype"]).reshape(case["n"]) for m in case["masks"]]
            before = snapshot(items)
            sig = {"op": case["op"], "first_dtype": dtype_class(case["masks"][0]["dtype"]), "soft": True}
            lst = list(items)
            res, err = core.call_guarded(getattr(cryomask, case["op"]), lst)
            listmut = container_changed(lst, items)
            if err is not None:
                ctx.fail("call_raises", err, case, sig)
                traces.append(None)
                continue
            rf = np.asarray(res, dtype=float)
            traces.append({"kind": "softalg", "op": case["op"], "mutated": snapshot(items) != before or listmut,
                           "vmin": scaled(np.min(rf)), "vmax": scaled(np.max(rf))})
    return traces


def validate_traces(ctx, cases, traces, name="trace"):
    live = [(c, t) for c, t in zip(cases, traces) if t is not None]
    if not live:
        return
    wd = ctx.sub(name)
    path = os.path.join(wd, "traces.ndjson")
    with open(path, "w") as fh:
        for _, t in live:
            fh.write(json.dumps(t) + "\n")
    cfgt = "SPECIFICATION TraceSpec\nCONSTANTS\n CoreTol = %d\nCONSTRAINT Report\n" % CORE_TOL
    res = ctx.tlc("MasksTrace", cfgt, name=name, env={"TRACE_FILE": path}, workers=TLC_WORKERS)
    verdicts = {v["tid"]: v for v in res.tagged.get("VERDICT", []) if isinstance(v, dict)}
    if len(verdicts) != len(live):
        raise core.MachineryError("MasksTrace returned %d verdicts for %d traces\n%s" % (
            len(verdicts), len(live), res.stdout[-2000:]))
    for i, (case, t) in enumerate(live):
        v = verdicts[i + 1]
        if v["ok"]:
            continue
        if v["clause"] == "malformed_request":
            raise core.MachineryError("driver generated a request outside the specification's scope: %s" % (case,))
        if case["kind"] == "softalg":
            sig = {"op": case["op"], "first_dtype": dtype_class(case["masks"][0]["dtype"]), "soft": True}
        else:
            sig = shape_sig(case["req"])
            if case["kind"] == "soft":
                sig["gaussian"] = True
        ctx.fail(v["clause"], "MasksTrace rejects the recorded array (witness voxel %s)" % (v.get("witness"),), case, sig)


SOFT_SIGMAS = [0.5, 1.0, 1.5, 2.0, 3.0]


def core_inside_request(rng, shape, parity=None):
    """A soft-edge request whose requested core lies inside the box (so every face of the core - for cylinders both
    caps - is blurred); the blur itself may reach the box faces."""
    even = shape == "ell"
    n = rand_box(rng, 16, 34, even=even, cap=26000)
    c = [rng.randint(x // 2 - 3, x // 2 + 3) for x in n]
    room = [min(c[i], n[i] - 1 - c[i]) for i in range(3)]
    q = {"shape": shape, "n": n, "c": c, "dc": False}
    if shape == "sphere":
        q["r"] = rng.randint(2, min(room))
    elif shape == "cyl":
        q["r"] = rng.randint(2, min(room[0], room[1]))
        half = rng.randint(1, room[2])
        q["h"] = 2 * half + (1 if parity == "odd" else 0)          # floor(h/2) = half for both parities
    else:
        q["rr"] = [rng.randint(2, room[i]) for i in range(3)]
    return q


def lattice_requests(rng, radii):
    """Hard-edged requests whose surface passes through lattice points off the axes; boxes just large enough (<= 48)."""
    out = []

    def box(rs, even=False):
        n = [min(48, 2 * r + 2 + rng.randint(0, 2)) for r in rs]
        return [x + (x % 2) if even else x for x in n] if even else n

    for r in radii:
        n = box([r, r, r])
        out.append({"shape": "sphere", "n": n, "c": [x // 2 for x in n], "dc": False, "r": r})
        h = rng.randint(1, 6)
        n = box([r, r, h // 2 + 1])
        out.append({"shape": "cyl", "n": n, "c": [x // 2 for x in n], "dc": False, "r": r, "h": h})
        third = rng.randint(1, 6)
        rr = [r, r, r]
        rr[(r + third) % 3] = third                         # the odd radius takes every position over the sweep
        n = [min(48, x + (x % 2)) for x in box(rr)]
        out.append({"shape": "ell", "n": n, "c": [x // 2 for x in n], "dc": rng.random() < 0.5, "rr": rr})
        if r >= 2:
            t = 2
            mid = [x - 1 if x == r else max(x, 2) for x in rr]          # shell radii mid +- 1: the outer pair is r
            if min(mid) >= 2:
                n = [min(48, x + (x % 2)) for x in box([x + 1 for x in mid])]
                out.append({"shape": "eshell", "n": n, "c": [x // 2 for x in n], "dc": True, "rr": mid, "t": t})
            n = box([r, r, r])
            out.append({"shape": "sshell", "n": n, "c": [x // 2 for x in n], "dc": False, "r": r - 1, "t": 2})   # outer radius r
    for q in out:
        if q["dc"]:
            q["c"] = [x // 2 for x in q["n"]]
    return out


FIXED_TRIPLES = [(3, 8, 17), (3, 10, 19), (2, 21, 26), (7, 15, 17)]


def unequal_triple_requests(rng, quick):
    import itertools
    if quick:
        triples = list(FIXED_TRIPLES)
        while len(triples) < 12:
            t = tuple(sorted(rng.sample(range(1, 21), 3)))
            if t not in triples:
                triples.append(t)
    else:
        triples = FIXED_TRIPLES + [t for t in itertools.combinations(range(1, 21), 3)]
    out = []
    for k, t in enumerate(triples):
        rr = list(t)
        rng.shuffle(rr)
        n = [min(48, 2 * r + 2 + 2 * rng.randint(0, 1)) for r in rr]
        n = [x + (x % 2) for x in n]
        c = [x // 2 for x in n]
        if rng.random() < 0.5:
            c = [min(n[i] - 1, max(0, c[i] + rng.randint(-1, 1))) for i in range(3)]
        out.append({"shape": "ell", "n": n, "c": c, "dc": c == [x // 2 for x in n], "rr": rr})
        if min(rr) >= 3 and (quick or k % 4 == 0):
            mid = [r - 1 for r in rr]
            out.append({"shape": "eshell", "n": n, "c": [x // 2 for x in n], "dc": True, "rr": mid, "t": 2})
    return out


def gen_l3_cases(ctx, rng, n_hard, n_soft, n_alg, cap, nbig, soft_rounds=1):
    cases = []
    for i in range(n_hard):
        if i < nbig:
            q = rand_request(rng, 40, 48)
        else:
            q = rand_request(rng, 6, 48, cap=cap)
        cases.append({"kind": "hard", "req": q, "variant": rng.randrange(64)})
    # lattice points lying exactly on the surface (Pythagorean radii 5, 10, 13, 15, 17, 20 ...), for EVERY constructor:
    # spheres, cylinders, ellipsoids with a pair of equal radii (every position of the third), both shell kinds
    for q in lattice_requests(rng, [5, 10, 13, 15, 17, 20] if soft_rounds == 1 else list(range(1, 24))):
        cases.append({"kind": "hard", "req": q, "variant": rng.randrange(64)})
    # ellipsoids with three UNEQUAL radii (voxels just outside the surface: 1 < sum <= 1 + 1e-5 happens for coprime
    # triples such as (3, 8, 17)): a fixed sample in the quick tier, every sorted triple up to 20 in the thorough tier,
    # through ellipsoid_mask and ellipsoid_shell_mask (shell radii one below, thickness 2: the outer solid is the triple)
    for q in unequal_triple_requests(rng, soft_rounds == 1):
        cases.append({"kind": "hard", "req": q, "variant": rng.randrange(64)})
    # soft edges, blurred outwards: every shape that has the flag x every width (cylinders with odd and even heights),
    # core inside the box
    for rnd in range(soft_rounds):
        for shape, parity in (("sphere", None), ("cyl", "odd"), ("cyl", "even"), ("ell", None)):
            for sigma in SOFT_SIGMAS:
                sg = sigma if rnd == 0 else round(rng.uniform(0.3, 3.0), 2)
                cases.append({"kind": "soft", "req": core_inside_request(rng, shape, parity), "variant": rng.randrange(64),
                              "sigma": sg, "has_flag": True, "outwards": True})
    for i in range(n_soft):
        q = rand_request(rng, 6, 40, cap=cap)
        sigma = rng.choice(SOFT_SIGMAS + [round(rng.uniform(0.3, 3.0), 2)])
        has_flag = q["shape"] in ("sphere", "cyl", "ell")
        outwards = has_flag and rng.random() < 0.6
        cases.append({"kind": "soft", "req": q, "variant": rng.randrange(64), "sigma": sigma, "has_flag": has_flag,
                      "outwards": outwards})
    from cryocat import cryomask
    for i in range(n_alg):
        n = rand_box(rng, 3, 10, cap=500)
        k = rng.randint(1, 5)
        nprng = np.random.default_rng(rng.randrange(2 ** 31))
        masks = []
        for _ in range(k):
            mode = rng.choice(["uniform", "blurred", "binary", "extremes"])
            if mode == "uniform":
                a = nprng.random(n)
            elif mode == "blurred":
                # a soft mask as a user would have it (built independently of the call under test below)
                a = np.clip(_blur(nprng.random(n) < 0.4), 0.0, 1.0)
            elif mode == "binary":
                a = (nprng.random(n) < 0.5).astype(float)
            else:
                a = nprng.choice([0.0, 1.0, 0.5, 1e-7, 1 - 1e-7], size=n)
            dt = rng.choice(["float64", "float64", "float32"])
            masks.append({"dtype": dt, "data": a.astype(dt).reshape(-1).tolist()})
        cases.append({"kind": "softalg", "op": rng.choice([o for o, _ in OPS]), "n": n, "masks": masks})
    return cases


def _blur(b):
    a = b.astype(float)
    for ax in range(3):
        a = (a + np.roll(a, 1, axis=ax) + np.roll(a, -1, axis=ax)) / 3.0
    return a


# ---- entry points -------------------------------------------------------------------------------------------
def replay(ctx, case):
    if case["kind"] == "l2":
        recs = tlc_eval_requests(ctx, [case["req"]], "replay")
        replay_records(ctx, recs, case.get("variant", 0))
        # replay_records derives the variant of record 0 as base_variant itself
    elif case["kind"] in ("hard", "soft", "softalg"):
        traces = make_traces(ctx, [case])
        validate_traces(ctx, [case], traces, name="replaytrace")
    elif case["kind"] == "mapsys":
        mapsys.replay(ctx, case)
    else:
        raise core.MachineryError("unknown case kind %r" % (case.get("kind"),))


def run(ctx):
    rng = ctx.rng
    ctx.rule = ("L2: TLC (MC_Masks) computes the exact voxel set of every request of the small scope - one non-cubic box "
                "from {6..9}^3 and one even box from {6,8}^3 chosen by the seed, centres = a seed-chosen residue class "
                "(quick) or every voxel (thorough), radii/heights/thicknesses 1..beyond the box, all five name patterns, "
                "all lists of 1..3 pool masks and the truth-table lists of 1..5 - plus seeded mid-size requests from a case "
                "file; each is built with cryomask (argument forms, dtypes, files varied) and compared voxel by voxel. "
                "L3: masks in boxes up to 48 projected to per-column runs, every voxel re-decided by MasksTrace; soft "
                "masks: range, and the core for sphere / cylinder (odd and even heights, both caps inside the box) / ellipsoid x "
                "sigma in {0.5, 1, 1.5, 2, 3} blurred outwards in every run plus random requests. distinct = distinct (request, argument-form variant)")
    ctx.assumptions += [
        "projection alpha (array -> set of linear indices of ones / per-column runs / min,max x1e6) is trusted",
        "ellipsoid voxels exactly on the surface with more than one non-zero offset are compared for radii <= 24 (the "
        "float expression is exact there, verified exhaustively on the pinned tree) and skipped beyond",
        "difference is compared with XOR for two masks only (n-ary XOR is not defined by the statement)",
        "spherical shells with 2r >= t, ellipsoid shells with even thickness and inner radii >= 1; ellipsoids in even boxes",
        "soft-edge claims are threshold checks: values x1e6 in [0, 1e6], core >= 1 - 1e-3 when blurred outwards",
        "names: s_shell only with the default box (an explicit mask_size is silently enlarged by the thickness)"]
    only = getattr(ctx, "only", None)

    def want(x):
        return only is None or x in only

    boxes = [(a, b, c) for a in (6, 7, 8, 9) for b in (6, 7, 8, 9) for c in (6, 7, 8, 9) if not (a == b == c)]
    nb = rng.choice(boxes)
    eb = rng.choice([(a, b, c) for a in (6, 8) for b in (6, 8) for c in (6, 8)])
    cm = ctx.pick(11, 1)
    consts = {"N1": nb[0], "N2": nb[1], "N3": nb[2], "E1": eb[0], "E2": eb[1], "E3": eb[2], "CM": cm, "CR": rng.randrange(cm),
              "SweepMax": max(nb) + 6,
              "Radii": [1, 2, 3, 5, 6, 15], "Heights": [1, 2, 3, 4, 7, 20], "Thick": [1, 2, 3, 4],
              "EllRadii": [1, 2, 3, 5, 9], "NameNums": ctx.pick([1, 2, 3], [1, 2, 3, 5])}
    ctx.extra["small_scope"] = {k: consts[k] for k in consts}
    if want("laws"):
        # L1: every clause, on a thinner set of centres (the laws cost several passes over the box per request)
        lc = dict(consts)
        lc["CM"] = ctx.pick(37, 5)
        lc["CR"] = consts["CR"] % lc["CM"]
        ctx.tlc("MC_Masks", cfg_small(lc, "SmallCases", False, CLAUSES, props=["C13_CallsAreIndependent"]), name="laws",
                workers=TLC_WORKERS)
        ctx.exhaustive["L1_small_scope"] = True
    if want("small"):
        res = ctx.tlc("MC_Masks", cfg_small(consts, "SmallCases", True, CHEAP), name="small", workers=TLC_WORKERS)
        recs = sorted(res.records, key=lambda r: core.stable_hash(r["case"]))
        if not recs:
            raise core.MachineryError("MC_Masks emitted no record")
        ctx.extra["requests_emitted_small"] = len(recs)
        replay_records(ctx, recs, ctx.seed * 31 + 1)
        ctx.exhaustive["L2_small_scope_all_replayed"] = True
    if want("file"):
        nreq = ctx.pick(120, 1500)
        reqs = [rand_request(rng, 6, 20, cap=ctx.pick(3000, 5000)) for _ in range(nreq)]
        reqs += [rand_algebra(rng) for _ in range(ctx.pick(60, 600))]
        # the name generator on radii whose surface passes through lattice points off the axes
        for kind, nums in ([("ellipsoid", [13, 13, rng.randint(1, 6)]), ("ellipsoid", [rng.randint(1, 6), 5, 5]),
                            ("e_shell", [12, 4, 12, 2]), ("sphere", [13]), ("cylinder", [13, 3]), ("s_shell", [12, 2]),
                            ("ellipsoid", [3, 8, 17]), ("ellipsoid", [17, 7, 15]), ("e_shell", [9, 2 + 1, 18, 2])]
                           + ([] if ctx.quick else [("ellipsoid", [17, 3, 17]), ("ellipsoid", [10, 10, 10]), ("sphere", [17]),
                                                    ("e_shell", [14, 14, 5, 2]), ("cylinder", [17, 2]), ("s_shell", [14, 2])])):
            reqs.append({"shape": "name", "kind": kind, "nums": nums, "size": 0, "exp": 4, "pad": 0})
        uniq = {}
        for q in reqs:
            uniq.setdefault(core.stable_hash(q), q)
        recs = tlc_eval_requests(ctx, list(uniq.values()), "file")
        recs = sorted(recs, key=lambda r: core.stable_hash(r["case"]))
        replay_records(ctx, recs, ctx.seed * 131 + 7)
    if want("trace"):
        cases = gen_l3_cases(ctx, rng, ctx.pick(24, 500), ctx.pick(10, 300), ctx.pick(40, 600),
                             cap=ctx.pick(30000, 60000), nbig=ctx.pick(2, 25), soft_rounds=ctx.pick(1, 12))
        traces = make_traces(ctx, cases)
        validate_traces(ctx, cases, traces)
    if want("mixed"):
        # composition (DESIGN 9.4): mask algebra as steps of mixed histories on a pool of live maps and files
        # (IO, windowing, thresholding in between), judged by MapSysTrace.tla in scope "mask"
        mapsys.run(ctx, "mask", ctx.pick(150, 3000))

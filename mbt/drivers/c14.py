"""C14 - map rotation, placement, windowing, symmetrisation.

L1: MapGeomLaws.tla (active composition, inverse, fixed centre over all 24 x 24 rotations and every voxel of an odd and an
    even box; chirality of the templates) and MC_MapGeom.tla (clauses as invariants of the rotate / place / window / sym
    machine).
L2: every transition TLC explores - 24 rotations x boxes, placements of 1..20 poses, windows inside / straddling / outside,
    C2 / C4 symmetrisation - is replayed into cryomap; the source-voxel maps TLC printed are the expected values.
L3: smooth blobs under arbitrary rotations and C_n symmetrisation for n in 2..12; integer-scaled observations are decided
    by MapGeomTrace.tla (thresholds bound interpolation, they do not decide it)."""
import json
import math
import os
import random

import numpy as np

from .. import core, geo, inputforms, mapsys, motlutil

SNAP = 1e-9

INVS = ["TypeOK", "C14_RotatePermutesInterior", "C14_SameAsPose", "C14_PlaceStamps", "C14_PlaceListStamps",
        "C14_WindowStartRule", "C14_PlaceFractional", "C14_WindowExact", "C14_SymInvariant"]


def cfg(rot, place, window, sym, mode, invs=INVS, placelist="Empty"):
    lines = ["SPECIFICATION Spec", "CONSTANTS", " RotCases <- %s" % rot, " PlaceCases <- %s" % place,
             " PlaceListCases <- %s" % placelist,
             " WindowCases <- %s" % window, " SymCases <- %s" % sym, ' EmitMode = "%s"' % mode]
    lines += ["INVARIANT %s" % i for i in invs]
    lines += ["PROPERTY C14_InputsUntouched", "PROPERTY C14_ResultsPersist"]
    if mode == "tr":
        lines.append("ACTION_CONSTRAINT EmitTR")
    return "\n".join(lines) + "\n"


class ArgGuard:
    """Array-valued arguments are handed to cryoCAT as the caller's own objects (no defensive copies), are REUSED for the
    following calls, and must be bit-for-bit what they were after every call (MapGeom.tla: inp' = inp in every action)."""

    def __init__(self):
        self.items = {}

    def track(self, name, obj):
        snap = obj.copy(deep=True) if hasattr(obj, "columns") else np.array(obj, copy=True)
        self.items[name] = (obj, snap)
        return obj

    def changed(self):
        out = []
        for name, (obj, snap) in self.items.items():
            if hasattr(obj, "columns"):
                same = obj.shape == snap.shape and list(obj.index) == list(snap.index) and list(obj.columns) == list(snap.columns) \
                    and np.array_equal(obj.to_numpy(dtype=float), snap.to_numpy(dtype=float), equal_nan=True)
            else:
                cur = np.asarray(obj)
                same = cur.shape == snap.shape and cur.dtype == snap.dtype and np.array_equal(cur, snap, equal_nan=(cur.dtype.kind == "f"))
            if not same:
                out.append(name)
        return out

    def check(self, ctx, case, sig, call):
        bad = self.changed()
        if bad:
            ctx.fail("C14_InputsUntouched", "%s changed its argument(s) %s in place" % (call, bad), case, dict(sig, argument=bad[0]))
            self.restore(bad)
        return not bad

    def restore(self, names):
        for name in names:        # judge the following calls on the intended inputs again
            obj, snap = self.items[name]
            try:
                if hasattr(obj, "columns"):
                    obj.iloc[:, :] = snap.to_numpy()
                else:
                    flag = obj.flags.writeable
                    if not flag:
                        obj.flags.writeable = True
                    obj[...] = snap
                    obj.flags.writeable = flag
            except Exception:
                pass

    def after(self, ctx, case, sig, call, raw, hold=False):
        """After a call whose result `raw` has been judged: (1) the arguments are what they were; (2) the result is the
        caller's own array - it shares no memory with an argument, and when the caller edits it in place (normalises a
        box, masks a map) the arguments stay what they were; with hold the result is kept untouched instead and must
        still be the same when finish() is called after the later calls (result persistence)."""
        self.check(ctx, case, sig, call)
        if not isinstance(raw, np.ndarray) or raw.size == 0:
            return
        for name, (obj, _) in self.items.items():
            if isinstance(obj, np.ndarray) and np.shares_memory(obj, raw):
                ctx.fail("C14_ResultOwnsItsMemory", "the array returned by %s shares memory with its argument %s" % (call, name),
                         case, dict(sig, argument=name))
        if hold:
            self.held = getattr(self, "held", []) + [(call, raw, raw.copy())]
        elif raw.flags.writeable:
            np.copyto(raw, np.full(raw.shape, 113).astype(raw.dtype), casting="unsafe")
            bad = self.changed()
            if bad:
                ctx.fail("C14_ResultOwnsItsMemory", "editing the array returned by %s in place changed the argument(s) %s" % (
                    call, bad), case, dict(sig, argument=bad[0]))
                self.restore(bad)

    def finish(self, ctx, case, sig):
        for call, raw, snap in getattr(self, "held", []):
            if raw.shape != snap.shape or not np.array_equal(raw, snap, equal_nan=(raw.dtype.kind == "f")):
                ctx.fail("C14_ResultsPersist", "the array returned earlier by %s changed during later calls" % call, case, sig)
        self.held = []


def disturb14(k):
    """Call-history independence: other public cryomap calls (the same functions with non-default options, and their
    neighbours) between the judged calls.  What they return is not judged here; they must not change what follows."""
    if k is None:
        return
    from cryocat import cryomap
    r = random.Random(k)
    small = np.arange(6 * 6 * 6, dtype=float).reshape(6, 6, 6) / 7.0
    pick = k % 8

    def quiet(fn, *a, **kw):
        try:
            fn(*a, **kw)
        except Exception:
            pass
    if pick == 0:
        quiet(cryomap.rotate, small, rotation_angles=[r.uniform(-180, 180), 33.0, 7.0], spline_order=1)
    elif pick == 1:
        quiet(cryomap.rotate, small, rotation_angles=np.radians([40.0, 50.0, 60.0]), degrees=False, coord_space="ZYZ")
    elif pick == 2:
        quiet(cryomap.symmetrize_volume, small, r.choice([3, "C5", 7.0]))
    elif pick == 3:
        quiet(cryomap.extract_subvolume, small, [1, 2, 3], [4, 4, 4], enforce_shape=True)
    elif pick == 4:
        quiet(cryomap.pad, small, [8, 10, 12], fill_value=3.0)
        quiet(cryomap.crop, small, 2)
    elif pick == 5:
        quiet(cryomap.shift, small, [1, 0, -1])
        quiet(cryomap.normalize, small)
    elif pick == 6:
        quiet(cryomap.get_start_end_indices, np.array([9.0, -2.0, 3.0]), (6, 6, 6), (4, 2, 6))
        quiet(cryomap.binarize, small, 0.3)
    else:
        quiet(cryomap.trim, small, [1, 1, 1], [4, 4, 4])
        quiet(cryomap.flip, small, axis="x")


def dense_volume(rng, dims):
    """A volume whose voxels all carry different, unremarkable float values (the value tokens)."""
    n = int(np.prod(dims))
    vals = np.array([rng.uniform(-40.0, 160.0) for _ in range(n)])
    return vals.reshape(tuple(dims))


def rot_from_code(code):
    from scipy.spatial.transform import Rotation
    return Rotation.from_matrix(geo.code_to_matrix(code))


# ---- L2: rotate ---------------------------------------------------------------------------------------------
def run_rotate(ctx, case):
    """case: {kind: l2_rotate, dims, r, pairs: [[dst, src], ..], variant}
    One map (stored C / Fortran / strided / read-only) and one float64 angle array are the caller's objects for the whole
    series of calls; the orientation is spelled in every equivalent way the function documents."""
    disturb14(case.get("disturb"))
    from cryocat import cryomap
    from . import c06
    rng = random.Random(case["variant"])
    dims = case["dims"]
    vform = ["c_float64", "fortran", "noncontiguous", "readonly"][case["variant"] % 4]
    vol = inputforms.store(dense_volume(rng, dims), vform)
    ang = geo.euler_for_code(case["r"], rng)
    ivol = np.rint(vol).astype(np.int16)          # the same kind of map stored as integers
    g = ArgGuard()
    g.track("input_map", vol)
    g.track("input_map_int16", ivol)
    arr = g.track("rotation_angles", np.array(ang, dtype=np.float64))      # one angle array, used for several calls
    rad = g.track("rotation_angles_rad", np.radians(np.array(ang, dtype=np.float64)))
    conv = ["ZXZ", "zyz", "ZYZ", "XYZ", "xyz"][case["variant"] % 5]
    cang = c06.conv_euler_for_code(conv, case["r"], rng)
    R = rot_from_code(case["r"])
    forms = [("rotation_angles_array", lambda: cryomap.rotate(vol, rotation_angles=arr), vol),
             ("rotation_angles_list", lambda: cryomap.rotate(vol, rotation_angles=list(ang)), vol),
             ("rotation_angles_tuple", lambda: cryomap.rotate(vol, rotation_angles=tuple(ang), coord_space="zxz", degrees=True), vol),
             ("rotation_angles_int", lambda: cryomap.rotate(vol, rotation_angles=np.array(ang).astype(np.int64)), vol),
             ("rotation_angles_float32", lambda: cryomap.rotate(vol, rotation_angles=np.array(ang, dtype=np.float32)), vol),
             ("rotation_angles_radians", lambda: cryomap.rotate(vol, rotation_angles=rad, degrees=False), vol),
             ("rotation_angles_" + conv, lambda: cryomap.rotate(vol, rotation_angles=cang, coord_space=conv), vol),
             ("rotation_transposed", lambda: cryomap.rotate(vol, rotation=R, transpose_rotation=True), vol),
             ("rotation_inverse_untransposed", lambda: cryomap.rotate(vol, rotation=R.inv(), transpose_rotation=False), vol),
             ("rotation_inverse_default", lambda: cryomap.rotate(vol, rotation=R.inv()), vol),
             ("spline_order_1", lambda: cryomap.rotate(vol, rotation_angles=arr, spline_order=1), vol),
             ("rotation_angles_int16", lambda: cryomap.rotate(ivol, rotation_angles=arr), ivol),
             ("rotation_angles_array", lambda: cryomap.rotate(vol, rotation_angles=arr), vol)]
    sel = forms[:2] + rng.sample(forms[2:-2], 5) + forms[-2:]
    if case["variant"] % 6 == 0:
        # the same integer-valued map read from a file (float32 on disk), path given as str
        ext = [".mrc", ".em", ".rec"][(case["variant"] // 6) % 3]
        path = os.path.join(ctx.workdir, "rot_%d%s" % (case["variant"], ext))
        cryomap.write(ivol.astype(np.single), path, data_type=np.single)
        parg = str(path)            # documented: "str or numpy.ndarray" (pathlib paths are not accepted by cryomap.read)
        sel.insert(3, ("input_map_path" + ext, lambda: cryomap.rotate(parg, rotation_angles=arr), ivol))
    scale = float(np.max(np.abs(vol)))
    for k_, (name, fn, ref) in enumerate(sel):
        raw, err = core.call_guarded(fn)
        sig = {"op": "rotate", "form": name, "box": "cubic" if len(set(dims)) == 1 else "noncubic", "map": vform}
        if err is not None:
            g.check(ctx, case, sig, "rotate")
            ctx.fail("call_raises", err, case, sig)
            continue
        out = np.asarray(raw)
        if out.shape != tuple(dims):
            ctx.fail("C14_ActiveConvention", "rotate returned shape %s for a %s map" % (out.shape, dims), case, sig)
        else:
            bad = [(d, s_, float(out[tuple(d)]), float(ref[tuple(s_)])) for d, s_ in case["pairs"]
                   if not abs(out[tuple(d)] - ref[tuple(s_)]) <= SNAP * scale]
            if bad:
                d, s_, got, want = bad[0]
                ctx.fail("C14_ActiveConvention", "%s: %d of %d decided voxels differ; e.g. result%s = %r, the specification says "
                         "the value of source voxel %s = %r" % (name, len(bad), len(case["pairs"]), d, got, s_, want), case, sig)
        g.after(ctx, case, sig, "rotate", raw, hold=(k_ == 0))
    g.finish(ctx, case, {"op": "rotate", "form": "earlier result", "map": vform})
    ctx.ran(case)


# ---- L2: place_object ---------------------------------------------------------------------------------------
def run_place(ctx, case):
    """case: {kind: l2_place, cdims, tmpl: {S, cells:[{o,hi}]}, poses: [{pos, r, colour}], placed: [[x, colour]],
    shifted: [[[..]]], variant}"""
    disturb14(case.get("disturb"))
    from cryocat import cryomap, cryomotl
    rng = random.Random(case["variant"])
    S = case["tmpl"]["S"]
    c = S // 2
    tmpl = np.zeros((S, S, S))
    for cell in case["tmpl"]["cells"]:
        idx = tuple(c + v for v in cell["o"])
        tmpl[idx] = rng.choice([1.0, 0.5, 7.0, 0.11, 250.0]) if cell["hi"] else rng.choice([0.05, 0.09, -1.0, 0.0999])
    tkind = (case["variant"] // 7) % 4          # storage type of the template: float64, int8, int16, bool
    if tkind:
        for cell in case["tmpl"]["cells"]:
            idx = tuple(c + v for v in cell["o"])
            tmpl[idx] = (1 if tkind == 3 else rng.choice([1, 1, 7, 100])) if cell["hi"] else (0 if tkind == 3 else rng.choice([0, -1]))
        tmpl = tmpl.astype([None, np.int8, np.int16, bool][tkind])
    poses = case["poses"]
    n = len(poses)
    feature = ["object_id", "class", "geom1", "object_id"][case["variant"] % 4]
    # identifier values: the colouring field may hold 0 (colour tokens 1.. are shifted down by one), the tomogram numbers
    # may be 0 or large consecutive numbers
    cshift = [0, 0, -1][(case["variant"] // 17) % 3] if feature != "geom1" else 0
    cmap = (lambda v: float(v + cshift)) if feature != "geom1" else (lambda v: v + 0.5)
    tomo0 = [1, 0, 240115, 999999][(case["variant"] // 19) % 4]
    u = case.get("u", 1)
    pclause = "C14_PlaceFractional" if "u" in case else "C14_PlaceStamps"
    cols = motlutil.empty_rows(n)
    for i, p in enumerate(poses):
        sh = [rng.choice([0.0, 0.0, 0.5, -0.25, 1.0, -2.0]) for _ in range(3)]
        cols["x"][i], cols["y"][i], cols["z"][i] = [p["pos"][j] / u - sh[j] for j in range(3)]
        cols["shift_x"][i], cols["shift_y"][i], cols["shift_z"][i] = sh
        cols["phi"][i], cols["theta"][i], cols["psi"][i] = geo.euler_for_code(p["r"], rng)
        cols["tomo_id"][i] = tomo0 + (i % 2)
        cols["subtomo_id"][i] = i + 1
        cols["object_id"][i] = 77
        cols["class"][i] = 88
        cols[feature][i] = cmap(p["colour"])
    # row labels are not part of a particle list (sorted / filtered tables keep their old labels)
    imode = (case["variant"] // 3) % 4
    # ... nor is the order of the 20 named columns
    motl = cryomotl.Motl(motlutil.vary_columns(motlutil.vary_index(motlutil.df_from_cols(cols), case["variant"] // 3),
                                               case["variant"] // 5))
    index_kind = {0: "default", 1: "default", 2: "permuted", 3: "gapped"}[imode] if n > 0 else "default"
    cdims = tuple(case["cdims"])
    form = case["variant"] % 4
    tform = "c_float64"
    if tkind == 0:
        tform = ["c_float64", "fortran", "noncontiguous", "readonly"][(case["variant"] // 11) % 4]
        tmpl = inputforms.store(tmpl, tform)
    background = [0.0, 0.25][(case["variant"] // 13) % 2]       # what the given container holds where nothing is stamped
    tpath = None
    if form == 3:
        # template read from a file (float32 on disk; the 0.1 threshold separates the same voxels)
        tpath = os.path.join(ctx.workdir, "tmpl_%d%s" % (case["variant"], [".em", ".mrc"][(case["variant"] // 4) % 2]))
        cryomap.write(np.asarray(tmpl, dtype=np.single), tpath, data_type=np.single)

    g = ArgGuard()
    g.track("input_object", tmpl)
    g.track("motl.df", motl.df)

    def call():
        if form == 0:
            return cryomap.place_object(tmpl, motl, volume_shape=cdims, feature_to_color=feature)
        if form == 1:
            return cryomap.place_object(tmpl, motl, volume=np.full(cdims, background), feature_to_color=feature)
        if form == 3:
            return cryomap.place_object(tpath, motl, volume_shape=np.array(cdims), feature_to_color=feature)
        if feature == "object_id":
            return cryomap.place_object(tmpl, motl, volume_shape=list(cdims))
        return cryomap.place_object(tmpl, motl, volume_shape=list(cdims), feature_to_color=feature)

    sig = {"op": "place_object", "poses": "one" if n == 1 else "many", "index": index_kind,
           "template": ["float64", "int8", "int16", "bool"][tkind] if form != 3 else "path", "stored": tform,
           "box": "even" if S % 2 == 0 else "odd",
           "position": "integral" if all(v % u == 0 for p in poses for v in p["pos"]) else "fractional"}
    want = np.full(cdims, background if form == 1 else 0.0)
    for x, colour in case["placed"]:
        want[tuple(x)] = cmap(colour)
    for rep in range(2):            # the same template and list once more: same container
        raw, err = core.call_guarded(call)
        if err is not None:
            g.check(ctx, case, sig, "place_object")
            ctx.fail("call_raises", err, case, sig)
            break
        out = np.asarray(raw, dtype=float)
        if out.shape != cdims:
            ctx.fail(pclause, "container of shape %s returned for %s" % (out.shape, cdims), case, sig)
        elif not np.all(np.isfinite(out)) or np.max(np.abs(out - want)) > 1e-12:
            diff = np.argwhere(~(np.abs(out - want) <= 1e-12))
            d0 = tuple(int(v) for v in diff[0])
            ctx.fail(pclause, "%d container voxels differ from the specification; e.g. voxel %s = %r, expected %r%s" % (
                len(diff), d0, float(out[d0]), float(want[d0]), " (second call with the same arguments)" if rep else ""), case, sig)
        g.after(ctx, case, sig, "place_object", raw)
    # the same active convention as Motl.shift_positions: stamped voxel = complete position after shifting by the offset.
    # The whole list (with its row labels) is shifted, in place or into a new list.
    if "shifted" not in case:
        ctx.ran(case)
        return
    for j in rng.sample(range(len(case["tmpl"]["cells"])), min(3, len(case["tmpl"]["cells"]))):
        cell = case["tmpl"]["cells"][j]
        inplace = (case["variant"] + j) % 2 == 0

        sv = g.track("shift", np.array(cell["o"], dtype=np.float64))

        def shifted():
            if inplace:
                m2 = cryomotl.Motl(motl.df.copy())
                m2.shift_positions(sv)
            else:
                m2 = motl.shift_positions(sv, inplace=False)      # the list itself must stay as it is
            return np.asarray(m2.get_coordinates(), dtype=float)
        got, err = core.call_guarded(shifted)
        sig2 = {"op": "shift_positions", "poses": "one" if n == 1 else "many", "index": index_kind, "inplace": inplace}
        g.check(ctx, case, sig2, "shift_positions")
        if err is not None:
            ctx.fail("call_raises", err, case, sig2)
            break
        want_p = np.array([case["shifted"][i][j] for i in range(n)], dtype=float)
        if got.shape != want_p.shape or not np.all(np.isfinite(got)) or np.max(np.abs(got - want_p)) > SNAP:
            ctx.fail("C14_SameAsPose", "list shifted by template offset %s has complete positions %s, the specification "
                     "(and the stamps of place_object) say %s" % (cell["o"], got.tolist()[:4], want_p.tolist()[:4]), case, sig2)
            break
    ctx.ran(case)


def build_template(tm, rng, tkind=0):
    S = tm["S"]
    c = S // 2
    arr = np.zeros((S, S, S))
    for cell in tm["cells"]:
        idx = tuple(c + v for v in cell["o"])
        if tkind:
            arr[idx] = (1 if tkind == 3 else rng.choice([1, 1, 7, 100])) if cell["hi"] else (0 if tkind == 3 else rng.choice([0, -1]))
        else:
            arr[idx] = rng.choice([1.0, 0.5, 7.0, 0.11, 250.0]) if cell["hi"] else rng.choice([0.05, 0.09, -1.0, 0.0999])
    return arr.astype([float, np.int8, np.int16, bool][tkind])


def run_placelist(ctx, case):
    """case: {kind: l2_placelist, cdims, tmpls: [{S, cells}], poses: [{pos, r, colour}], placed, variant}: input_object is a
    list with one template per particle; poses with the same orientation get literally the same Euler angles"""
    disturb14(case.get("disturb"))
    from cryocat import cryomap, cryomotl
    rng = random.Random(case["variant"])
    poses = case["poses"]
    n = len(poses)
    tkind = (case["variant"] // 7) % 4
    tmpls = [build_template(t, rng, tkind) for t in case["tmpls"]]
    euler = {}
    cols = motlutil.empty_rows(n)
    for i, p in enumerate(poses):
        key = tuple(p["r"])
        if key not in euler:
            euler[key] = [0.0, 0.0, 0.0] if p["r"] == [1, 2, 3, 1, 1, 1] and case["variant"] % 2 == 0 else geo.euler_for_code(p["r"], rng)
        sh = [rng.choice([0.0, 0.0, 0.5, -0.25, 1.0]) for _ in range(3)]
        cols["x"][i], cols["y"][i], cols["z"][i] = [p["pos"][j] - sh[j] for j in range(3)]
        cols["shift_x"][i], cols["shift_y"][i], cols["shift_z"][i] = sh
        cols["phi"][i], cols["theta"][i], cols["psi"][i] = euler[key]
        cols["tomo_id"][i] = 1
        cols["subtomo_id"][i] = i + 1
        cols["object_id"][i] = p["colour"]
    motl = cryomotl.Motl(motlutil.vary_columns(motlutil.vary_index(motlutil.df_from_cols(cols), case["variant"] // 3),
                                               case["variant"] // 5))
    cdims = tuple(case["cdims"])
    g = ArgGuard()
    for i_, t_ in enumerate(tmpls):
        g.track("input_object[%d]" % i_, t_)
    g.track("motl.df", motl.df)
    ids_before = [id(t_) for t_ in tmpls]   # the list itself: same entries, same order afterwards
    raw, err = core.call_guarded(lambda: cryomap.place_object(tmpls, motl, volume_shape=cdims))
    sig = {"op": "place_object", "poses": "many", "template": "list"}
    if [id(t_) for t_ in tmpls] != ids_before:
        ctx.fail("C14_InputsUntouched", "place_object changed the caller's list of templates", case, sig)
    g.check(ctx, case, sig, "place_object")
    if err is not None:
        ctx.fail("call_raises", err, case, sig)
    else:
        out = np.asarray(raw, dtype=float)
        want = np.zeros(cdims)
        for x, colour in case["placed"]:
            want[tuple(x)] = float(colour)
        if out.shape != cdims:
            ctx.fail("C14_PlaceListStamps", "container of shape %s returned for %s" % (out.shape, cdims), case, sig)
        elif not np.all(np.isfinite(out)) or np.max(np.abs(out - want)) > 1e-12:
            diff = np.argwhere(~(np.abs(out - want) <= 1e-12))
            d0 = tuple(int(v) for v in diff[0])
            ctx.fail("C14_PlaceListStamps", "%d container voxels differ from the specification; e.g. voxel %s = %r, expected %r" % (
                len(diff), d0, float(out[d0]), float(want[d0])), case, sig)
    ctx.ran(case)


# ---- L2: windows ----------------------------------------------------------------------------------------------
def window_class(case):
    cls = []
    for ax in range(3):
        m = case["axes"][ax]
        inside = sum(1 for v in m if v >= 0)
        cls.append("inside" if inside == len(m) else ("outside" if inside == 0 else "straddling"))
    if "outside" in cls:
        return "outside"
    return "straddling" if "straddling" in cls else "inside"


def expected_window(vol, axes, fill):
    shape = tuple(len(m) for m in axes)
    want = np.full(shape, fill, dtype=float)
    ok = [[w for w, v in enumerate(m) if v >= 0] for m in axes]
    if all(ok):
        src = [[m[w] for w in o] for m, o in zip(axes, ok)]
        want[np.ix_(*ok)] = vol[np.ix_(*src)]
    return want


def run_window(ctx, case):
    """case: {kind: l2_window, vdims, centre, shape, axes: [[src index or -1 per window position] x 3], variant}
    The volume (stored C / Fortran / strided / read-only), the centre and the shape are the caller's objects and are
    reused for every call; the returned boxes are edited in place afterwards, as a caller normalising a box would."""
    disturb14(case.get("disturb"))
    from cryocat import cryomap
    rng = random.Random(case["variant"])
    vform = ["c_float64", "fortran", "noncontiguous", "readonly"][case["variant"] % 4]
    vol = inputforms.store(dense_volume(rng, case["vdims"]), vform)
    mean = float(np.mean(vol))
    want = expected_window(vol, case["axes"], mean)
    cls = window_class(case)
    u = case.get("u", 1)
    centre, shape = [c / u for c in case["centre"]] if u != 1 else case["centre"], case["shape"]
    fractional = any(c != int(c) for c in centre)
    g = ArgGuard()
    g.track("volume", vol)
    cen = g.track("coordinates", np.array(centre, dtype=np.float64))
    shp = g.track("subvolume_shape", np.array(shape))
    # (a fractional centre has no integer spelling; the float array is used instead)
    ceni = g.track("coordinates_int", np.array(centre, dtype=np.float64 if fractional else np.int64))
    calls = [("extract_subvolume", lambda: cryomap.extract_subvolume(vol, cen, shp)),
             ("extract_subvolume", lambda: cryomap.extract_subvolume(vol, cen, shp)),
             ("extract_subvolume", lambda: cryomap.extract_subvolume(vol, ceni, tuple(shape))),
             ("extract_subvolume", lambda: cryomap.extract_subvolume(vol, [float(v) for v in centre], list(shape))),
             ("extract_subvolume", lambda: cryomap.extract_subvolume(vol, tuple(centre), shp, enforce_shape=False, output_file=None))]
    calls = calls[:2] + [calls[2 + case["variant"] % 3]]
    if cls == "inside" and not fractional and all(v % 2 == 0 for v in shape):
        calls.append(("crop", lambda: cryomap.crop(vol, shp, crop_coord=cen)))
        calls.append(("crop", lambda: cryomap.crop(vol, tuple(shape), crop_coord=list(centre))))
        if list(centre) == [d // 2 for d in case["vdims"]]:
            calls.append(("crop", lambda: cryomap.crop(vol, list(shape))))
            if len(set(shape)) == 1:
                calls.append(("crop", lambda: cryomap.crop(vol, int(shape[0]))))
    covering = all(m.count(-1) + case["vdims"][ax] == len(m) for ax, m in enumerate(case["axes"]))
    if covering and not fractional and list(centre) == [d // 2 for d in case["vdims"]] and all(d % 2 == 0 for d in case["vdims"]) \
            and all(v % 2 == 0 for v in shape):
        calls.append(("pad", lambda: cryomap.pad(vol, tuple(shape))))
        calls.append(("pad", lambda: cryomap.pad(vol, shp, fill_value=None)))
    calls.append(("extract_subvolume", lambda: cryomap.extract_subvolume(vol, cen, shp)))     # once more after all the edits
    for k_, (name, fn) in enumerate(calls):
        raw, err = core.call_guarded(fn)
        sig = {"op": name, "window": cls, "volume": vform, "centre": "fractional" if fractional else "integral",
               "shape": "even" if all(v % 2 == 0 for v in shape) else "odd"}
        if err is not None:
            g.check(ctx, case, sig, name)
            ctx.fail("call_raises", err, case, sig)
            continue
        out = np.asarray(raw, dtype=float)
        if out.shape != want.shape:
            ctx.fail("C14_WindowStartRule" if "u" in case else "C14_WindowExact", "%s returned shape %s for the requested window %s" % (name, out.shape, shape), case, sig)
        elif not np.all(np.isfinite(out)) or np.max(np.abs(out - want)) > 1e-12 * max(1.0, float(np.max(np.abs(vol)))):
            diff = np.argwhere(~(np.abs(out - want) <= 1e-10))
            d0 = tuple(int(v) for v in diff[0]) if len(diff) else (0, 0, 0)
            ctx.fail("C14_WindowStartRule" if "u" in case else "C14_WindowExact", "%s: %d window voxels differ; e.g. window%s = %r, expected %r (volume mean %r)" % (
                name, len(diff), d0, float(out[d0]), float(want[d0]), mean), case, sig)
        g.after(ctx, case, sig, name, raw, hold=(k_ == 0))
    g.finish(ctx, case, {"op": "extract_subvolume", "window": cls, "volume": vform})
    ctx.ran(case)


# ---- L2: symmetrisation -----------------------------------------------------------------------------------------
def run_sym(ctx, case):
    """case: {kind: l2_sym, dims, n, pairs: [[dst, [src_1..src_n]], ..], variant}: every spelling of the symmetry order"""
    disturb14(case.get("disturb"))
    from cryocat import cryomap
    rng = random.Random(case["variant"])
    vform = ["c_float64", "fortran", "noncontiguous", "readonly"][case["variant"] % 4]
    vol = inputforms.store(dense_volume(rng, case["dims"]), vform)
    n = case["n"]
    spellings = [n, "C%d" % n, "c%d" % n, float(n), np.int64(n), np.float32(n), np.int32(n)]
    g = ArgGuard()
    g.track("vol", vol)
    scale = float(np.max(np.abs(vol)))
    for k_, arg in enumerate([spellings[case["variant"] % 7], spellings[(case["variant"] // 7 + 3) % 7]]):
        raw, err = core.call_guarded(cryomap.symmetrize_volume, vol, arg)
        sig = {"op": "symmetrize_volume", "n": n, "symmetry": type(arg).__name__, "map": vform}
        if err is not None:
            g.check(ctx, case, sig, "symmetrize_volume")
            ctx.fail("call_raises", err, case, sig)
            continue
        out = np.asarray(raw, dtype=float)
        if out.shape != vol.shape:
            ctx.fail("C14_SymIsMeanOfRotatedCopies", "shape %s returned for %s" % (out.shape, vol.shape), case, sig)
        else:
            bad = []
            for dst, srcs in case["pairs"]:
                want = sum(float(vol[tuple(s_)]) for s_ in srcs) / n
                if not abs(out[tuple(dst)] - want) <= SNAP * scale:
                    bad.append((dst, float(out[tuple(dst)]), want))
            if bad:
                ctx.fail("C14_SymIsMeanOfRotatedCopies", "%d of %d decided voxels differ; e.g. result%s = %r, mean of the %d "
                         "rotated sources = %r" % (len(bad), len(case["pairs"]), bad[0][0], bad[0][1], n, bad[0][2]), case, sig)
        g.after(ctx, case, sig, "symmetrize_volume", raw, hold=(k_ == 0))
    g.finish(ctx, case, {"op": "symmetrize_volume", "n": n})
    ctx.ran(case)


# ---- replay ---------------------------------------------------------------------------------------------------
def tt(v):
    return "<<" + ", ".join(str(int(x)) for x in v) + ">>"


def spec_expected(ctx, case):
    k = case["kind"]
    sets = {"RRot": "{}", "RPlace": "{}", "RWindow": "{}", "RSym": "{}", "RPlaceList": "{}"}
    tm = lambda t: "[S |-> %d, cells |-> <<%s>>]" % (t["S"], ", ".join("Cell(%s, %s)" % (tt(c["o"]), "TRUE" if c["hi"] else "FALSE") for c in t["cells"]))
    unit = ", u |-> %d" % case["u"] if "u" in case else ""
    if k == "l2_rotate":
        sets["RRot"] = "{ [dims |-> %s, R |-> FromCode(%s)] }" % (tt(case["dims"]), tt(case["r"]))
    elif k == "l2_place":
        cells = ", ".join("Cell(%s, %s)" % (tt(c["o"]), "TRUE" if c["hi"] else "FALSE") for c in case["tmpl"]["cells"])
        poses = ", ".join("[pos |-> %s, R |-> FromCode(%s), colour |-> %d]" % (tt(p["pos"]), tt(p["r"]), p["colour"])
                          for p in case["poses"])
        sets["RPlace"] = "{ [cdims |-> %s, tmpl |-> [S |-> %d, cells |-> <<%s>>], poses |-> <<%s>>%s] }" % (
            tt(case["cdims"]), case["tmpl"]["S"], cells, poses, unit)
    elif k == "l2_placelist":
        poses = ", ".join("[pos |-> %s, R |-> FromCode(%s), colour |-> %d]" % (tt(p["pos"]), tt(p["r"]), p["colour"])
                          for p in case["poses"])
        sets["RPlaceList"] = "{ [cdims |-> %s, tmpls |-> <<%s>>, poses |-> <<%s>>] }" % (
            tt(case["cdims"]), ", ".join(tm(t) for t in case["tmpls"]), poses)
    elif k == "l2_window":
        sets["RWindow"] = "{ [vdims |-> %s, centre |-> %s, shape |-> %s%s] }" % (tt(case["vdims"]), tt(case["centre"]), tt(case["shape"]), unit)
    else:
        sets["RSym"] = "{ [dims |-> %s, n |-> %d] }" % (tt(case["dims"]), case["n"])
    path = os.path.join(ctx.sub("replaymod"), "MapGeomReplay.tla")
    with open(path, "w") as fh:
        fh.write("---- MODULE MapGeomReplay ----\nEXTENDS MC_MapGeom\n" + "".join("%s == %s\n" % kv for kv in sets.items()) + "====\n")
    res = ctx.tlc("MapGeomReplay", cfg("RRot", "RPlace", "RWindow", "RSym", "tr", placelist="RPlaceList"), name="replayspec", workers=1,
                  extra_modules=[path])
    if len(res.records) != 1:
        raise core.MachineryError("replay: the specification produced %d transitions for one case" % len(res.records))
    out = res.records[0]["out"]
    field = {"l2_rotate": ["pairs"], "l2_place": ["placed", "shifted"] if "shifted" in case else ["placed"], "l2_placelist": ["placed"], "l2_window": ["axes"], "l2_sym": ["pairs"]}[k]
    for f in field:
        if canon(out[f]) != canon(case[f]):
            raise core.MachineryError("replay file disagrees with the specification about %s" % f)
    return out


def canon(x):
    return json.dumps(sorted(json.dumps(v) for v in x)) if isinstance(x, list) and x and isinstance(x[0], list) and \
        len(x[0]) == 2 and isinstance(x[0][0], list) else json.dumps(x)


HANDLERS = {"l2_rotate": run_rotate, "l2_place": run_place, "l2_placelist": run_placelist, "l2_window": run_window, "l2_sym": run_sym}


def replay(ctx, case):
    k = case["kind"]
    if k in HANDLERS:
        spec_expected(ctx, case)
        HANDLERS[k](ctx, case)
    elif k in ("l3_rotblob", "l3_sym", "l3_dtype", "l3_grey", "l3_smallrot"):
        run_l3(ctx, [case], name="replay")
    elif k == "mapsys":
        mapsys.replay(ctx, case)
    else:
        raise core.MachineryError("unknown case kind %r" % k)


# ---- L3 --------------------------------------------------------------------------------------------------------
def blob(dims, centre, sigma):
    g = np.meshgrid(*[np.arange(d, dtype=float) for d in dims], indexing="ij")
    r2 = sum((g[i] - centre[i]) ** 2 for i in range(3))
    return np.exp(-r2 / (2.0 * sigma * sigma))


def corr(a, b):
    a = a - a.mean()
    b = b - b.mean()
    den = math.sqrt(float((a * a).sum()) * float((b * b).sum()))
    return float((a * b).sum()) / den if den > 0 else 0.0


def gen_rotblob(rng, idx, big):
    while True:
        n0 = rng.randint(24, 48 if big else 36)
        dims = [n0, n0, n0] if rng.random() < 0.5 else [rng.randint(24, 48 if big else 36) for _ in range(3)]
        sigma = rng.uniform(2.0, 3.5)
        ang = [rng.uniform(-180, 180), rng.choice([rng.uniform(0, 180), rng.uniform(0, 180), 0.0, 180.0, 90.0]),
               rng.uniform(-180, 180)]
        R = geo.zxz_matrix(*ang)
        c = np.array([d // 2 for d in dims], dtype=float)
        v = np.array([rng.uniform(-0.5, 0.5) * d for d in dims])
        margin = max(4.0, 3.0 * sigma)
        src, dst = c + v, c + R @ v
        if any(src[i] < margin or src[i] > dims[i] - 1 - margin or dst[i] < margin or dst[i] > dims[i] - 1 - margin for i in range(3)):
            continue
        # the case must tell the active convention from the passive one and from a wrong centre
        if np.linalg.norm(R @ v - R.T @ v) < 3.0 or np.linalg.norm(R @ v - v) < 3.0:
            continue
        return {"kind": "l3_rotblob", "id": idx, "dims": dims, "sigma": sigma, "ang": ang, "v": [float(x) for x in v],
                "form": rng.randrange(3)}


def rotblob_event(case):
    from cryocat import cryomap
    from scipy.spatial.transform import Rotation
    dims = case["dims"]
    c = np.array([d // 2 for d in dims], dtype=float)
    v = np.array(case["v"])
    R = geo.zxz_matrix(*case["ang"])
    vol = blob(dims, c + v, case["sigma"])
    guard = ArgGuard()
    guard.track("input_map", vol)
    arr = guard.track("rotation_angles", np.array(case["ang"], dtype=np.float64))
    if case["form"] == 0:
        out = cryomap.rotate(vol, rotation_angles=list(case["ang"]))
    elif case["form"] == 1:
        out = cryomap.rotate(vol, rotation_angles=arr)
    else:
        out = cryomap.rotate(vol, rotation=Rotation.from_matrix(R), transpose_rotation=True)
    out = np.asarray(out, dtype=float)
    ev = {"kind": "rotblob", "com": -1, "back": 0, "anti": 0, "args_ok": not guard.changed()}
    tot = float(out.sum())
    if out.shape == vol.shape and np.all(np.isfinite(out)) and tot > 1e-6:
        g = np.meshgrid(*[np.arange(d, dtype=float) for d in dims], indexing="ij")
        com = np.array([float((g[i] * out).sum()) / tot for i in range(3)])
        ev["com"] = int(min(999999999, round(float(np.linalg.norm(com - (c + R @ v))) * 1e4)))
        ev["anti"] = int(min(999999999, round(float(np.linalg.norm(com - (c + R.T @ v))) * 1e4)))
        # the inverse orientation zxz(-psi, -theta, -phi), derived from the caller's angle array AFTER it was used
        inv = -arr[::-1] if case["form"] == 1 else [-case["ang"][2], -case["ang"][1], -case["ang"][0]]
        back = np.asarray(cryomap.rotate(out.copy(), rotation_angles=inv), dtype=float)
        ev["args_ok"] = ev["args_ok"] and not guard.changed()
        if back.shape == vol.shape and np.all(np.isfinite(back)):
            ev["back"] = int(round(corr(vol, back) * 1e6))
    return [ev]


def gen_smallrot(rng, idx):
    """a smooth blob far from the box centre, turned by a small non-zero rotation (0.05 .. 2 degree)"""
    n0 = rng.choice([40, 44, 48])
    dims = [n0, n0, n0]
    sigma = rng.uniform(2.0, 3.0)
    c = n0 // 2
    while True:
        v = [rng.uniform(-1, 1) for _ in range(3)]
        nv = math.sqrt(sum(x * x for x in v))
        if nv > 0.3:
            break
    r = rng.uniform(0.55, 0.8) * (c - 3.0 * sigma - 1)
    v = [x / nv * r for x in v]
    theta = rng.choice([0.05, 0.2, 0.5, 1.0, 1.5, 2.0, rng.uniform(0.05, 2.0)])
    w = rng.randrange(3)
    # small rotations in three spellings: about z only, all three angles small, and phi / psi nearly cancelling
    ang = [[0.0, 0.0, theta], [0.4 * theta, 0.6 * theta, 0.35 * theta], [40.0, theta, -40.0]][w]
    return {"kind": "l3_smallrot", "id": idx, "dims": dims, "sigma": sigma, "v": v, "ang": ang, "form": rng.randrange(3)}


def smallrot_event(case):
    from cryocat import cryomap
    from scipy.spatial.transform import Rotation
    dims = case["dims"]
    c = np.array([d // 2 for d in dims], dtype=float)
    v = np.array(case["v"])
    R = geo.zxz_matrix(*case["ang"])
    vol = blob(dims, c + v, case["sigma"])
    if case["form"] == 0:
        out = cryomap.rotate(vol, rotation_angles=list(case["ang"]))
    elif case["form"] == 1:
        out = cryomap.rotate(vol, rotation_angles=np.array(case["ang"]))
    else:
        out = cryomap.rotate(vol, rotation=Rotation.from_matrix(R), transpose_rotation=True)
    out = np.asarray(out, dtype=float)
    want = blob(dims, c + R @ v, case["sigma"])          # the analytic blob at centre + R v (active convention)
    ev = {"kind": "smallrot", "err": -1, "back": -1, "moved": int(round(float(np.linalg.norm(R @ v - v)) * 1e4))}
    if out.shape == vol.shape and np.all(np.isfinite(out)):
        ev["err"] = int(min(999999999, round(float(np.max(np.abs(out - want))) * 1e6)))
        a = case["ang"]
        back = np.asarray(cryomap.rotate(out, rotation_angles=[-a[2], -a[1], -a[0]]), dtype=float)
        if back.shape == vol.shape and np.all(np.isfinite(back)):
            ev["back"] = int(min(999999999, round(float(np.max(np.abs(back - vol))) * 1e6)))
    return [ev]


def gen_sym(rng, idx, big, n=None):
    n0 = rng.randint(24, 40 if big else 32)
    dims = [n0, n0, rng.choice([n0, rng.randint(16, 32)])]
    c = [d // 2 for d in dims]
    blobs = []
    for _ in range(rng.randint(1, 4)):
        sigma = rng.uniform(2.0, 3.0)
        margin = 3.0 * sigma + 1.0
        rmax = min(c[0], dims[0] - 1 - c[0]) - margin
        r = rng.uniform(0.0, max(0.5, rmax))
        a = rng.uniform(0, 2 * math.pi)
        z = rng.uniform(margin, dims[2] - 1 - margin)
        blobs.append({"c": [c[0] + r * math.cos(a), c[1] + r * math.sin(a), z], "sigma": sigma, "w": rng.uniform(0.5, 2.0)})
    return {"kind": "l3_sym", "id": idx, "dims": dims, "n": n or rng.randint(2, 12), "blobs": blobs, "form": rng.randrange(2)}


def sym_event(case):
    from cryocat import cryomap
    dims, n = case["dims"], case["n"]
    vol = sum(b["w"] * blob(dims, b["c"], b["sigma"]) for b in case["blobs"])
    out = np.asarray(cryomap.symmetrize_volume(vol.copy(), n if case["form"] == 0 else "C%d" % n), dtype=float)
    ev = {"kind": "sym", "n": n, "inv": 0, "dens": -1}
    if out.shape == vol.shape and np.all(np.isfinite(out)):
        turned = np.asarray(cryomap.rotate(out.copy(), rotation_angles=[0.0, 0.0, 360.0 / n]), dtype=float)
        if turned.shape == out.shape and np.all(np.isfinite(turned)):
            ev["inv"] = int(round(corr(out, turned) * 1e6))
        ev["dens"] = int(min(999999999, round(abs(float(out.sum()) - float(vol.sum())) / float(vol.sum()) * 1e6)))
    return [ev]


DTYPES = ["float64", "float32", "int16", "int8", "uint8", "int32"]


def gen_dtype(rng, idx):
    S = rng.choice([10, 12, 14, 16])
    boxes = []
    for _ in range(rng.randint(2, 4)):      # an asymmetric union of small boxes well inside the template
        lo = [rng.randint(3, S - 6) for _ in range(3)]
        hi = [min(S - 3, l + rng.randint(1, 4)) for l in lo]
        boxes.append([lo, hi, rng.choice([1, 1, 3, 20, 100])])
    binary = rng.random() < 0.5
    poses = []
    for i in range(rng.randint(1, 5)):
        poses.append({"pos": [rng.randint(2, 30) for _ in range(3)],
                      "ang": [rng.uniform(-180, 180), rng.uniform(0, 180), rng.uniform(-180, 180)], "colour": i + 1})
    return {"kind": "l3_dtype", "id": idx, "S": S, "boxes": boxes, "binary": binary, "poses": poses,
            "ang": [rng.uniform(-180, 180), rng.uniform(5, 175), rng.uniform(-180, 180)], "label_k": rng.randrange(1000)}


def dtype_event(case):
    from cryocat import cryomap, cryomotl
    S = case["S"]
    tm = np.zeros((S, S, S))
    for lo, hi, val in case["boxes"]:
        tm[lo[0]:hi[0] + 1, lo[1]:hi[1] + 1, lo[2]:hi[2] + 1] = 1 if case["binary"] else val
    types = DTYPES + (["bool"] if case["binary"] else [])
    rng_v = float(tm.max() - tm.min()) or 1.0
    n = len(case["poses"])
    cols = motlutil.empty_rows(n)
    for i, p in enumerate(case["poses"]):
        cols["x"][i], cols["y"][i], cols["z"][i] = p["pos"]
        cols["phi"][i], cols["theta"][i], cols["psi"][i] = p["ang"]
        cols["tomo_id"][i] = 1
        cols["subtomo_id"][i] = i + 1
        cols["object_id"][i] = p["colour"]
    motl = cryomotl.Motl(motlutil.vary_index(motlutil.df_from_cols(cols), case["label_k"]))
    ev = {"kind": "dtype", "rot": [], "place": [], "stamped": 0}
    ref_rot = ref_place = None
    for t in types:
        arr = tm.astype(t)
        out = np.asarray(cryomap.rotate(arr.copy(), rotation_angles=list(case["ang"])), dtype=float)
        cont = np.asarray(cryomap.place_object(arr.copy(), motl, volume_shape=(32, 32, 32)), dtype=float)
        if ref_rot is None:
            ref_rot, ref_place = out, cont
            ev["stamped"] = int(np.count_nonzero(cont))
        if out.shape != ref_rot.shape or not np.all(np.isfinite(out)):
            ev["rot"].append(-1)
        else:
            ev["rot"].append(int(min(999999999, round(float(np.max(np.abs(out - ref_rot))) / rng_v * 1e6))))
        ev["place"].append(int(np.count_nonzero(cont != ref_place)) if cont.shape == ref_place.shape else -1)
    return [ev]


def gen_grey(rng, idx):
    S = rng.choice([12, 14, 16])
    c = S // 2
    blobs = [{"c": [c + rng.uniform(-1.5, 1.5) for _ in range(3)], "sigma": rng.uniform(1.2, 2.2), "w": rng.uniform(0.4, 1.0)}
             for _ in range(rng.randint(2, 3))]
    poses = [{"pos": [rng.randint(S // 2 + 1, 40 - S // 2 + 1) for _ in range(3)],
              "ang": [rng.uniform(-180, 180), rng.uniform(10, 170), rng.uniform(-180, 180)], "colour": i + 1}
             for i in range(rng.randint(1, 3))]
    return {"kind": "l3_grey", "id": idx, "S": S, "blobs": blobs, "scale": rng.choice([1.0, 1.0, 0.6, 5.0]), "poses": poses,
            "label_k": rng.randrange(1000)}


def grey_event(case):
    """A grey-valued template given as ONE array and as a list (one copy per particle), generic orientations: the two forms
    must agree, and each particle's stamp must be the template rotated by its orientation and THEN cut at 0.1 (the window
    of the container around the particle - MapGeom.tla!WStart - against cryomap.rotate followed by the threshold)."""
    from cryocat import cryomap, cryomotl
    S = case["S"]
    tm = sum(b["w"] * blob([S, S, S], b["c"], b["sigma"]) for b in case["blobs"])
    tm = tm / float(tm.max()) * case["scale"]
    n = len(case["poses"])

    def motl_of(poses):
        cols = motlutil.empty_rows(len(poses))
        for i, p in enumerate(poses):
            cols["x"][i], cols["y"][i], cols["z"][i] = p["pos"]
            cols["phi"][i], cols["theta"][i], cols["psi"][i] = p["ang"]
            cols["tomo_id"][i] = 1
            cols["subtomo_id"][i] = i + 1
            cols["object_id"][i] = p["colour"]
        return cryomotl.Motl(motlutil.vary_index(motlutil.df_from_cols(cols), case["label_k"]))
    g = ArgGuard()
    g.track("input_object", tm)
    motl = motl_of(case["poses"])
    cdims = (40, 40, 40)
    single = np.asarray(cryomap.place_object(tm, motl, volume_shape=cdims), dtype=float)
    listed = np.asarray(cryomap.place_object([tm for _ in range(n)], motl, volume_shape=cdims), dtype=float)
    ev = {"kind": "grey", "single_list": int(np.count_nonzero(single != listed)) if single.shape == listed.shape else -1,
          "single_rot": [], "list_rot": [], "stamped": int(np.count_nonzero(single)), "args_ok": True}
    for p in case["poses"]:
        one = motl_of([p])
        mask = np.asarray(cryomap.rotate(tm, rotation_angles=list(p["ang"])), dtype=float) > 0.1
        want = np.where(mask, float(p["colour"]), 0.0)
        st = [p["pos"][a] - 1 - S // 2 for a in range(3)]
        for key, obj in (("single_rot", tm), ("list_rot", [tm])):
            cont = np.asarray(cryomap.place_object(obj, one, volume_shape=cdims), dtype=float)
            win = cont[st[0]:st[0] + S, st[1]:st[1] + S, st[2]:st[2] + S]
            outside = int(np.count_nonzero(cont)) - int(np.count_nonzero(win))
            ev[key].append(int(np.count_nonzero(win != want)) + outside if win.shape == want.shape else -1)
    ev["args_ok"] = not g.changed()
    return [ev]


def run_l3(ctx, cases, name="trace"):
    traces = []
    for case in cases:
        fn = {"l3_rotblob": rotblob_event, "l3_dtype": dtype_event, "l3_grey": grey_event, "l3_smallrot": smallrot_event}.get(case["kind"], sym_event)
        evs, err = core.call_guarded(fn, case)
        if err is not None:
            ctx.fail("call_raises", err, case, {"op": {"l3_rotblob": "rotate", "l3_smallrot": "rotate", "l3_dtype": "rotate/place_object", "l3_grey": "place_object"}.get(case["kind"], "symmetrize_volume")})
            evs = []
        traces.append({"id": case["id"], "ev": evs})
        ctx.ran(case)
    wd = ctx.sub(name)
    path = os.path.join(wd, "traces.ndjson")
    with open(path, "w") as fh:
        for t in traces:
            fh.write(json.dumps(t) + "\n")
    cfgt = ("SPECIFICATION TraceSpec\nCONSTANTS\n SmallTol = 4000\n DtypeTol = 1000\n ComTol = 2500\n BackMin = 980000\n SymMin = 990000\n DensTol = 50000\n"
            "CONSTRAINT Report\n")
    res = ctx.tlc("MapGeomTrace", cfgt, name=name, env={"TRACE_FILE": path}, workers=1)
    verdicts = {v["tid"]: v for v in res.tagged.get("VERDICT", [])}
    if len(verdicts) != len(traces):
        raise core.MachineryError("MapGeomTrace returned %d verdicts for %d traces\n%s" % (len(verdicts), len(traces), res.stdout[-2000:]))
    for i, case in enumerate(cases):
        v = verdicts[i + 1]
        if not v["ok"]:
            ev = traces[i]["ev"][v["step"] - 1]
            sig = {"op": "rotate", "form": "real"} if ev["kind"] == "rotblob" else {"op": "rotate", "form": "small"} if ev["kind"] == "smallrot" else \
                  ({"op": "rotate/place_object", "form": "storage_type"} if ev["kind"] == "dtype" else
                   ({"op": "place_object", "template": "grey"} if ev["kind"] == "grey" else {"op": "symmetrize_volume", "n": ev["n"]}))
            ctx.fail(v["clause"], "event rejected by MapGeomTrace: %s" % json.dumps(ev), case, sig)
    return res, traces


# ---- main ------------------------------------------------------------------------------------------------------
def run(ctx):
    ctx.rule = ("L2: every transition of MC_MapGeom - 24 cube rotations x boxes 5^3, 6^3, 5x6x7, 8x6x6 (every interior voxel "
                "whose image is interior, dense value-token volumes, three call forms), placements of 1..20 cube poses of chiral "
                "templates incl. partly/fully outside and overlapping stamps, windows per axis outside/straddling/inside/"
                "covering with even shapes (extract_subvolume, crop, pad), C2/C4 symmetrisation - replayed into cryomap against "
                "the source-voxel maps TLC printed; window cases sub-sampled by hash of (seed, case) in the quick tier; L3: "
                "Gaussian blobs under random rotations and C_n symmetrisation n in 2..12 validated by MapGeomTrace. distinct = "
                "distinct concrete calls")
    ctx.assumptions += [
        "face voxels of a rotated box are not decided (they can leave the interpolation domain by rounding)",
        "windows and placement at fractional centres / positions and with odd boxes follow ONE rule, decided in MapGeom.tla: "
        "start = floor(centre - S/2) (continuous coordinates, voxel i covers [i, i+1)); crop / pad only for integral centres "
        "and even sizes",
        "a map is its values, not its storage type: integer-valued maps / templates stored as int8, int16, int32, uint8, bool, "
        "float32 must rotate and stamp like their float64 copy (deviation <= 1e-3 of the value range, identical containers)",
        "array-valued arguments are passed as the caller's objects, reused for later calls and must be unchanged afterwards "
        "(the container given as volume= is the one documented in-place argument and is not tracked)",
        "grey templates: the single-array and the list form must give identical containers, equal to cryomap.rotate of the "
        "template followed by the 0.1 threshold inside the particle's window",
        "interpolation accuracy is bounded, not decided: centre of mass within 0.25 voxel, inverse-rotation correlation >= 0.98,"
        " symmetrised-map invariance correlation >= 0.99, total density within 5 %",
    ]
    W = 4
    big = not ctx.quick
    ctx.tlc("MapGeomLaws", cfg("Empty", "Empty", "Empty", "Empty", "none", invs=["TypeOK"]), name="laws", workers=W)
    scopes = (ctx.pick("MCRotCases", "MCRotCasesBig"), ctx.pick("MCPlaceAll", "MCPlaceAllBig"), "MCWindowAllQ", "MCSymCases")
    # L1: clauses on every state (parallel, nothing printed) ; L2 emission: same scope, one worker
    ctx.tlc("MC_MapGeom", cfg(*scopes, "none", placelist="MCPlaceListCases"), name="l1", workers=W)
    res = ctx.tlc("MC_MapGeom", cfg(*scopes, "tr", invs=["TypeOK"], placelist="MCPlaceListCases"), name="l2", workers=1)
    trs = res.records
    kinds = {}
    for t in trs:
        kinds.setdefault(t["kind"], []).append(t)
    if len(kinds.get("rotate", [])) < 96 or not kinds.get("place") or len(kinds.get("window", [])) < 2000 or len(kinds.get("sym", [])) != 12:
        raise core.MachineryError("MC_MapGeom emitted %s" % {k: len(v) for k, v in kinds.items()})
    ctx.exhaustive["L1_MC_MapGeom"] = True
    ctx.extra["transitions_emitted"] = len(trs)
    seed = ctx.seed
    var = lambda i: (seed * 7919 + i) % 100003
    i = 0
    for t in kinds["rotate"]:
        for rep in range(ctx.pick(1, 3)):
            i += 1
            run_rotate(ctx, {"kind": "l2_rotate", "dims": t["inp"]["dims"], "r": t["inp"]["r"], "pairs": t["out"]["pairs"],
                             "variant": var(i), "disturb": (var(i) * 31 + 7) if var(i) % 3 == 0 else None})
    ctx.exhaustive["L2_rotate"] = True
    for t in kinds["place"]:
        for rep in range(ctx.pick(1, 3)):
            i += 1
            run_place(ctx, {"kind": "l2_place", "cdims": t["inp"]["cdims"], "tmpl": t["inp"]["tmpl"], "poses": t["inp"]["poses"],
                            "placed": t["out"]["placed"], "shifted": t["out"]["shifted"], "variant": var(i), "disturb": (var(i) * 31 + 7) if var(i) % 3 == 0 else None})
    for t in kinds.get("placeq", []):
        for rep in range(ctx.pick(1, 3)):
            i += 1
            run_place(ctx, {"kind": "l2_place", "cdims": t["inp"]["cdims"], "tmpl": t["inp"]["tmpl"], "poses": t["inp"]["poses"],
                            "u": t["inp"]["u"], "placed": t["out"]["placed"], "variant": var(i), "disturb": (var(i) * 31 + 7) if var(i) % 3 == 0 else None})
    for t in kinds.get("windowq", []):
        i += 1
        run_window(ctx, {"kind": "l2_window", "vdims": t["inp"]["vdims"], "centre": t["inp"]["centre"], "shape": t["inp"]["shape"],
                         "u": t["inp"]["u"], "axes": t["out"]["axes"], "variant": var(i), "disturb": (var(i) * 31 + 7) if var(i) % 3 == 0 else None})
    if len(kinds.get("placeq", [])) < 50 or len(kinds.get("windowq", [])) < 300:
        raise core.MachineryError("MC_MapGeom emitted %d / %d fractional placements / windows" % (len(kinds.get("placeq", [])), len(kinds.get("windowq", []))))
    ctx.exhaustive["L2_place"] = True
    for t in kinds.get("placelist", []):
        for rep in range(ctx.pick(1, 3)):
            i += 1
            run_placelist(ctx, {"kind": "l2_placelist", "cdims": t["inp"]["cdims"], "tmpls": t["inp"]["tmpls"],
                                "poses": t["inp"]["poses"], "placed": t["out"]["placed"], "variant": var(i), "disturb": (var(i) * 31 + 7) if var(i) % 3 == 0 else None})
    if len(kinds.get("placelist", [])) < 100:
        raise core.MachineryError("MC_MapGeom emitted %d list placements" % len(kinds.get("placelist", [])))
    # centred windows (crop / pad) are always replayed; the grid of off-centre windows is sub-sampled in the quick tier
    centred = [t for t in kinds["window"] if t["inp"]["centre"] == [v // 2 for v in t["inp"]["vdims"]]
               or t["inp"]["vdims"] != [4, 5, 6]]
    grid = sorted([t for t in kinds["window"] if t not in centred], key=lambda t: core.stable_hash([seed, t["inp"]]))
    budget = ctx.pick(700, len(grid))
    ctx.exhaustive["L2_window"] = budget >= len(grid)
    for t in centred + grid[:budget]:
        i += 1
        run_window(ctx, {"kind": "l2_window", "vdims": t["inp"]["vdims"], "centre": t["inp"]["centre"], "shape": t["inp"]["shape"],
                         "axes": t["out"]["axes"], "variant": var(i), "disturb": (var(i) * 31 + 7) if var(i) % 3 == 0 else None})
    for t in kinds["sym"]:
        for rep in range(ctx.pick(2, 6)):
            i += 1
            run_sym(ctx, {"kind": "l2_sym", "dims": t["inp"]["dims"], "n": t["inp"]["n"], "pairs": t["out"]["pairs"],
                          "variant": var(i), "disturb": (var(i) * 31 + 7) if var(i) % 3 == 0 else None})
    ctx.exhaustive["L2_sym"] = True
    # ---- L3
    nrot, nsym = ctx.pick(60, 2500), ctx.pick(40, 1500)
    cases = [gen_rotblob(ctx.rng, k + 1, big) for k in range(nrot)]
    cases += [gen_sym(ctx.rng, nrot + k + 1, big, n=2 + k % 11) for k in range(nsym)]       # every n in 2..12
    cases += [gen_dtype(ctx.rng, nrot + nsym + k + 1) for k in range(ctx.pick(40, 1200))]
    cases += [gen_grey(ctx.rng, len(cases) + k + 1) for k in range(ctx.pick(40, 1200))]
    cases += [gen_smallrot(ctx.rng, 0) for k in range(ctx.pick(40, 1000))]
    for k, c in enumerate(cases):
        c["id"] = k + 1
    run_l3(ctx, cases)
    # ---- composition (DESIGN 9.4): windowing / flip / right-angle rotation as steps of mixed histories on a pool of
    # live maps and files (IO, mask algebra, thresholding in between), judged by MapSysTrace.tla in scope "geom"
    mapsys.run(ctx, "geom", ctx.pick(150, 3000))

"""C04 - STOPGAP <-> cryoCAT conversion is a lossless renaming with parity half-sets.

L1   MC_StopgapConv: the clauses of StopgapConv.tla over an exhaustive small scope (1-2 particles, even/odd/non-sequential
     subtomogram numbers, lattice positions of either sign, distinct value tokens, reset x update).
L2   every explored transition (export / import / write / load) and seeded lists of up to 300 particles (StopgapCases.tla
     computes the expected tables) are replayed through StopgapMotl.convert_to_sg_motl, StopgapMotl().convert_to_motl,
     StopgapMotl(df).write_out, StopgapMotl(path), emmotl2stopgap, stopgap2emmotl and compared field by field.
L3   every file written by cryoCAT is parsed inside TLC (Star!Parse) and, together with the list loaded back, validated by
     StopgapTrace.tla against StopgapConv!ToSg of the abstract list (numbers after rounding to 6 decimals).
"""
import json
import os

import numpy as np

from .. import argguard, core, motlsys, motlutil, starutil as su

FIELDS14 = ["score", "subtomo_id", "tomo_id", "object_id", "x", "y", "z", "shift_x", "shift_y", "shift_z",
            "phi", "psi", "theta", "class"]
UNSHARED = [f for f in motlutil.FIELDS if f not in FIELDS14]
LATTICE_M = {"x", "y", "z", "shift_x", "shift_y", "shift_z"}
SG_COLUMNS = ["motl_idx", "tomo_num", "object", "subtomo_num", "halfset", "orig_x", "orig_y", "orig_z", "score",
              "x_shift", "y_shift", "z_shift", "phi", "psi", "the", "class"]      # STOPGAP's motive-list columns
LATTICE_S = {"orig_x", "orig_y", "orig_z", "x_shift", "y_shift", "z_shift"}
INT_S = {"subtomo_num", "motl_idx"}
TOKEN_KINDS = ["score", "tomo_id", "object_id", "phi", "psi", "theta", "class"]      # token id = 7 * particle + position + 1

INVS = ["C04_Renaming", "C04_Halfset", "C04_FileRoundTrip"]
PROPS = ["C04_MotlIdx", "C04_UpdateCoord", "C04_OrderKept", "C04_EditSurvives"]

DEMO = os.environ.get("VERIF_C04_DEMO", "")          # binding demonstration switch (never set in normal runs)


def cfg(spec_lines, U, emit=True):
    lines = spec_lines + ["CONSTANTS", " U = %d" % U, ' EmitMode = "%s"' % ("tr" if emit else "none")]
    lines += ["INVARIANT %s" % i for i in INVS] + ["PROPERTY %s" % p for p in PROPS]
    if emit:
        lines.append("ACTION_CONSTRAINT EmitTR")
    return "\n".join(lines) + "\n"


# ---- interpretation gamma ------------------------------------------------------------------------
class Gamma:
    """value token -> real.  Token t (1-based) has kind TOKEN_KINDS[(t-1) % 7]; distinct tokens get distinct reals."""

    def __init__(self, rng, ntokens, U, sidk=0, flat=0):
        self.U = U
        # subtomogram numbers are sidk * 10^9 + (abstract number < 10^9): composite ids beyond 2^31 (TLC's integers are
        # 32-bit, so the specification keeps the small part); 10^9 is even, the parity is that of the abstract number
        self.sidbase = int(sidk) * 10 ** 9
        self.val = {}
        used = set()
        for t in range(1, ntokens + 1):
            kind = TOKEN_KINDS[(t - 1) % 7]
            while True:
                if kind in ("tomo_id", "object_id", "class"):
                    k = rng.random()
                    if k < 0.06:
                        v = 0.0                                           # an identifier may be 0 ...
                    elif k < 0.12:
                        v = float((ntokens + 6) // 7)                     # ... or equal the number of particles
                    elif k < 0.24:
                        v = float(100000 + (t - 1) // 7)                  # ... or large and consecutive
                    elif k < 0.36:
                        v = float(rng.randint(2 ** 31, 8900000000))       # ... or beyond the int32 range
                    else:
                        v = float(rng.randint(1, 40 * ntokens + 50))
                elif kind == "score":
                    v = rng.choice([rng.uniform(-1, 1), rng.uniform(0, 1), rng.uniform(-500, 500), round(rng.uniform(0, 1), 3)])
                else:
                    v = rng.choice([rng.uniform(-360, 360), rng.uniform(-180, 180), float(rng.randint(-360, 360)),
                                    round(rng.uniform(0, 180), 2)])
                isid = kind in ("tomo_id", "object_id", "class")
                if v not in used and (v != 0.0 or isid) and (abs(v) < 1e7 or v == int(v)) and not su.near_rounding_tie(v) \
                        and round(v, 6) not in used:
                    break
            used.add(v)
            used.add(round(v, 6))
            self.val[t] = v
        # one field group of the list all-equal / all-zero while the others are not (flat: 1 class all equal, 2 all angles
        # zero, 3 all scores zero, 4 tomogram and object numbers all equal); tokens are then compared by VALUE
        for t in list(self.val):
            kind = TOKEN_KINDS[(t - 1) % 7]
            if flat == 1 and kind == "class":
                self.val[t] = 3.0
            elif flat == 2 and kind in ("phi", "psi", "theta"):
                self.val[t] = 0.0
            elif flat == 3 and kind == "score":
                self.val[t] = 0.0
            elif flat == 4 and kind in ("tomo_id", "object_id"):
                self.val[t] = 1.0 if kind == "tomo_id" else 2.0
        self.inv = {}
        for t, v in self.val.items():
            self.inv.setdefault(v, t)

    def same(self, a, e):
        """Do two abstract values name the same thing (value tokens by the real they stand for)?"""
        if a == e:
            return True
        return isinstance(a, int) and isinstance(e, int) and a in self.val and e in self.val and self.val[a] == self.val[e]

    def canon_table(self):
        return [su.canon_of_number(self.val[t]) for t in range(1, len(self.val) + 1)]

    def motl_value(self, field, a):
        if field in LATTICE_M:
            return a / self.U
        if field == "subtomo_id":
            return float(self.sidbase + a)
        return self.val[a]

    def sg_value(self, col, a, row=None):
        if col == "halfset":
            return a
        if col in LATTICE_S:
            return a / self.U
        if col == "subtomo_num" or (col == "motl_idx" and row is not None and a == row["subtomo_num"]):
            return float(self.sidbase + a)
        if col in INT_S:
            return float(a)
        return self.val[a]

    # projection alpha
    def abstract(self, kind, v, loose=False):
        """kind: 'lat' | 'int' | 'tok' | 'str' -> abstract value, or a tuple describing why there is none.
        loose: the value went through a text file; the reader's decimal -> binary conversion may be a few ulps off
        (pandas' fast parser is not correctly rounded for 17-digit spellings), so the token within 1e-12 relative is taken."""
        if kind == "str":
            return v if isinstance(v, str) else ("not-text", repr(v))
        try:
            f = float(v)
        except (TypeError, ValueError):
            return ("not-a-number", repr(v))
        if f != f or f in (float("inf"), float("-inf")):
            return ("not-finite", repr(v))
        if kind == "lat":
            r = f * self.U
            k = round(r)
            tol = 1e-9 if self.U == 8 else 1e-6
            return int(k) if abs(r - k) <= tol * max(1.0, abs(r)) else ("off-lattice", f)
        if kind in ("int", "sid"):
            if f != int(f):
                return ("non-integer", f)
            return int(f) - (self.sidbase if kind == "sid" else 0)
        t = self.inv.get(f)
        if t is None and loose:
            near = [k for k, w in self.val.items() if abs(w - f) <= 1e-12 * max(abs(w), 1e-300)]
            if len(near) == 1:
                t = near[0]
        return t if t is not None else ("unknown-value", f)


def motl_kind(field):
    return "lat" if field in LATTICE_M else "sid" if field == "subtomo_id" else "tok"


def sg_kind(col, reset=False):
    if col == "motl_idx":
        return "int" if reset else "sid"          # 1..N after a reset, the subtomogram number otherwise
    return "str" if col == "halfset" else "lat" if col in LATTICE_S else "sid" if col == "subtomo_num" else "tok"


def build_motl_df(rows, g, rng):
    n = len(rows)
    cols = motlutil.empty_rows(n)
    for f in UNSHARED:
        # the six fields STOPGAP does not carry are populated (geom3 / geom5 strictly positive): nothing of them may leak
        cols[f] = np.array([rng.uniform(1, 9) if f in ("geom3", "geom5") else rng.uniform(-5, 5) for _ in range(n)])
    for i, p in enumerate(rows):
        for f in FIELDS14:
            cols[f][i] = g.motl_value(f, p[f])
    return motlutil.df_from_cols(cols, order=column_order(rng))


def column_order(rng):
    """The constructors accept the 20 fields in any column order: canonical, reversed or a random permutation.
    Every expectation is by field NAME."""
    k = rng.random()
    if k < 0.34:
        return None
    order = list(motlutil.FIELDS)
    if k < 0.67:
        order.reverse()
    else:
        rng.shuffle(order)
    return order


def build_sg_df(sgrows, g, rng):
    import pandas as pd
    data = {c: [g.sg_value(c, s[c], s) for s in sgrows] for c in SG_COLUMNS}
    order = list(SG_COLUMNS)
    if rng.random() < 0.5:
        rng.shuffle(order)                      # the STOPGAP table is addressed by column name
    return pd.DataFrame(data, columns=order)


def independent_sg_file(path, sgrows, g, rng):
    """A STOPGAP motive list written by the driver's own writer (un-numbered labels, full-precision spellings)."""
    with open(path, "w") as fh:
        if rng.random() < 0.5:
            fh.write("# written by the C04 driver\n")
        fh.write("\ndata_stopgap_motivelist\n\nloop_\n")
        order = list(SG_COLUMNS)
        if rng.random() < 0.5:
            rng.shuffle(order)                      # a STAR loop may list its labels in any order
        for c in order:
            fh.write("_%s\n" % c)
        fh.write("\n")
        for s in sgrows:
            cells = []
            for c in order:
                v = g.sg_value(c, s[c], s)
                cells.append(v if c == "halfset" else (str(int(v)) if c in INT_S and rng.random() < 0.5 else repr(float(v))))
            fh.write(rng.choice(["  ", "\t", " "]).join(cells) + "\n")
        fh.write("\n")


# ---- comparisons (field by field against what TLC emitted) ---------------------------------------------
def compare_motl(ctx, df, expected, g, clause, case, sig, what, loose=False):
    if df.shape[0] != len(expected):
        ctx.fail("C04_OrderKept", "%s: %d particles, expected %d" % (what, df.shape[0], len(expected)), case, sig)
        return False
    missing = [f for f in FIELDS14 if f not in df.columns]
    if missing:
        ctx.fail(clause, "%s: fields missing %s" % (what, missing), case, sig)
        return False
    for f in FIELDS14:
        vals = df[f].tolist()
        for i, e in enumerate(expected):
            a = g.abstract(motl_kind(f), vals[i], loose)
            if a != e[f] and not (motl_kind(f) == "tok" and g.same(a, e[f])):
                ctx.fail(clause, "%s: particle %d field %s = %r (abstract %r), expected abstract %r (= %r)" % (
                    what, i + 1, f, vals[i], a, e[f], g.motl_value(f, e[f])), case, dict(sig, field=f))
                return False
    return True


def compare_sg(ctx, sg_df, expected, g, case, sig, what="", reset=False):
    if sg_df.shape[0] != len(expected):
        ctx.fail("C04_OrderKept", "%sSTOPGAP table has %d rows, expected %d" % (what, sg_df.shape[0], len(expected)), case, sig)
        return False
    missing = [c for c in SG_COLUMNS if c not in sg_df.columns]
    if missing:
        ctx.fail("C04_Renaming", "STOPGAP columns missing: %s" % missing, case, sig)
        return False
    for c in SG_COLUMNS:
        vals = sg_df[c].tolist()
        clause = "C04_Halfset" if c == "halfset" else "C04_MotlIdx" if c == "motl_idx" else "C04_Renaming"
        for i, e in enumerate(expected):
            a = g.abstract(sg_kind(c, reset), vals[i])
            if a != e[c] and not (sg_kind(c, reset) == "tok" and g.same(a, e[c])):
                ctx.fail(clause, "%sparticle %d column %s = %r (abstract %r), expected abstract %r" % (
                    what, i + 1, c, vals[i], a, e[c]), case, dict(sig, field=c))
                return False
    return True


# ---- the calls under test ----------------------------------------------------------------------------
def apply_hist(m, hist, g):
    """The list operations of a case, performed on the live object (they leave non-default row labels behind)."""
    for h in hist or []:
        if h["op"] == "remove":
            m.remove_feature("class", g.val[h["cls"]])
            continue
        idx = [i - 1 for i in h["idx"]]
        n = m.df.shape[0]
        if idx == sorted(idx) and len(set(idx)) == len(idx):
            mask = np.zeros(n, dtype=bool)
            mask[idx] = True
            m.df = m.df[mask]
        elif sorted(idx) == list(range(n)):
            key = np.empty(n)
            key[idx] = np.arange(n, dtype=float)
            m.df = m.df.assign(geom1=key).sort_values("geom1")
        else:
            m.df = m.df.iloc[idx]


def api_export(df, reset, variant, hist=None, g=None):
    from cryocat.cryomotl import StopgapMotl
    if hist:
        m = StopgapMotl(df)
        apply_hist(m, hist, g)
        return StopgapMotl.convert_to_sg_motl(m.df, reset_index=reset)
    if not reset and variant % 2 == 0:
        return StopgapMotl.convert_to_sg_motl(df)
    return StopgapMotl.convert_to_sg_motl(df, reset_index=reset)


def api_import(sg_df, variant):
    from cryocat import cryomotl
    v = variant % 5
    if v == 4:
        return cryomotl.stopgap2emmotl(sg_df, update_coordinates=True).df       # judged against the updated list
    if v == 0:
        m = cryomotl.StopgapMotl()
        m.convert_to_motl(sg_df)
        return m.df
    if v == 1:
        return cryomotl.StopgapMotl(sg_df).df
    if v == 2:
        return cryomotl.stopgap2emmotl(sg_df).df
    return cryomotl.Motl.load(sg_df, "stopgap").df


def api_write(df, path, update, reset, variant, hist=None, g=None):
    from cryocat import cryomotl
    if hist:
        m = cryomotl.StopgapMotl(df)
        apply_hist(m, hist, g)
        m.write_out(path, update_coord=update, reset_index=reset)
        return m.df
    if variant % 3 == 0:
        m = cryomotl.StopgapMotl(df)
        m.write_out(path, update_coord=update, reset_index=reset)
        return m.df
    if variant % 3 == 1:
        m = cryomotl.emmotl2stopgap(df, path, update_coordinates=update, reset_index=reset)
        return m.df
    # no output path: the RETURNED object must hold the (updated) list
    m = cryomotl.emmotl2stopgap(df, None, update_coordinates=update, reset_index=reset)
    return m.df


def api_load(path, variant):
    from cryocat import cryomotl
    if variant % 3 == 0:
        return cryomotl.StopgapMotl(path).df
    if variant % 3 == 1:
        return cryomotl.stopgap2emmotl(path).df
    return cryomotl.stopgap2emmotl(path, update_coordinates=True).df              # judged against the updated list


def spelling():
    sp = {c: su.s2b(c) for c in SG_COLUMNS}
    sp["block"] = su.s2b("data_stopgap_motivelist")
    sp["A"] = su.s2b("A")
    sp["B"] = su.s2b("B")
    return sp


def ntokens_of(rows):
    return max(max(p[k] for k in TOKEN_KINDS) for p in rows)


class Runner:
    """Executes transitions and collects the file traces for StopgapTrace."""

    def __init__(self, ctx, U):
        self.ctx = ctx
        self.U = U
        self.traces = []       # (trace record, case, sig)
        self.pending = {}      # (operation, list length) -> earlier in-memory result awaiting its second judgement
        self.n = 0

    def exec_inmem(self, case, g, rng, sig):
        """Runs an in-memory conversion; the table handed to cryoCAT carries default, permuted or gapped row labels
        (the expected result is positional).  Returns the returned object, or None when the call raised."""
        ctx = self.ctx
        op = case["op"]
        variant = case["variant"]
        if op["name"] == "export":
            df = motlutil.vary_index(build_motl_df(case["pre"], g, rng), variant // 2)
            guard = argguard.Guard(motl_table=df)
            res, err = core.call_guarded(api_export, df, op["reset"], variant, case.get("hist"), g)
            if err is not None:
                ctx.fail("call_raises", "convert_to_sg_motl: %s" % err, case, sig)
                return None
            self.unchanged(guard, "convert_to_sg_motl", case, sig)
            if variant % 3 == 0:
                # the SAME table object converted once more (other call form): must be what a fresh table gives
                self.noise(case)
                again, err = core.call_guarded(api_export, df, op["reset"], variant + 1, case.get("hist"), g)
                if err is not None:
                    ctx.fail("call_raises", "second convert_to_sg_motl of the same table object: %s" % err, case, sig)
                else:
                    compare_sg(ctx, again, case["sg"], g, case, dict(sig, reused=True),
                               what="second conversion of the same table object: ", reset=op["reset"])
                    self.unchanged(guard, "second convert_to_sg_motl", case, sig)
            return res
        sg_df = motlutil.vary_index(build_sg_df(case["sgin"], g, rng), variant // 5)
        guard = argguard.Guard(stopgap_table=sg_df)
        res, err = core.call_guarded(api_import, sg_df, variant)
        if err is not None:
            ctx.fail("call_raises", "convert_to_motl: %s" % err, case, sig)
            return None
        self.unchanged(guard, "conversion from the STOPGAP table", case, sig)
        if variant % 3 == 1 and variant % 5 != 4:
            self.noise(case)
            v2 = variant + 1 if (variant + 1) % 5 != 4 else variant + 2
            again, err = core.call_guarded(api_import, sg_df, v2)
            if err is not None:
                ctx.fail("call_raises", "second conversion of the same STOPGAP table object: %s" % err, case, sig)
            else:
                compare_motl(ctx, again, case["back"], g, "C04_Renaming", case, dict(sig, reused=True),
                             "second conversion of the same STOPGAP table object")
                self.unchanged(guard, "second conversion from the STOPGAP table", case, sig)
        return res

    def unchanged(self, guard, what, case, sig):
        why = guard.changed()
        if why is not None:
            self.ctx.fail("C04_ArgumentsUnchanged", "%s changed the caller's table - %s" % (what, why), case, dict(sig, arg=why.split(":")[0]))

    def noise(self, case=None):
        """Unrelated public calls with other options between two calls under test (no state may leak between calls)."""
        from cryocat import cryomotl
        self.nnoise = getattr(self, "nnoise", 0) + 1
        cols = motlutil.empty_rows(3)
        cols["subtomo_id"][:] = [4, 9, 2]
        cols["tomo_id"][:] = 77
        cols["x"][:] = [1.25, 2.5, 3.75]
        cols["shift_x"][:] = [0.4, -0.3, 0.2]
        _, err = core.call_guarded(lambda: (cryomotl.StopgapMotl.convert_to_sg_motl(motlutil.df_from_cols(cols), reset_index=self.nnoise % 2 == 0),
                                            cryomotl.emmotl2stopgap(motlutil.df_from_cols(cols), update_coordinates=True)))
        if err is not None:
            self.ctx.fail("call_raises", "STOPGAP conversions of a small auxiliary list between two calls: %s" % err, case or {"kind": "none"},
                          {"op": "auxiliary"})

    def judge_inmem(self, got, case, g, sig, later):
        ctx = self.ctx
        if later is not None:
            fcase = {"kind": "pair", "U": case["U"], "first": case, "second": later}
            fsig = dict(sig, aliasing=True)
        else:
            fcase, fsig = case, sig
        if case["op"]["name"] == "export":
            compare_sg(ctx, got, case["sg"], g, fcase, fsig, what="" if later is None else
                       "result of an earlier conversion, judged after a later conversion of an equally long list: ",
                       reset=case["op"]["reset"])
        else:
            updated = case["variant"] % 5 == 4
            compare_motl(ctx, got, case["backu"] if updated else case["back"], g, "C04_UpdateCoord" if updated else "C04_Renaming",
                         fcase, fsig, ("list converted from the STOPGAP table" + (" with update_coordinates" if updated else ""))
                         + ("" if later is None else
                                                                     " (earlier result judged after a later conversion)"))

    def gamma_for(self, case):
        rng = __import__("random").Random(case["gseed"])
        return Gamma(rng, ntokens_of(case["pre"]), self.U, case.get("sidk", 0), case.get("flat", 0)), rng

    def run_case(self, case):
        """case: {kind: 'tr', U, pre, op, rows, sg, sgin, back, gseed, variant}"""
        ctx = self.ctx
        g, rng = self.gamma_for(case)
        op = case["op"]
        name = op["name"]
        variant = case["variant"]
        sig = {"op": name, "api": variant % 5 if name == "import" else variant % 3 if name in ("write", "load") else variant % 2}
        if "reset" in op:
            sig["reset"] = op["reset"]
        if "update" in op:
            sig["update"] = op["update"]
        self.n += 1
        ctx.ran(case)
        if name in ("export", "import"):
            got = self.exec_inmem(case, g, rng, sig)
            if got is None:
                return
            self.judge_inmem(got, case, g, sig, later=None)
            # aliasing: an EARLIER result must still be right after a later call on a list of the same length
            key = (name, len(case["pre"]))
            prev = self.pending.get(key)
            if prev is not None:
                pgot, pcase, pg, psig = prev
                self.judge_inmem(pgot, pcase, pg, psig, later=case)
            self.pending[key] = (got, case, g, sig)
        elif name == "load":
            path = os.path.join(ctx.workdir, "sgin_%d.star" % os.getpid())
            independent_sg_file(path, case["sgin"], g, rng)
            res, err = core.call_guarded(api_load, path, variant)
            if err is not None:
                ctx.fail("call_raises", "loading a STOPGAP file: %s" % err, case, sig)
                return
            updated = variant % 3 == 2
            compare_motl(ctx, res, case["backu"] if updated else case["back"], g, "C04_UpdateCoord" if updated else "C04_FileRoundTrip",
                         case, sig, "list loaded from a STOPGAP file" + (" with update_coordinates" if updated else ""), loose=True)
        elif name == "write":
            df = motlutil.vary_index(build_motl_df(case["pre"], g, rng), variant // 2)
            path = os.path.join(ctx.workdir, "sgout_%d_%d.star" % (os.getpid(), self.n))
            hist = case.get("hist")
            guard = argguard.Guard(motl_table=df)
            res, err = core.call_guarded(api_write, df, path, op["update"], op["reset"], variant, hist, g)
            if err is not None:
                ctx.fail("call_raises", "write_out: %s" % err, case, sig)
                return
            self.unchanged(guard, "write_out / emmotl2stopgap", case, sig)
            # the live object after the call holds the (possibly updated) list
            compare_motl(ctx, res, case["rows"], g, "C04_UpdateCoord", case, sig,
                         "list returned by emmotl2stopgap without an output path" if variant % 3 == 2 and not hist else "list held after write_out")
            if variant % 3 == 2 and not hist:
                return
            if not os.path.exists(path):
                ctx.fail("C04_FileWellFormed", "write_out wrote no file", case, sig)
                return
            lines = su.file_lines(path)
            back, lerr = core.call_guarded(api_load, path, (variant // 2) % 2)
            loaded = {"ok": lerr is None, "n": 0, "cols": {f: [] for f in FIELDS14}}
            if lerr is None:
                loaded["n"] = int(back.shape[0])
                for f in FIELDS14:
                    loaded["cols"][f] = [su.canon_of_number(x) for x in back[f].tolist()] if f in back.columns else []
                if DEMO == "corrupt_loaded" and loaded["n"]:
                    loaded["cols"]["psi"], loaded["cols"]["theta"] = loaded["cols"]["theta"], loaded["cols"]["psi"]
            os.remove(path)
            self.traces.append(({"rows": case["pre"], "hist": hist or [], "update": op["update"], "reset": op["reset"],
                                 "sidk": case.get("sidk", 0),
                                 "gamma": g.canon_table(), "spell": spelling(), "lines": lines, "loaded": loaded},
                                case, sig, lerr))
        elif name in ("edit", "reexport"):
            self.run_object_case(case, g, rng, sig)
        else:
            raise core.MachineryError("unknown op %r" % (op,))

    def run_object_case(self, case, g, rng, sig):
        """A list created from STOPGAP form (file or STOPGAP-layout table) is edited; 'edit' judges the edited object,
        'reexport' hands the OBJECT itself on: stopgap2emmotl(obj), StopgapMotl(obj), StopgapMotl(obj).write_out."""
        from cryocat import cryomotl
        ctx = self.ctx
        op = case["op"]
        variant = case["variant"]
        from_file = op["from"] == "loaded"
        sig = dict(sig, kind=op["kind"], created_from="file" if from_file else "table")

        def make_and_edit():
            if from_file:
                path = os.path.join(ctx.workdir, "sgobj_%d.star" % os.getpid())
                independent_sg_file(path, case["sgin"], g, rng)
                obj = cryomotl.StopgapMotl(path)
            else:
                obj = cryomotl.StopgapMotl(motlutil.vary_index(build_sg_df(case["sgin"], g, rng), variant // 3))
            if op["kind"] == "update":
                obj.update_coordinates()
            else:
                newcls = g.val[case["back"][0]["class"]]
                if variant % 2 == 0:
                    obj.df["class"] = newcls
                else:
                    obj.fill({"class": newcls})
            return obj
        obj, err = core.call_guarded(make_and_edit)
        if err is not None:
            ctx.fail("call_raises", "creating / editing a list from STOPGAP form: %s" % err, case, sig)
            return
        if op["name"] == "edit":
            compare_motl(ctx, obj.df, case["back"], g, "C04_EditSurvives", case, sig, "edited list", loose=from_file)
            return
        # the object itself is handed on
        form = variant % 3

        def convert():
            if form == 0:
                return cryomotl.stopgap2emmotl(obj).df
            if form == 1:
                return cryomotl.StopgapMotl(obj).df
            return cryomotl.Motl.load(obj).df
        res, err = core.call_guarded(convert)
        if err is not None:
            ctx.fail("call_raises", "converting the edited object: %s" % err, case, dict(sig, api=form))
            return
        compare_motl(ctx, res, case["back"], g, "C04_EditSurvives", case, dict(sig, api=form),
                     "list obtained from the edited object", loose=from_file)
        path = os.path.join(ctx.workdir, "sgobjout_%d_%d.star" % (os.getpid(), self.n))
        _, err = core.call_guarded(lambda: cryomotl.StopgapMotl(obj).write_out(path, reset_index=op["reset"]))
        if err is not None:
            ctx.fail("call_raises", "StopgapMotl(object).write_out: %s" % err, case, sig)
            return
        lines = su.file_lines(path)
        back, lerr = core.call_guarded(api_load, path, (variant // 2) % 2)
        loaded = {"ok": lerr is None, "n": 0, "cols": {f: [] for f in FIELDS14}}
        if lerr is None:
            loaded["n"] = int(back.shape[0])
            for f in FIELDS14:
                loaded["cols"][f] = [su.canon_of_number(x) for x in back[f].tolist()] if f in back.columns else []
        os.remove(path)
        # the written file must hold the EDITED list (case["back"]); values created from a file are within parser slack of
        # the token reals, which rounding to 6 decimals in the trace absorbs
        self.traces.append(({"rows": case["back"], "hist": [], "update": False, "reset": op["reset"], "sidk": case.get("sidk", 0),
                             "gamma": g.canon_table(), "spell": spelling(), "lines": lines, "loaded": loaded},
                            case, dict(sig, op="reexport_write"), lerr))

    def validate_files(self, name):
        ctx = self.ctx
        if not self.traces:
            return
        wd = ctx.sub(name)
        batch = 400
        for s in range(0, len(self.traces), batch):
            part = self.traces[s:s + batch]
            tpath = os.path.join(wd, "traces_%d.ndjson" % s)
            with open(tpath, "w") as fh:
                for rec, _, _, _ in part:
                    fh.write(json.dumps(rec) + "\n")
            cfgt = "SPECIFICATION TraceSpec\nCONSTANTS\n U = %d\nCONSTRAINT Report\n" % self.U
            res = ctx.tlc("StopgapTrace", cfgt, name="%s_%d" % (name, s), env={"TRACE_FILE": tpath}, workers=1)
            verdicts = {v["tid"]: v for v in res.tagged.get("VERDICT", [])}
            if len(verdicts) != len(part):
                raise core.MachineryError("StopgapTrace returned %d verdicts for %d traces\n%s" % (
                    len(verdicts), len(part), res.stdout[-2000:]))
            for i, (rec, case, sig, lerr) in enumerate(part):
                v = verdicts[i + 1]
                if v["ok"]:
                    continue
                if v["clause"] == "C04_LoadBack":
                    ctx.fail("call_raises", "loading the written file back: %s" % lerr, case, dict(sig, op="load_written"))
                    continue
                head = su.b2s(sum([l + [10] for l in rec["lines"][:24]], []))[:600]
                ctx.fail(v["clause"], "rejected by StopgapTrace at particle %s; file head: %r" % (v.get("particle"), head),
                         case, sig)
            os.remove(tpath)
        self.traces = []


SIDK = [0, 0, 0, 3, 0, 8, 2, 0]          # 10^9-multiples added to the subtomogram numbers (0: small numbers)


FLAT = [0, 0, 1, 0, 2, 0, 3, 4, 0]          # which field group of the list is all-equal / all-zero (see Gamma)


def case_from_tr(tr, U, gseed, variant, pre=None, hist=None, sidk=None, flat=None):
    if flat is None:
        flat = FLAT[(gseed // 3) % len(FLAT)]
        if flat == 1 and any(h["op"] == "remove" for h in (hist or [])):
            flat = 0                            # remove_feature("class", c) needs distinguishable classes
    return {"kind": "tr", "U": U, "hist": hist or [], "flat": flat, "sidk": SIDK[gseed % len(SIDK)] if sidk is None else sidk, "pre": pre if pre is not None else tr["pre"], "op": tr["op"], "rows": tr["rows"],
            "sg": tr["sg"], "sgin": tr["sgin"], "back": tr["back"], "backu": tr["backu"], "gseed": gseed, "variant": variant}


def replay(ctx, case):
    if case.get("kind") == "mixed":
        motlsys.run_mixed(ctx, "sg", [case])
        return
    r = Runner(ctx, case["U"])
    if case["kind"] == "pair":
        r.run_case(case["first"])
        r.run_case(case["second"])
    else:
        r.run_case(case)
    r.validate_files("replay")
    if ctx.states == 0:
        # keep the evidence well-formed for in-memory cases: re-check the small scope of the specification
        ctx.tlc("MC_StopgapConv", cfg(["SPECIFICATION Spec"], 8, emit=False).replace(
            "CONSTANTS", "CONSTANTS\n InitLists <- SmallLists"), name="l1")


# ---- seeded lists ----------------------------------------------------------------------------------
def gen_list(rng, n, U, zero_shifts=None):
    sids = rng.sample(range(1, 20 * n + 50), n)
    k = rng.random()
    if k < 0.15:
        sids = [100000 + i for i in range(n)]          # large consecutive numbers
        if rng.random() < 0.5:
            rng.shuffle(sids)
    elif k < 0.3:
        sids[rng.randrange(n)] = 0                     # the number 0 ...
        if n not in sids:
            sids[rng.randrange(n)] = n                 # ... and the number that equals the length of the list
        if len(set(sids)) != n:
            sids = list(range(n + 1))[:n] if n > 1 else [0]
    if rng.random() < 0.3:
        sids.sort()
    rows = []
    if zero_shifts is None:
        zero_shifts = rng.random() < 0.15      # a whole list with all-zero shifts and non-integer positions (update_coord!)
    for i in range(n):
        p = {"subtomo_id": sids[i]}
        for k, f in enumerate(TOKEN_KINDS):
            p[f] = 7 * i + k + 1
        for ax in ("x", "y", "z"):
            while True:
                pos = rng.randint(-50, 2000) * U + (0 if rng.random() < 0.7 and not zero_shifts else rng.randint(-U // 2, U // 2))
                sh = rng.randint(-6 * U, 6 * U) if rng.random() < 0.8 and not zero_shifts else 0
                frac = (pos + sh) % U
                # exact half-voxel ties of the complete position are C05's subject (either neighbour is acceptable there)
                if (U == 8 and frac != 4) or (U != 8 and abs(frac - U / 2) > 2):
                    break
            p[ax] = pos
            p["shift_" + ax] = sh
        rows.append(p)
    return rows


def gen_hist(rng, classes):
    """0-2 list operations between construction and conversion (load -> clean -> export); at least one particle survives."""
    hist = []
    if rng.random() < 0.45:
        return hist
    live = list(classes)
    for _ in range(rng.randint(1, 2)):
        n = len(live)
        k = rng.random()
        if k < 0.35 and n > 1:
            c = rng.choice(live)
            hist.append({"op": "remove", "cls": c, "idx": []})
            live = [x for x in live if x != c]
            continue
        if k < 0.6:
            idx = sorted(rng.sample(range(1, n + 1), rng.randint(1, n)))
        elif k < 0.9:
            idx = rng.sample(range(1, n + 1), n)
        else:
            idx = rng.sample(range(1, n + 1), rng.randint(1, n))
        hist.append({"op": "select", "cls": 0, "idx": idx})
        live = [live[i - 1] for i in idx]
    return hist


def run_seeded(ctx, U, sizes, tag):
    wd = ctx.sub("cases_%s" % tag)
    path = os.path.join(wd, "cases.ndjson")
    cases = []
    with open(path, "w") as fh:
        for k, n in enumerate(sizes):
            # the first cases of every run: all-zero shifts at non-integer positions, written with update_coord=True
            forced = k < 6
            rows = gen_list(ctx.rng, n, U, zero_shifts=True if forced else None)
            c = {"rows": rows, "path": ctx.rng.choice(["mem", "file", "file", "obj", "fobj"]), "reset": ctx.rng.random() < 0.5,
                 "update": ctx.rng.random() < 0.5, "hist": gen_hist(ctx.rng, [p["class"] for p in rows]),
                 "edit": ctx.rng.choice(["update", "setclass"])}
            if forced:
                c.update({"path": ["file", "fobj", "file"][k % 3], "update": True, "edit": "update"})
            cases.append(c)
            fh.write(json.dumps(c) + "\n")
    res = ctx.tlc("StopgapCases", cfg(["INIT CaseInit", "NEXT CaseNext"], U).replace("CONSTANTS", "CONSTANTS\n InitLists = {}"),
                  name="cases_%s" % tag,
                  env={"CASE_FILE": path}, workers=1)
    trs = res.tagged.get("TR", [])
    want = sum(4 if c["path"] in ("obj", "fobj") else 2 for c in cases)
    if len(trs) != want:
        raise core.MachineryError("StopgapCases emitted %d transitions, expected %d" % (len(trs), want))
    r = Runner(ctx, U)
    rank = {"export": 0, "write": 0, "import": 1, "load": 1, "edit": 2, "reexport": 3}
    for k, tr in enumerate(sorted(trs, key=lambda t: (t["cid"], rank[t["op"]["name"]]))):
        c = cases[tr["cid"] - 1]
        r.run_case(case_from_tr(tr, U, ctx.seed * 100003 + tr["cid"], ctx.seed + tr["cid"] + k, pre=c["rows"],
                                hist=c["hist"] if tr["op"]["name"] in ("export", "write") else None))
    r.validate_files("files_%s" % tag)
    return len(cases)


def run(ctx):
    ctx.rule = ("L2: every transition of the MC_StopgapConv scope (1-2 particles; export(reset) / import / write(update, reset) / "
                "load) sub-sampled by seed, plus seeded lists of 1..300 particles with non-sequential subtomogram numbers on the "
                "1/8 and 1/1000 voxel lattices, value tokens interpreted as distinct random reals; L3: every file written by "
                "write_out / emmotl2stopgap parsed by Star!Parse in TLC and validated with the list loaded back by StopgapTrace. "
                "distinct = distinct (list, operation, API form)")
    ctx.assumptions += [
        "value tokens are interpreted as distinct reals |v| < 1e7 away from 7th-decimal rounding ties (C02's domain)",
        "complete positions are not at exact half-voxel ties (their rounding direction is C05's subject)",
        "only the 14 shared fields are compared after a conversion from STOPGAP form (the other six are not carried)",
        "in-memory results are projected by exact float look-up (tokens) and lattice snapping (1e-9; 1e-6 on the 1/1000 lattice)",
        "files loaded in 'load' transitions are written by the driver's own STOPGAP writer (full-precision spellings)",
    ]
    only = getattr(ctx, "only", None)

    def want(x):
        return not only or x in only

    if want("mc"):
        res = ctx.tlc("MC_StopgapConv", cfg(["SPECIFICATION Spec"], 8).replace("CONSTANTS", "CONSTANTS\n InitLists <- SmallLists"),
                      name="mc", workers=1)
        trs = res.tagged.get("TR", [])
        if not trs:
            raise core.MachineryError("MC_StopgapConv emitted no transition")
        names = {t["op"]["name"] for t in trs}
        if names != {"export", "import", "write", "load", "edit", "reexport"}:
            raise core.MachineryError("coverage hole: operations explored %s" % sorted(names))
        ctx.exhaustive["L1_small"] = True
        keyed = sorted(trs, key=lambda t: core.stable_hash([ctx.seed, t]))
        chosen = keyed[:ctx.pick(750, 9000)]
        ctx.exhaustive["L2_transitions"] = len(chosen) == len(keyed)
        ctx.extra["transitions_emitted"] = len(trs)
        ctx.extra["transitions_replayed"] = len(chosen)
        r = Runner(ctx, 8)
        for i, tr in enumerate(chosen):
            r.run_case(case_from_tr(tr, 8, ctx.seed * 7919 + i, ctx.seed + i))
        r.validate_files("files_mc")
    if want("cases"):
        rng = ctx.rng
        if ctx.quick:
            sizes8 = [rng.randint(1, 12) for _ in range(60)] + [rng.randint(13, 120) for _ in range(10)] + [300, 299]
            sizes1000 = [rng.randint(1, 12) for _ in range(40)] + [rng.randint(13, 120) for _ in range(6)] + [300]
        else:
            sizes8 = [rng.randint(1, 12) for _ in range(1500)] + [rng.randint(13, 300) for _ in range(250)] + [300] * 10
            sizes1000 = [rng.randint(1, 12) for _ in range(1000)] + [rng.randint(13, 300) for _ in range(150)] + [300] * 6
        n = run_seeded(ctx, 8, sizes8, "u8") + run_seeded(ctx, 1000, sizes1000, "u1000")
        ctx.extra["seeded_lists"] = n
    if want("mixed"):
        # composition (DESIGN 9.4): the conversion as one step of mixed histories on one live list - pose operations,
        # set operations, EM / STOPGAP / RELION round trips - judged by MotlSysTrace in scope "sg"
        motlsys.run(ctx, "sg", ctx.pick(120, 2500))
        ctx.extra["mixed_histories"] = ctx.pick(120, 2500)

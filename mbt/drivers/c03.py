"""C03 - RELION <-> cryoCAT conversion preserves each particle's pose and identity.

L1   MC_RelionConv: the clauses of RelionConv.tla over every zxz / ZYZ quarter-turn triple x version x pixel size x
     lattice positions / shifts / origins x plain and named formats.
L2   every explored transition (export, re-import of the exported table, import of an independently given RELION table) and
     seeded lists of up to 300 particles (RelionCases.tla) replayed through RelionMotl(...).create_relion_df,
     emmotl2relion, RelionMotl(relion table), relion2emmotl and compared field by field (rotations as cube elements built
     from the returned angles with the driver's own Euler routines).
L3   RelionTrace.tla: (file) files written by write_out / emmotl2relion parsed by Star!Parse in TLC, angle tokens turned into
     quarter turns and multiplied in Cube, plus the list loaded back; (ids) the half-set numbering predicate; (resid) random
     real-valued lists: integer-scaled residuals of the export / import / round-trip identities, in memory and through a file.
"""
import json
import math
import os
import random as _random

import numpy as np

from .. import argguard, core, geo, motlsys, motlutil, starutil as su

INVS = ["C03_ExportPose", "C03_ImportPose", "C03_Identity", "C03_HalfSets", "C03_RoundTrip", "C03_OriginalEntries"]
U = 8
VERSION = {30: 3.0, 31: 3.1, 40: 4.0}
DEMO = os.environ.get("VERIF_C03_DEMO", "")

RELION_LABELS = ["rlnMicrographName", "rlnImageName", "rlnTomoName", "rlnTomoParticleName", "rlnRandomSubset", "rlnClassNumber",
                 "rlnOriginX", "rlnOriginY", "rlnOriginZ", "rlnOriginXAngst", "rlnOriginYAngst", "rlnOriginZAngst",
                 "rlnCoordinateX", "rlnCoordinateY", "rlnCoordinateZ", "rlnAngleRot", "rlnAngleTilt", "rlnAnglePsi",
                 "data_", "data_particles", "data_optics"]


def cfg(init_lines, emit=True):
    lines = init_lines + ["CONSTANTS", " InitCases = {}", ' EmitMode = "%s"' % ("tr" if emit else "none")]
    lines += ["INVARIANT %s" % i for i in INVS]
    if emit:
        lines.append("ACTION_CONSTRAINT EmitTR")
    return "\n".join(lines) + "\n"


# ---- interpretation ---------------------------------------------------------------------------------
def fmt_strings(f):
    """format record -> (tomo_format, subtomo_format) as cryoCAT takes them."""
    if not f["named"]:
        return "", ""
    tomo = su.b2s(f["tpre"]) + "$" + "x" * f["tpad"] + su.b2s(f["tpost"])
    sub = su.b2s(f["spre"]) + ("$" + "x" * f["spadx"] if f["spadx"] else "") + su.b2s(f["smid"]) + "$" + "y" * f["spady"] \
        + su.b2s(f["spost"])
    return tomo, sub


def angles_of(e, rng):
    """quarter-turn counts -> degrees, shifted by whole turns (angles outside the canonical ranges)."""
    return [90.0 * q + 360.0 * rng.choice([0, 0, 0, -1, 1]) for q in e]


def motl_df_from_parts(parts, rng):
    n = len(parts)
    cols = motlutil.empty_rows(n)
    for f in ("score", "geom1", "geom2", "subtomo_mean", "geom4", "geom5", "geom3"):
        cols[f] = np.array([rng.uniform(0, 1) for _ in range(n)])
    for i, p in enumerate(parts):
        cols["x"][i], cols["y"][i], cols["z"][i] = [v / U for v in p["x"]]
        cols["shift_x"][i], cols["shift_y"][i], cols["shift_z"][i] = [v / U for v in p["s"]]
        cols["phi"][i], cols["theta"][i], cols["psi"][i] = angles_of(p["e"], rng)
        cols["tomo_id"][i], cols["subtomo_id"][i], cols["class"][i] = p["tomo"], p["sid"], p["cls"]
        cols["object_id"][i] = rng.randint(1, 9)
    # the constructors accept the 20 fields in any column order (canonical, reversed, random); expectations are by name
    k = rng.random()
    order = None
    if k >= 0.34:
        order = list(motlutil.FIELDS)
        if k < 0.67:
            order.reverse()
        else:
            rng.shuffle(order)
    return motlutil.df_from_cols(cols, order=order)


def origin_names(v):
    return ["rlnOriginXAngst", "rlnOriginYAngst", "rlnOriginZAngst"] if v >= 31 else ["rlnOriginX", "rlnOriginY", "rlnOriginZ"]


def name_cols(v):
    return ("rlnTomoName", "rlnTomoParticleName") if v >= 40 else ("rlnMicrographName", "rlnImageName")


def relion_df_from_rin(rin, innames, v, px, rng, with_px_column):
    """The independently generated RELION table (never produced by cryoCAT)."""
    import pandas as pd
    tn, pn = name_cols(v)
    data = {}
    for k, c in enumerate(["rlnCoordinateX", "rlnCoordinateY", "rlnCoordinateZ"]):
        data[c] = [r["coord"][k] / U for r in rin]
    ang = [angles_of(r["e"], rng) for r in rin]
    for k, c in enumerate(["rlnAngleRot", "rlnAngleTilt", "rlnAnglePsi"]):
        data[c] = [a[k] for a in ang]
    for k, c in enumerate(origin_names(v)):
        data[c] = [r["origin"][k][0] / r["origin"][k][1] for r in rin]
    if innames:
        data[tn] = [su.b2s(nm[0]) for nm in innames]
        data[pn] = [su.b2s(nm[1]) for nm in innames]
    else:
        data[tn] = [int(r["tomo"]) for r in rin]
        data[pn] = [int(r["sid"]) for r in rin]
    data["rlnRandomSubset"] = [int(r["subset"]) for r in rin]
    data["rlnClassNumber"] = [int(r["cls"]) for r in rin]
    if with_px_column and v < 40:
        data["rlnPixelSize"] = [px] * len(rin)
    order = list(data)
    rng.shuffle(order)
    return pd.DataFrame(data, columns=order)


class FixedOrder(dict):
    """optics groups whose listing order is part of the case (not shuffled by the file writer)"""
    fixed_order = True


def whole_as_int(df, rng, mode):
    """RELION tables whose angle / coordinate / origin columns hold whole numbers are often INTEGER-typed (template-matching
    grids; STAR files printing 30 instead of 30.000000).  mode: 0 as built; 1 all three angle columns; 2 one angle column;
    3 coordinates and origins; 4 every such column."""
    if mode == 0:
        return df
    ang = ["rlnAngleRot", "rlnAngleTilt", "rlnAnglePsi"]
    pos = [c for c in df.columns if c.startswith("rlnCoordinate") or c.startswith("rlnOrigin")]
    cols = {1: ang, 2: [ang[rng.randrange(3)]], 3: pos, 4: ang + pos}[mode]
    out = df.copy()
    for c in cols:
        if c in out.columns:
            vals = out[c].to_numpy(dtype=float)
            if len(vals) and np.all(vals == np.rint(vals)):
                out[c] = vals.astype("int64")
    return out


def independent_relion_file(path, df, v, px, rng, optics, groups=None):
    """groups: {optics group id: pixel size} - a merged list with several optics groups (rows carry rlnOpticsGroup).
    The order of the blocks is free: optics before or after the particles, unrelated blocks before / between / after."""
    blocks = []
    if groups and v >= 31:
        ids = list(groups)                  # the caller fixes the row order of the optics block by the order of this dict
        if rng.random() < 0.5 and not getattr(groups, "fixed_order", False):
            ids.reverse()
        blocks.append("data_optics\n\nloop_\n_rlnOpticsGroup #1\n_rlnOpticsGroupName #2\n_rlnImagePixelSize #3\n"
                      + "".join("%d opticsGroup%d %r\n" % (gid, gid, groups[gid]) for gid in ids))
    elif optics and v >= 31:
        blocks.append("data_optics\n\nloop_\n_rlnOpticsGroup #1\n_rlnOpticsGroupName #2\n_rlnImagePixelSize #3\n1 opticsGroup1 %r\n" % px)
    part = "%s\n\nloop_\n" % ("data_particles" if v >= 31 else "data_")
    part += "".join("_%s #%d\n" % (c, k) for k, c in enumerate(df.columns, 1))
    for row in df.itertuples(index=False):
        part += " " + rng.choice(["  ", "\t", " "]).join(x if isinstance(x, str) else repr(x) for x in row) + "\n"
    blocks.append(part)
    if len(blocks) == 2 and rng.random() < 0.5:
        blocks.reverse()                                   # optics AFTER the particles
    if rng.random() < 0.4:
        # unrelated blocks (their names are neither data_, data_particles nor data_optics)
        for k in range(rng.randint(1, 2)):
            extra = "data_general%s\n\nloop_\n_rlnSomeFlag #1\n_rlnSomeText #2\n%d abc\n" % ("" if k == 0 else "_b", 7 + k)
            blocks.insert(rng.randint(0, len(blocks)), extra)
    with open(path, "w") as fh:
        fh.write("# RELION input written by the C03 driver\n")
        for blk in blocks:
            fh.write("\n" + blk + "\n")


# ---- projection --------------------------------------------------------------------------------------
def snap(v, tol=1e-9):
    if not math.isfinite(float(v)):
        return ("not-finite", repr(v))
    r = float(v) * U
    k = round(r)
    return int(k) if abs(r - k) <= tol * max(1.0, abs(r)) else ("off-lattice", float(v))


def as_int(v):
    try:
        f = float(v)
    except (TypeError, ValueError):
        return ("not-a-number", repr(v))
    if not math.isfinite(f):
        return ("not-finite", repr(v))
    return int(f) if f == int(f) else ("non-integer", f)


def project_relion(rdf, v, named):
    """create_relion_df table -> abstract rows (or a string naming what is missing)."""
    tn, pn = name_cols(v)
    need = ["rlnCoordinateX", "rlnCoordinateY", "rlnCoordinateZ", "rlnAngleRot", "rlnAngleTilt", "rlnAnglePsi",
            "rlnRandomSubset", "rlnClassNumber", tn, pn] + origin_names(v)
    miss = [c for c in need if c not in rdf.columns]
    if miss:
        return "columns missing: %s" % miss
    out = []
    for i in range(rdf.shape[0]):
        row = rdf.iloc[i]
        m = geo.zyz_intrinsic_matrix(float(row["rlnAngleRot"]), float(row["rlnAngleTilt"]), float(row["rlnAnglePsi"]))
        o = [float(row[c]) for c in origin_names(v)]
        rec = {"coord": [snap(row[c]) for c in ("rlnCoordinateX", "rlnCoordinateY", "rlnCoordinateZ")],
               "origin": [[0, 1] if x == 0 else ("non-zero", x) for x in o],
               "M": geo.matrix_to_code(m, 1e-9), "subset": as_int(row["rlnRandomSubset"]), "cls": as_int(row["rlnClassNumber"])}
        if named:
            rec["tomoName"] = su.s2b(str(row[tn]))
            rec["partName"] = su.s2b(str(row[pn]))
        else:
            rec["tomo"] = as_int(row[tn])
            rec["sid"] = as_int(row[pn])
        out.append(rec)
    return out


def project_motl(df):
    out, ids = [], []
    for i in range(df.shape[0]):
        row = df.iloc[i]
        m = geo.zxz_matrix(float(row["phi"]), float(row["theta"]), float(row["psi"]))
        out.append({"x": [snap(row[c]) for c in ("x", "y", "z")], "s": [snap(row[c]) for c in ("shift_x", "shift_y", "shift_z")],
                    "R": geo.matrix_to_code(m, 1e-9), "tomo": as_int(row["tomo_id"]), "cls": as_int(row["class"]),
                    "geom3": as_int(row["geom3"])})
        ids.append(as_int(row["subtomo_id"]))
    return out, ids


def invalid_projection(rows, ids):
    """Names the first projected value that is not an abstract value (off the lattice, not finite, not a cube rotation)."""
    for i, r in enumerate(rows):
        for f, v in r.items():
            vals = v if f in ("x", "s") else [v]
            if f == "R":
                if v is None:
                    return "particle %d: orientation is not a cube rotation" % (i + 1)
                continue
            for w in vals:
                if not isinstance(w, int):
                    return "particle %d field %s: %r" % (i + 1, f, w)
    for i, w in enumerate(ids):
        if not isinstance(w, int):
            return "particle %d subtomo_id: %r" % (i + 1, w)
    return ""


# ---- calls under test ------------------------------------------------------------------------------
def apply_hist(m, hist):
    """The list operations of a case, performed on the live object (they leave non-default row labels behind)."""
    for h in hist or []:
        if h["op"] == "remove":
            m.remove_feature("class", float(h["cls"]))
            continue
        idx = [i - 1 for i in h["idx"]]
        n = m.df.shape[0]
        if idx == sorted(idx) and len(set(idx)) == len(idx):
            mask = np.zeros(n, dtype=bool)
            mask[idx] = True
            m.df = m.df[mask]                                   # a filtered list
        elif sorted(idx) == list(range(n)):
            key = np.empty(n)
            key[idx] = np.arange(n, dtype=float)
            m.df = m.df.assign(score=key).sort_values("score")     # a re-ordered list
        else:
            m.df = m.df.iloc[idx]


SG_NAMES = {"subtomo_id": "subtomo_num", "tomo_id": "tomo_num", "object_id": "object", "x": "orig_x", "y": "orig_y", "z": "orig_z",
            "score": "score", "shift_x": "x_shift", "shift_y": "y_shift", "shift_z": "z_shift", "phi": "phi", "psi": "psi",
            "theta": "the", "class": "class"}


def stopgap_table_of(df):
    """The same particles as a STOPGAP-layout table (the documented renaming of C04; input form of stopgap2relion)."""
    import pandas as pd
    out = pd.DataFrame({sg: df[f].to_numpy() for f, sg in SG_NAMES.items()}, index=df.index)
    out["halfset"] = ["A" if int(s) % 2 == 0 else "B" for s in df["subtomo_id"].tolist()]
    out["motl_idx"] = df["subtomo_id"].to_numpy()
    return out


def api_export(df, v, px, fmt, variant, hist=None):
    from cryocat import cryomotl
    tf, sf = fmt_strings(fmt)
    ver = VERSION[v]
    # non-default options in combination: extra identifier columns asked for (they must not disturb anything else)
    extra = {"add_object_id": True, "add_subunit_id": True} if (variant // 4) % 2 else {}
    form = variant % 4
    if form == 0:
        m = cryomotl.RelionMotl(df, version=ver, pixel_size=px, binning=1.0)
        apply_hist(m, hist)
        return m.create_relion_df(tomo_format=tf, subtomo_format=sf, **extra)
    if form == 1:
        m = cryomotl.RelionMotl(df, binning=1.0)
        apply_hist(m, hist)
        return m.create_relion_df(tomo_format=tf, subtomo_format=sf, version=ver, pixel_size=px, binning=1.0, **extra)
    if form == 2:
        m = cryomotl.emmotl2relion(df, relion_version=ver, pixel_size=px, binning=1.0)
    else:
        m = cryomotl.stopgap2relion(stopgap_table_of(df), relion_version=ver, pixel_size=px, binning=1.0)
    apply_hist(m, hist)
    return m.create_relion_df(tomo_format=tf, subtomo_format=sf, **extra)


def api_import(rdf, v, px, variant, explicit_px=True):
    from cryocat import cryomotl
    ver = VERSION[v]
    pxa = px if explicit_px else None
    if variant % 4 == 3 and (v == 30 or (not explicit_px and "rlnPixelSize" in rdf.columns)):
        # relion2stopgap takes version and pixel size from the table itself
        return cryomotl.relion2stopgap(rdf).df
    if variant % 3 == 0:
        return cryomotl.RelionMotl(rdf, version=ver, pixel_size=pxa, binning=1.0).df
    if variant % 3 == 1:
        return cryomotl.RelionMotl(rdf, pixel_size=pxa).df          # version detected from the labels
    return cryomotl.relion2emmotl(rdf, relion_version=ver, pixel_size=pxa).df


def api_write(df, path, v, px, fmt, optics, variant, hist=None):
    from cryocat import cryomotl
    tf, sf = fmt_strings(fmt)
    ver = VERSION[v]
    if hist:
        m = cryomotl.RelionMotl(df, version=ver, pixel_size=px, binning=1.0) if variant % 2 == 0 else \
            cryomotl.emmotl2relion(df, relion_version=ver, pixel_size=px, binning=1.0)
        apply_hist(m, hist)
        m.write_out(path, write_optics=optics, tomo_format=tf, subtomo_format=sf)
    elif variant % 2 == 0:
        m = cryomotl.RelionMotl(df, version=ver, pixel_size=px, binning=1.0)
        m.write_out(path, write_optics=optics, tomo_format=tf, subtomo_format=sf)
    else:
        cryomotl.emmotl2relion(df, path, tomo_format=tf, subtomo_format=sf, relion_version=ver, pixel_size=px, binning=1.0,
                               write_optics=optics)


def api_load(path, v, px, variant):
    from cryocat import cryomotl
    if variant % 3 == 0:
        return cryomotl.RelionMotl(path).df                          # version, pixel size from the file
    if variant % 3 == 1:
        return cryomotl.RelionMotl(path, version=VERSION[v], pixel_size=px, binning=1.0).df
    return cryomotl.relion2emmotl(path, pixel_size=px).df


def spelling():
    return {c: su.s2b(c) for c in RELION_LABELS}


# ---- exact-domain runner -----------------------------------------------------------------------------
class Runner:
    def __init__(self, ctx):
        self.ctx = ctx
        self.traces = []          # (record, case, sig, note)
        self.pending = {}         # (operation, list length) -> judgement of an earlier result, to be repeated after a later call
        self.n = 0

    def fail(self, clause, detail, case, sig):
        self.ctx.fail(clause, detail, case, sig)

    def unchanged(self, guard, what, case, sig):
        why = guard.changed()
        if why is not None:
            self.fail("C03_ArgumentsUnchanged", "%s changed the caller's table - %s" % (what, why), case, dict(sig, arg=why.split(":")[0]))

    def noise(self, v, case=None):
        """Unrelated public calls with OTHER options between two calls under test (nothing may leak from call to call)."""
        from cryocat import cryomotl
        other = {30: 4.0, 31: 3.0, 40: 3.1}[v]
        cols = motlutil.empty_rows(2)
        cols["subtomo_id"][:] = [11, 4]
        cols["tomo_id"][:] = [8, 9]
        cols["class"][:] = [5, 6]
        cols["x"][:] = [3.5, 1.25]
        cols["shift_x"][:] = [0.25, -0.5]
        cols["theta"][:] = [180.0, 35.0]

        def calls():
            m = cryomotl.RelionMotl(motlutil.df_from_cols(cols), version=other, pixel_size=7.5, binning=1.0)
            tf, sf = ("T$xxxx", "T$xxxx/$yy") if other >= 4.0 else ("T$xxxx.mrc", "T$xxxx_$yy.mrc")
            t = m.create_relion_df(tomo_format=tf, subtomo_format=sf, add_object_id=True)
            cryomotl.RelionMotl(t, version=other, pixel_size=7.5)
            cryomotl.RelionMotl.get_version_specific_names(other)
        _, err = core.call_guarded(calls)
        if err is not None:
            self.fail("call_raises", "RELION conversions of a small auxiliary list between two calls: %s" % err, case or {"kind": "none"},
                      {"op": "auxiliary"})

    def rejudge_later(self, key, case, judge):
        """Aliasing of returned objects: the judgement of the EARLIER result for the same operation and list length is
        repeated now, after a later call; then this call's judgement is parked for the next one."""
        prev = self.pending.get(key)
        if prev is not None:
            pcase, pjudge = prev
            pjudge({"kind": "pair", "first": pcase, "second": case}, " (earlier result judged again after a later call)")
        self.pending[key] = (case, judge)

    def compare_rows(self, got, exp, fields, clause_of, case, sig, what):
        if isinstance(got, str):
            self.fail("C03_Identity", "%s: %s" % (what, got), case, sig)
            return False
        if len(got) != len(exp):
            self.fail("C03_Identity", "%s: %d rows, expected %d" % (what, len(got), len(exp)), case, sig)
            return False
        for i, (g, e) in enumerate(zip(got, exp)):
            for f in fields:
                ev = e[f]
                if isinstance(ev, tuple):
                    ev = list(ev)
                if g.get(f) != ev:
                    shown = su.b2s(g[f]) if f in ("tomoName", "partName") and isinstance(g.get(f), list) else g.get(f)
                    want = su.b2s(ev) if f in ("tomoName", "partName") else ev
                    self.fail(clause_of(f), "%s: row %d field %s = %r, expected %r" % (what, i + 1, f, shown, want),
                              case, dict(sig, field=f))
                    return False
        return True

    def run_case(self, case, do_file):
        """case: {kind:'tr', cs, op, rel, back, innames, gseed, variant, optics}"""
        ctx = self.ctx
        cs, op = case["cs"], case["op"]
        v, px = cs["v"], cs["px"][0] / cs["px"][1]
        rng = _random.Random(case["gseed"])
        variant = case["variant"]
        sig = {"op": op, "version": v, "api": variant % 3, "named": bool(cs["fmt"]["named"])}
        self.n += 1
        ctx.ran(case)
        if op in ("export", "reimport"):
            # the list handed to cryoCAT carries default, permuted or gapped row labels; results are positional
            df = motlutil.vary_index(motl_df_from_parts(cs["parts"], rng), variant // 3)
            guard = argguard.Guard(motl_table=df)
            rdf, err = core.call_guarded(api_export, df, v, px, cs["fmt"], variant, cs.get("hist"))
            if err is not None:
                if op == "export":
                    self.fail("call_raises", "export: %s" % err, case, sig)
                return
            self.unchanged(guard, "the export", case, sig)
            if op == "export":
                named = cs["fmt"]["named"]
                fields = ["coord", "origin", "M", "subset", "cls"] + (["tomoName", "partName"] if named else ["tomo", "sid"])

                def clause_of(f):
                    return "C03_ExportPose" if f in ("coord", "origin", "M") else "C03_HalfSets" if f == "subset" else "C03_Identity"

                def judge(fcase, suffix, rdf=rdf, sig=sig, fields=fields, clause_of=clause_of, named=named, rel=case["rel"]):
                    s2 = dict(sig, aliasing=True) if suffix else sig
                    self.compare_rows(project_relion(rdf, v, named), rel, fields, clause_of, fcase, s2, "exported table" + suffix)
                judge(case, "")
                self.rejudge_later(("export", len(case["rel"])), case, judge)
                if variant % 3 == 0:
                    # the SAME table object exported once more through another entry point, other calls in between
                    self.noise(v, case)
                    again, err2 = core.call_guarded(api_export, df, v, px, cs["fmt"], variant + 1, cs.get("hist"))
                    if err2 is not None:
                        self.fail("call_raises", "second export of the same table object: %s" % err2, case, sig)
                    else:
                        self.compare_rows(project_relion(again, v, named), case["rel"], fields, clause_of, case, dict(sig, reused=True),
                                          "second export of the same table object")
                        self.unchanged(guard, "the second export", case, sig)
                if do_file:
                    self.file_case(case, df, v, px, rng, variant, sig)
                return
            back, err = core.call_guarded(api_import, motlutil.vary_index(rdf, variant // 2), v, px, variant // 3)
            if err is not None:
                self.fail("call_raises", "import of the exported table: %s" % err, case, sig)
                return
            got, ids = project_motl(back)
            ok = self.compare_rows(got, case["back"], ["x", "s", "R", "tomo", "cls", "geom3"],
                                   lambda f: "C03_RoundTrip", case, sig, "list imported from the exported table")
            if ok and invalid_projection([], ids):
                self.fail("C03_HalfSets", "re-imported list: %s" % invalid_projection([], ids), case, sig)
            elif ok:
                subsets = [1 if b["geom3"] % 2 == 1 else 2 for b in case["back"]]       # of the rows that were exported
                self.traces.append(({"kind": "ids", "ids": ids, "subsets": subsets}, case, sig, "re-imported ids %s" % ids[:12]))
        elif op == "import" and cs.get("pxs"):
            self.mixed_px_case(case, cs, v, rng, variant, sig)
        elif op == "import":
            with_px = variant % 2 == 0
            rdf = whole_as_int(relion_df_from_rin(cs["rin"], case["innames"], v, px, rng, with_px), rng, (variant // 3) % 5)
            if variant % 4 == 3:
                # through a file written by the driver's own RELION writer (free block order, whole numbers without decimals);
                # the version is detected from the file in two of the three call forms
                path = os.path.join(ctx.workdir, "rin_%d.star" % os.getpid())
                independent_relion_file(path, rdf, v, px, rng, optics=not with_px)
                back, err = core.call_guarded(api_load, path, v, px, variant // 4 if v == 30 or with_px else 2 * ((variant // 4) % 2))
            else:
                # the SAME table object is imported one to three times through different entry points; every import is
                # judged against the original values and the earlier results must stay valid (the caller's table is input only)
                table = motlutil.vary_index(rdf, variant // 8)
                explicit = not (with_px and v < 40 and variant % 8 < 4)
                guard = argguard.Guard(relion_table=table)
                backs = []
                for rep in range(1 + (variant // 2) % 3):
                    b, err = core.call_guarded(api_import, table, v, px, variant // 4 + rep, explicit_px=explicit)
                    if err is not None:
                        break
                    backs.append(b)
                    if rep == 0:
                        self.noise(v, case)
                if err is None:
                    self.unchanged(guard, "the import", case, sig)
                    exp = case["back"]
                    for rep, b in enumerate(backs):
                        for when in ("", " (judged again after the later imports)") if rep < len(backs) - 1 else ("",):
                            if rep == 0 and when == "":
                                continue                   # the first import is judged below, like every single import
                            what = "import no. %d of the same table object%s" % (rep + 1, when)
                            if not self.compare_rows(project_motl(b)[0], exp, ["x", "s", "R", "tomo", "cls", "geom3"],
                                                     lambda f: "C03_ImportPose" if f in ("x", "s", "R") else "C03_Identity",
                                                     case, dict(sig, repeated=True), what):
                                break
                    back = backs[0]
            if err is not None:
                self.fail("call_raises", "import: %s" % err, case, sig)
                return
            got, ids = project_motl(back)

            def clause_of(f):
                return "C03_ImportPose" if f in ("x", "s", "R") else "C03_Identity"

            def judge(fcase, suffix, back=back, sig=sig, exp=case["back"], clause_of=clause_of):
                s2 = dict(sig, aliasing=True) if suffix else sig
                return self.compare_rows(project_motl(back)[0], exp, ["x", "s", "R", "tomo", "cls", "geom3"], clause_of, fcase, s2,
                                         "imported list" + suffix)
            ok = judge(case, "")
            self.rejudge_later(("import", len(cs["rin"])), case, judge)
            if ok and invalid_projection([], ids):
                self.fail("C03_HalfSets", "imported list: %s" % invalid_projection([], ids), case, sig)
            elif ok:
                self.traces.append(({"kind": "ids", "ids": ids, "subsets": [r["subset"] for r in cs["rin"]]}, case, sig,
                                    "imported ids %s for subsets %s" % (ids[:12], [r["subset"] for r in cs["rin"]][:12])))
        elif op == "listops":
            return                                  # performed on the live object inside the two operations below
        elif op in ("exportorig", "reimportorig"):
            self.orig_case(case, cs, op, v, px, rng, variant, sig)
        else:
            raise core.MachineryError("unknown op %r" % op)

    def mixed_px_case(self, case, cs, v, rng, variant, sig):
        """A merged list: the pixel size varies from particle to particle and is taken from the DATA (never passed): as an
        rlnPixelSize column (table or file) or through several optics groups (file, or optics_data= with a table)."""
        import pandas as pd
        from cryocat import cryomotl
        ctx = self.ctx
        pxs = [p[0] / p[1] for p in cs["pxs"]]
        rdf = relion_df_from_rin(cs["rin"], case["innames"], v, pxs[0], rng, False)
        form = cs.get("force_form") or ["column", "column_file", "optics2", "optics2_table"][variant % 4]
        if v < 31 and form.startswith("optics2"):
            form = "column"                          # 3.0 has no optics block (and no division by the pixel size)
        sig = dict(sig, pxform=form)
        gid = {}
        for p in pxs:
            gid.setdefault(p, len(gid) + 1)
        groups = {g: p for p, g in gid.items()}
        order = cs.get("optics_order")
        if order:
            # forced in every run: optics rows NOT in ascending group order (2 before 1; 3 groups as 2, 3, 1)
            ids = sorted(groups)
            ids = ids[::-1] if order == "desc" else ids[1:] + ids[:1]
            groups = FixedOrder((g, groups[g]) for g in ids)
        if form.startswith("column"):
            rdf["rlnPixelSize"] = pxs
        else:
            rdf["rlnOpticsGroup"] = [gid[p] for p in pxs]
        table = motlutil.vary_index(rdf, variant // 4)

        def call():
            if form == "column":
                return api_import(table, v, pxs[0], variant // 4, explicit_px=False)
            if form == "optics2_table":
                optics = pd.DataFrame({"rlnOpticsGroup": list(groups), "rlnOpticsGroupName": ["g%d" % g for g in groups],
                                       "rlnImagePixelSize": [groups[g] for g in groups]})      # rows in the order of `groups`
                return cryomotl.RelionMotl(table, version=VERSION[v], optics_data=optics).df
            path = os.path.join(ctx.workdir, "rmix_%d.star" % os.getpid())
            independent_relion_file(path, rdf, v, pxs[0], rng, optics=False, groups=groups if form == "optics2" else None)
            if (variant // 4) % 2 == 0:
                return cryomotl.RelionMotl(path).df
            return cryomotl.relion2emmotl(path).df
        back, err = core.call_guarded(call)
        if err is not None:
            self.fail("call_raises", "import of a list with per-particle pixel sizes (%s): %s" % (form, err), case, sig)
            return
        self.compare_rows(project_motl(back)[0], case["back"], ["x", "s", "R", "tomo", "cls", "geom3"],
                          lambda f: "C03_ImportPose" if f in ("x", "s", "R") else "C03_Identity", case, sig,
                          "list imported with per-particle pixel sizes (%s)" % form)

    def orig_case(self, case, cs, op, v, px, rng, variant, sig):
        """import RELION data -> clean / re-order the list -> export with use_original_entries=True (-> import again):
        row j of the export must carry the original names AND the pose of the j-th particle of the list."""
        from cryocat import cryomotl
        ctx = self.ctx
        named = bool(cs["fmt"]["named"])
        with_px = variant % 2 == 0
        table = relion_df_from_rin(cs["rin"], case["innames"], v, px, rng, with_px)
        sig = dict(sig, ops=[h["op"] for h in cs["hist"]])

        def chain():
            if variant % 3 == 2:
                path = os.path.join(ctx.workdir, "rorig_%d.star" % os.getpid())
                independent_relion_file(path, table, v, px, rng, optics=False)
                m = cryomotl.RelionMotl(path, version=VERSION[v], pixel_size=px, binning=1.0)
            else:
                m = cryomotl.RelionMotl(motlutil.vary_index(table, variant // 3), version=VERSION[v], pixel_size=px, binning=1.0)
            apply_hist(m, cs["hist"])
            if op == "exportorig" or variant % 2 == 0:
                return m, m.create_relion_df(use_original_entries=True)
            out = os.path.join(ctx.workdir, "rorig_out_%d.star" % os.getpid())
            m.write_out(out, write_optics=False, use_original_entries=True)
            return m, out
        got, err = core.call_guarded(chain)
        if err is not None:
            self.fail("call_raises", "import / list operations / export with the original entries: %s" % err, case, sig)
            return
        m, exported = got
        if op == "exportorig":
            fields = ["coord", "origin", "M", "subset", "cls"] + (["tomoName", "partName"] if named else ["tomo", "sid"])
            self.compare_rows(project_relion(exported, v, named), case["rel"], fields, lambda f: "C03_OriginalEntries", case, sig,
                              "table exported with the original entries")
            return
        if isinstance(exported, str):
            back, err = core.call_guarded(api_load, exported, v, px, 1)
        else:
            back, err = core.call_guarded(api_import, exported, v, px, variant // 3)
        if err is not None:
            self.fail("call_raises", "import of the table exported with the original entries: %s" % err, case, sig)
            return
        self.compare_rows(project_motl(back)[0], case["back"], ["x", "s", "R", "tomo", "cls", "geom3"],
                          lambda f: "C03_OriginalEntries", case, sig, "list imported from the table exported with the original entries")

    def file_case(self, case, df, v, px, rng, variant, sig):
        ctx = self.ctx
        cs = case["cs"]
        optics = bool(case.get("optics")) and v >= 31        # for 3.0 prepare_optics_data raises by design (scope decision)
        fsig = dict(sig, op="write", optics=optics)
        path = os.path.join(ctx.workdir, "rel_%d_%d.star" % (os.getpid(), self.n))
        _, err = core.call_guarded(api_write, df, path, v, px, cs["fmt"], optics, variant // 3, cs.get("hist"))
        if err is not None:
            self.fail("call_raises", "write_out: %s" % err, case, fsig)
            return
        if not os.path.exists(path):
            self.fail("C03_FileWellFormed", "no file written", case, fsig)
            return
        lines = su.file_lines(path)
        back, lerr = core.call_guarded(api_load, path, v, px, variant // 6)
        loaded = {"ok": lerr is None, "valid": True, "rows": [], "ids": []}
        bad = ""
        if lerr is None:
            loaded["rows"], loaded["ids"] = project_motl(back)
            bad = invalid_projection(loaded["rows"], loaded["ids"])
            if bad:
                loaded.update({"valid": False, "rows": [], "ids": []})
            if DEMO == "corrupt_loaded" and loaded["rows"]:
                loaded["rows"][0]["R"] = [2, 1, 3, 1, -1, 1] if loaded["rows"][0]["R"] != [2, 1, 3, 1, -1, 1] else [1, 2, 3, 1, 1, 1]
        os.remove(path)
        rec = {"kind": "file", "v": v, "fmt": cs["fmt"], "parts": cs["parts"], "hist": cs.get("hist") or [], "optics": optics,
               "lines": lines,
               "spell": spelling(), "loaded": _jsonable(loaded)}
        head = su.b2s(sum([l + [10] for l in lines[:30]], []))[:700]
        self.traces.append((rec, case, fsig, "load error: %s; projection: %s; file head: %r" % (lerr, bad or "ok", head)))

    def validate(self, name):
        ctx = self.ctx
        if not self.traces:
            return
        wd = ctx.sub(name)
        batch = 600
        for s in range(0, len(self.traces), batch):
            part = self.traces[s:s + batch]
            tpath = os.path.join(wd, "traces_%d.ndjson" % s)
            with open(tpath, "w") as fh:
                for rec, _, _, _ in part:
                    fh.write(json.dumps(rec) + "\n")
            res = ctx.tlc("RelionTrace", TRACE_CFG, name="%s_%d" % (name, s), env={"TRACE_FILE": tpath}, workers=1)
            verdicts = {v["tid"]: v for v in res.tagged.get("VERDICT", [])}
            if len(verdicts) != len(part):
                raise core.MachineryError("RelionTrace returned %d verdicts for %d traces\n%s" % (
                    len(verdicts), len(part), res.stdout[-2500:]))
            for i, (rec, case, sig, note) in enumerate(part):
                vd = verdicts[i + 1]
                if vd["ok"]:
                    continue
                if vd["clause"] == "C03_LoadBack":
                    ctx.fail("call_raises", "loading the written file back: %s" % note, case, dict(sig, op="load_written"))
                    continue
                ctx.fail(vd["clause"], "rejected by RelionTrace (%s record, particle %s): %s" % (
                    rec["kind"], vd.get("particle"), note), case, sig)
            os.remove(tpath)
        self.traces = []


TRACE_CFG = ("SPECIFICATION TraceSpec\nCONSTANTS\n PosTol = 10\n RotTol = 10\n FilePosTol = 100\n FileRotTol = 10\n"
             "CONSTRAINT Report\n")


def _jsonable(x):
    if isinstance(x, tuple):
        return [_jsonable(y) for y in x]
    if isinstance(x, list):
        return [_jsonable(y) for y in x]
    if isinstance(x, dict):
        return {k: _jsonable(v) for k, v in x.items()}
    return x


def case_from_tr(tr, cs, gseed, variant, optics):
    return {"kind": "tr", "cs": cs, "op": tr["op"], "rel": tr["rel"], "back": tr["back"], "innames": tr["innames"],
            "gseed": gseed, "variant": variant, "optics": optics}


# ---- seeded exact-domain lists -----------------------------------------------------------------------
FORMATS3 = [("/p/TS_", 3, ".rec", "/s/", 3, "_", 4, "_2.0A.mrc"), ("tomo", 2, ".mrc", "sub/t", 2, "_p", 6, ".mrc"),
            ("/data/run/T", 1, ".mrc:mrc", "/out/Sub/T", 4, "_part", 5, ".mrc"), ("tilt_", 5, "", "x/tilt", 5, "_s", 3, ".em")]
FORMATS4 = [("TS_", 3, "", "TS_", 3, "/", 4, ""), ("run1/Tomo", 4, "", "Tomo", 4, "/", 1, ""), ("t", 2, "", "", 0, "a/", 6, "")]


def gen_fmt(rng, v):
    if rng.random() < 0.3:
        return {"named": False, "tpre": [], "tpad": 0, "tpost": [], "spre": [], "spadx": 0, "smid": [], "spady": 0, "spost": []}
    # < 4.0: the particle number is the second run of digits of the last path component, so the tomogram part precedes it there
    t = rng.choice(FORMATS4 if v >= 40 else FORMATS3)
    return {"named": True, "tpre": su.s2b(t[0]), "tpad": t[1], "tpost": su.s2b(t[2]), "spre": su.s2b(t[3]), "spadx": t[4],
            "smid": su.s2b(t[5]), "spady": t[6], "spost": su.s2b(t[7])}


PX = [(1, 1), (2, 1), (27, 20), (1, 2), (533, 100), (13, 8)]


def gen_case(rng, n):
    v = rng.choice([30, 31, 40])
    px = rng.choice(PX)
    fmt = gen_fmt(rng, v)
    mode = rng.choice(["export", "export", "import", "orig"])
    restart = rng.random() < 0.35                  # per-tomogram restarting subtomogram numbers in the RELION input
    subset_mode = rng.choice([0, 0, 1, 2, 3, 4]) if not restart else rng.choice([1, 1, 2, 3, 4])
    only_subset = rng.choice([1, 2])
    counters = {}
    # a merged list: two or three pixel sizes within one table, taken from the data per particle
    mixed_px = mode == "import" and rng.random() < 0.35
    pxpool = [list(px)] + [list(q) for q in rng.sample([q for q in PX if q != px], rng.randint(1, 2))]
    pxs = []
    sids = rng.sample(range(1, 20 * n + 50), n)
    if rng.random() < 0.25:
        sids = [2 * s for s in sids] if rng.random() < 0.5 else [2 * s + 1 for s in sids]      # a single half-set
    ntomo = rng.randint(1, 6) if rng.random() < 0.5 else min(n, 60)
    tomos = sorted(rng.sample(range(1, 90), ntomo))
    clspool = rng.sample(range(1, 3 * n + 10), n)
    # identifier values: 0, the length of the list, large consecutive numbers (tomogram, subtomogram, class numbers)
    k = rng.random()
    if k < 0.15:
        sids = [100000 + i for i in range(n)]
        if rng.random() < 0.5:
            rng.shuffle(sids)
    elif k < 0.3 and n >= 2:
        sids = [s_ for s_ in sids if s_ not in (0, n)][:n - 2] + [0, n]
        rng.shuffle(sids)
    k = rng.random()
    if k < 0.15:
        tomos = [100000 + i for i in range(ntomo)]
    elif k < 0.3:
        tomos = sorted(set(tomos[:-1] + [0])) if ntomo > 1 else [0]
    if rng.random() < 0.2:
        clspool[rng.randrange(n)] = 0
    # one field group of the whole list all-equal / all-zero while the others are not: 1 class all equal, 2 all angles zero,
    # 3 all shifts / origins zero (positions stay non-integer)
    flat = rng.choice([0, 0, 0, 0, 1, 2, 3, 3])
    rows = []
    for i in range(n):
        e = [0, 0, 0] if flat == 2 else [rng.randint(0, 3), rng.choice([0, 1, 2, 2, 0, 3]), rng.randint(0, 3)]
        pos = [rng.randint(-400, 16000) for _ in range(3)]
        # mostly distinct classes (a permutation of the rows is visible), some repeated (remove_feature hits several rows)
        cls = clspool[0] if flat == 1 else rows[-1]["cls"] if rows and rng.random() < 0.2 else clspool[i]
        base = {"tomo": rng.choice(tomos), "sid": sids[i], "cls": cls, "e": e}
        if mode == "export":
            base.update({"x": pos, "s": [0, 0, 0] if flat == 3 else [rng.randint(-48, 48) for _ in range(3)]})
        else:
            ks = [0, 0, 0] if flat == 3 else [rng.randint(-48, 48) for _ in range(3)]
            pxi = rng.choice(pxpool) if mixed_px else list(px)
            if mixed_px and i < len(pxpool):
                pxi = pxpool[i]                        # every pixel size of the pool occurs (lists of 1 row stay single)
            pxs.append(pxi)
            origin = [[k * pxi[0], U * pxi[1]] if v >= 31 else [k, U] for k in ks]
            base.update({"coord": pos, "origin": origin, "subset": 1 if sids[i] % 2 == 1 else 2})
            if restart:
                # RELION-4 style: the number restarts in every tomogram (not unique over the list)
                counters[base["tomo"]] = counters.get(base["tomo"], 0) + 1
                base["sid"] = counters[base["tomo"]]
            if subset_mode == 1:
                base["subset"] = rng.choice([1, 2])                    # random half-sets, unrelated to the numbers
            elif subset_mode == 2:
                base["subset"] = 1 if i < (n + 1) // 2 else 2          # blocked: first half 1, second half 2
            elif subset_mode == 3:
                base["subset"] = 2 if i < n // 3 + 1 else 1            # blocked, starting with half-set 2
            elif subset_mode == 4:
                base["subset"] = only_subset                           # one half-set only
        rows.append(base)
    c = {"mode": mode, "v": v, "px": list(px), "fmt": fmt}
    if mode == "import" and mixed_px and n >= 2:
        c["pxs"] = pxs
    c["parts" if mode == "export" else "rin"] = rows
    if mode in ("export", "orig"):
        c["hist"] = [h for h in gen_hist(rng, [r["cls"] for r in rows]) if not (flat == 1 and h["op"] == "remove")] if flat != 1 else \
            [h for h in gen_hist(rng, list(range(len(rows)))) if h["op"] != "remove"]
    return c


def gen_hist(rng, classes):
    """0-2 list operations between construction and export (load -> clean -> export); at least one particle survives."""
    hist = []
    if rng.random() < 0.4:
        return hist
    live = list(classes)
    for _ in range(rng.randint(1, 2)):
        n = len(live)
        k = rng.random()
        if k < 0.4 and len(set(live)) > 1:
            c = rng.choice(live)
            hist.append({"op": "remove", "cls": c, "idx": []})
            live = [x for x in live if x != c]
            continue
        if k < 0.65:
            idx = sorted(rng.sample(range(1, n + 1), rng.randint(1, n)))           # df[mask]
        elif k < 0.9:
            idx = rng.sample(range(1, n + 1), n)                                   # sort_values
        else:
            idx = rng.sample(range(1, n + 1), rng.randint(1, n))                   # iloc
        hist.append({"op": "select", "cls": 0, "idx": idx})
        live = [live[i - 1] for i in idx]
    return hist


def forced_optics_cases(rng):
    """In EVERY run, whatever the seed: imports of merged lists whose optics block lists the groups NOT in ascending order
    (2 before 1; three groups as 2, 3, 1) with different pixel sizes, no rlnPixelSize column, no explicit pixel size and
    non-zero Angstrom origins - through a file and through optics_data= with a table, versions 3.1 and 4.0."""
    out = []
    plain = {"named": False, "tpre": [], "tpad": 0, "tpost": [], "spre": [], "spadx": 0, "smid": [], "spady": 0, "spost": []}
    for k, (form, order, ng) in enumerate([("optics2", "desc", 2), ("optics2_table", "desc", 2), ("optics2", "rot", 3),
                                          ("optics2_table", "rot", 3), ("optics2", "desc", 3), ("optics2_table", "desc", 3)]):
        v = [31, 40][k % 2]
        pool = [list(q) for q in rng.sample(PX, ng)]
        n = ng + 2 + k % 2
        rows, pxs = [], []
        for i in range(n):
            pxi = pool[i % ng]
            ks = [rng.choice([-1, 1]) * rng.randint(3, 48) for _ in range(3)]            # non-zero origins
            rows.append({"tomo": 3 + i % 2, "sid": 10 + 3 * i, "cls": 1 + i, "e": [rng.randint(0, 3), rng.randint(0, 3), rng.randint(0, 3)],
                         "coord": [rng.randint(-400, 16000) for _ in range(3)],
                         "origin": [[kk * pxi[0], U * pxi[1]] for kk in ks], "subset": 1 + i % 2})
            pxs.append(pxi)
        out.append({"mode": "import", "v": v, "px": pool[0], "pxs": pxs, "fmt": plain, "rin": rows,
                    "force_form": form, "optics_order": order})
    return out


def run_seeded(ctx, sizes, nfiles):
    wd = ctx.sub("cases")
    path = os.path.join(wd, "cases.ndjson")
    cases = []
    with open(path, "w") as fh:
        for c in forced_optics_cases(ctx.rng):
            cases.append(c)
            fh.write(json.dumps(c) + "\n")
        for n in sizes:
            c = gen_case(ctx.rng, n)
            cases.append(c)
            fh.write(json.dumps(c) + "\n")
    res = ctx.tlc("RelionCases", cfg(["INIT CaseInit", "NEXT Next"]), name="cases", env={"CASE_FILE": path}, workers=1)
    trs = res.tagged.get("TR", [])
    want = sum({"export": 2, "import": 1, "orig": 4}[c["mode"]] for c in cases)
    if len(trs) != want:
        raise core.MachineryError("RelionCases emitted %d transitions, expected %d" % (len(trs), want))
    r = Runner(ctx)
    nf = 0
    for k, tr in enumerate(sorted(trs, key=lambda t: (t["cid"], t["op"]))):
        c = cases[tr["cid"] - 1]
        do_file = tr["op"] == "export" and nf < nfiles
        nf += 1 if do_file else 0
        r.run_case(case_from_tr(tr, c, ctx.seed * 100003 + tr["cid"], ctx.seed + tr["cid"] + k, optics=(k % 2 == 0)), do_file)
    r.validate("seeded")
    return len(cases)


# ---- L3: real-valued lists ------------------------------------------------------------------------------
def rand_angles(rng):
    k = rng.random()
    if k < 0.2:
        theta = rng.choice([0.0, 180.0, -180.0, 360.0])            # gimbal lock
    elif k < 0.3:
        theta = rng.choice([90.0, -90.0, 270.0])
    else:
        theta = rng.uniform(-180, 180) if rng.random() < 0.5 else rng.uniform(0, 180)
    return [rng.uniform(-360, 360) + rng.choice([0, 0, 360, -360]), theta, rng.uniform(-360, 360)]


def gen_float_case(rng, idx, n):
    v = rng.choice([30, 31, 40])
    px = rng.choice([1.0, 2.0, 1.35, 0.5, 5.33, round(rng.uniform(0.4, 12), 3)])
    sids = rng.sample(range(1, 20 * n + 50), n)
    if rng.random() < 0.2:
        base = rng.choice([2 ** 31, 3 * 10 ** 9, 2 ** 40])           # composite subtomogram numbers beyond the int32 range
        sids = [base + s_ for s_ in sids]
    tomos = sorted(rng.sample(range(1, 90), rng.randint(1, 5)))
    parts, rin = [], []
    grid = rng.random() < 0.3          # RELION angles on a template-matching grid: whole numbers, handed over INTEGER-typed
    for i in range(n):
        parts.append({"pos": [round(rng.uniform(-200, 2000), rng.randint(0, 4)) for _ in range(3)],
                      "shift": [rng.uniform(-8, 8) if rng.random() < 0.8 else 0.0 for _ in range(3)],
                      "ang": rand_angles(rng), "tomo": rng.choice(tomos), "sid": sids[i], "cls": rng.randint(1, 9)})
        a = rand_angles(rng)
        if grid:
            a = [float(rng.randrange(-36, 37) * 10), float(rng.choice([0, 30, 60, 90, 120, 150, 180, 35, 5])), float(rng.randrange(-72, 73) * 5)]
        rin.append({"coord": [round(rng.uniform(-200, 2000), 3) for _ in range(3)],
                    "origin": [round(rng.uniform(-30, 30), 4) for _ in range(3)], "ang": [a[0], a[1], a[2]],
                    "tomo": rng.choice(tomos), "sid": sids[i], "subset": 1 if sids[i] % 2 == 1 else 2, "cls": rng.randint(1, 9)})
    fmt = gen_fmt(rng, v)
    return {"kind": "float", "id": idx, "v": v, "px": px, "fmt": fmt, "parts": parts, "rin": rin, "variant": rng.randint(0, 11),
            "optics": rng.random() < 0.5}


def _res(x):
    x = float(x)
    if not math.isfinite(x):
        return 2000000          # a NaN / infinite residual is as bad as it gets
    return int(min(2e6, round(x * 1e7)))


def run_float(ctx, cases, name="resid"):
    import pandas as pd
    traces = []
    for case in cases:
        v, px, variant = case["v"], case["px"], case["variant"]
        sig = {"op": "float", "version": v, "api": variant % 3, "named": bool(case["fmt"]["named"])}
        n = len(case["parts"])
        cols = motlutil.empty_rows(n)
        for i, p in enumerate(case["parts"]):
            cols["x"][i], cols["y"][i], cols["z"][i] = p["pos"]
            cols["shift_x"][i], cols["shift_y"][i], cols["shift_z"][i] = p["shift"]
            cols["phi"][i], cols["theta"][i], cols["psi"][i] = p["ang"]
            cols["tomo_id"][i], cols["subtomo_id"][i], cols["class"][i] = p["tomo"], p["sid"], p["cls"]
        df = motlutil.vary_index(motlutil.df_from_cols(cols), variant)
        comp = np.array([[p["pos"][k] + p["shift"][k] for k in range(3)] for p in case["parts"]])
        Rp = [geo.zxz_matrix(*p["ang"]) for p in case["parts"]]
        ctx.ran(case)
        rec = {"kind": "resid", "rows_ok": True, "export_pos": [], "export_rot": [], "import_pos": [], "import_rot": [],
               "trip_pos": [], "trip_rot": [], "file_pos": [], "file_rot": []}
        # export
        rdf, err = core.call_guarded(api_export, df, v, px, case["fmt"], variant)
        if err is not None:
            ctx.fail("call_raises", "export: %s" % err, case, dict(sig, op="export"))
            continue
        tn, pn = name_cols(v)
        ok = rdf.shape[0] == n
        if ok:
            for i in range(n):
                row = rdf.iloc[i]
                c = np.array([float(row["rlnCoordinateX"]), float(row["rlnCoordinateY"]), float(row["rlnCoordinateZ"])])
                o = np.array([float(row[cn]) for cn in origin_names(v)])
                sc = max(1.0, float(np.max(np.abs(comp[i]))))
                rec["export_pos"].append(_res(max(np.max(np.abs(c - comp[i])) / sc, np.max(np.abs(o)))))
                M = geo.zyz_intrinsic_matrix(float(row["rlnAngleRot"]), float(row["rlnAngleTilt"]), float(row["rlnAnglePsi"]))
                rec["export_rot"].append(_res(np.max(np.abs(M @ Rp[i] - np.eye(3)))))
                p = case["parts"][i]
                ok = ok and float(row["rlnClassNumber"]) == p["cls"] and int(row["rlnRandomSubset"]) == (1 if p["sid"] % 2 else 2)
        # round trip in memory
        back, err = core.call_guarded(api_import, rdf, v, px, variant // 3)
        if err is not None:
            ctx.fail("call_raises", "import of the exported table: %s" % err, case, dict(sig, op="reimport"))
            continue
        ok = ok and back.shape[0] == n
        if back.shape[0] == n:
            bc = back[["x", "y", "z"]].to_numpy(dtype=float) + back[["shift_x", "shift_y", "shift_z"]].to_numpy(dtype=float)
            ba = back[["phi", "theta", "psi"]].to_numpy(dtype=float)
            for i in range(n):
                sc = max(1.0, float(np.max(np.abs(comp[i]))))
                rec["trip_pos"].append(_res(np.max(np.abs(bc[i] - comp[i])) / sc))
                rec["trip_rot"].append(_res(np.max(np.abs(geo.zxz_matrix(*ba[i]) - Rp[i]))))
                p = case["parts"][i]
                ok = ok and float(back["tomo_id"].iloc[i]) == p["tomo"] and float(back["class"].iloc[i]) == p["cls"] \
                    and float(back["geom3"].iloc[i]) == p["sid"]
        # import of an independent RELION table
        rin = case["rin"]
        data = {"rlnCoordinateX": [r["coord"][0] for r in rin], "rlnCoordinateY": [r["coord"][1] for r in rin],
                "rlnCoordinateZ": [r["coord"][2] for r in rin], "rlnAngleRot": [r["ang"][0] for r in rin],
                "rlnAngleTilt": [r["ang"][1] for r in rin], "rlnAnglePsi": [r["ang"][2] for r in rin],
                tn: [r["tomo"] for r in rin], pn: [r["sid"] for r in rin], "rlnRandomSubset": [r["subset"] for r in rin],
                "rlnClassNumber": [r["cls"] for r in rin]}
        for k, cn in enumerate(origin_names(v)):
            data[cn] = [r["origin"][k] for r in rin]
        imp, err = core.call_guarded(api_import, motlutil.vary_index(whole_as_int(pd.DataFrame(data), _random.Random(case["id"]),
                                                                                     (case["id"] % 3) + 1 if variant % 2 else 0),
                                                                        variant // 3), v, px, variant // 2)
        if err is not None:
            ctx.fail("call_raises", "import: %s" % err, case, dict(sig, op="import"))
            continue
        ok = ok and imp.shape[0] == n
        if imp.shape[0] == n:
            ix = imp[["x", "y", "z"]].to_numpy(dtype=float)
            ish = imp[["shift_x", "shift_y", "shift_z"]].to_numpy(dtype=float)
            ia = imp[["phi", "theta", "psi"]].to_numpy(dtype=float)
            for i, r in enumerate(rin):
                want_s = np.array([-(o / px) if v >= 31 else -o for o in r["origin"]])
                sc = max(1.0, float(np.max(np.abs(r["coord"]))))
                rec["import_pos"].append(_res(max(np.max(np.abs(ix[i] - np.array(r["coord"]))) / sc,
                                                  np.max(np.abs(ish[i] - want_s)) / max(1.0, float(np.max(np.abs(want_s)))))))
                M = geo.zyz_intrinsic_matrix(*r["ang"])
                rec["import_rot"].append(_res(np.max(np.abs(geo.zxz_matrix(*ia[i]) @ M - np.eye(3)))))
                ok = ok and float(imp["tomo_id"].iloc[i]) == r["tomo"] and float(imp["class"].iloc[i]) == r["cls"] \
                    and float(imp["geom3"].iloc[i]) == r["sid"]
        # round trip through a file
        optics = case["optics"] and v >= 31
        path = os.path.join(ctx.workdir, "relf_%d.star" % os.getpid())
        _, err = core.call_guarded(api_write, df, path, v, px, case["fmt"], optics, variant // 3)
        if err is not None:
            ctx.fail("call_raises", "write_out: %s" % err, case, dict(sig, op="write", optics=optics))
            continue
        fb, err = core.call_guarded(api_load, path, v, px, variant // 4)
        if err is not None:
            ctx.fail("call_raises", "loading the written file back: %s" % err, case, dict(sig, op="load_written", optics=optics))
            continue
        ok = ok and fb.shape[0] == n
        if fb.shape[0] == n:
            fc = fb[["x", "y", "z"]].to_numpy(dtype=float) + fb[["shift_x", "shift_y", "shift_z"]].to_numpy(dtype=float)
            fa = fb[["phi", "theta", "psi"]].to_numpy(dtype=float)
            for i in range(n):
                sc = max(1.0, float(np.max(np.abs(comp[i]))))
                rec["file_pos"].append(_res(np.max(np.abs(fc[i] - comp[i])) / sc))
                rec["file_rot"].append(_res(np.max(np.abs(geo.zxz_matrix(*fa[i]) - Rp[i]))))
                p = case["parts"][i]
                ok = ok and float(fb["tomo_id"].iloc[i]) == p["tomo"] and float(fb["class"].iloc[i]) == p["cls"] \
                    and float(fb["geom3"].iloc[i]) == p["sid"]
        if os.path.exists(path):
            os.remove(path)
        if DEMO == "corrupt_resid" and rec["export_rot"]:
            rec["export_rot"][0] = 500000
        rec["rows_ok"] = bool(ok)
        traces.append((rec, case, sig, "version %s px %s; worst residuals (1e-7): export %s/%s import %s/%s trip %s/%s file %s/%s" % (
            v, px, max(rec["export_pos"] or [0]), max(rec["export_rot"] or [0]), max(rec["import_pos"] or [0]),
            max(rec["import_rot"] or [0]), max(rec["trip_pos"] or [0]), max(rec["trip_rot"] or [0]),
            max(rec["file_pos"] or [0]), max(rec["file_rot"] or [0]))))
    r = Runner(ctx)
    r.traces = traces
    r.validate(name)


def replay(ctx, case):
    if case.get("kind") == "mixed":
        motlsys.run_mixed(ctx, "relion", [case])
        return
    if case["kind"] == "pair":
        r = Runner(ctx)
        r.run_case(case["first"], do_file=False)
        r.run_case(case["second"], do_file=False)
        r.validate("replay")
        if ctx.states == 0:
            ctx.tlc("MC_RelionConv", cfg(["INIT QuickInit", "NEXT Next"], emit=False), name="l1")
    elif case["kind"] == "tr":
        r = Runner(ctx)
        r.run_case(case, do_file=case["op"] == "export")
        r.validate("replay")
        if ctx.states == 0:
            ctx.tlc("MC_RelionConv", cfg(["INIT QuickInit", "NEXT Next"], emit=False), name="l1")
    elif case["kind"] == "float":
        run_float(ctx, [case], name="replay")
    else:
        raise core.MachineryError("unknown case kind")


def run(ctx):
    ctx.rule = ("L2: every transition of the MC_RelionConv scope (all 64 zxz / ZYZ quarter-turn triples = the 24 cube orientations "
                "in several spellings incl. gimbal lock, versions 3.0/3.1/4.0, pixel sizes 1, 2, 1.35, lattice positions / shifts / "
                "origins of either sign, numeric and named formats, both half-sets) sub-sampled by seed, plus seeded exact-domain "
                "lists of 1..300 particles; files of a sub-sample of the exports parsed and checked in TLC; L3: random real-valued "
                "lists (1..300 particles, arbitrary orientations incl. gimbal lock and out-of-range angles) judged through "
                "integer-scaled residuals. distinct = distinct (case, operation, API form)")
    ctx.assumptions += [
        "binning = 1 throughout; the optics block is requested only for versions >= 3.1 (DESIGN C03 scope decisions)",
        "projection: own Euler->matrix routines (zxz extrinsic, ZYZ intrinsic), cube snap at 1e-9, lattice snap at 1e-9",
        "residual tolerances: 1e-6 (relative position, rotation max-norm) in memory; 1e-5 position / 1e-6 rotation through a file",
        "imported subtomogram numbers are judged by the predicate IdsOK (distinct; odd <=> half-set 1 when both half-sets are "
        "present) and geom3 = the number in the name; RELION inputs carry half-sets consistent with the parity of their numbers",
        "name formats follow the property's patterns: one $x.. run per name, the particle number the second run of digits of the "
        "last path component (< 4.0) or the whole last component (4.0)",
    ]
    only = getattr(ctx, "only", None)

    def want(x):
        return not only or x in only

    if want("mc"):
        res = ctx.tlc("MC_RelionConv", cfg(["INIT %s" % ctx.pick("QuickInit", "FullInit"), "NEXT Next"]), name="mc", workers=1)
        trs = res.tagged.get("TR", [])
        ops = {t["op"] for t in trs}
        if ops != {"export", "reimport", "import", "listops", "exportorig", "reimportorig"}:
            raise core.MachineryError("coverage hole: operations explored %s" % sorted(ops))
        ctx.exhaustive["L1_scope"] = True
        # a re-import transition does not carry the case: index the export transitions by their case
        keyed = sorted(trs, key=lambda t: core.stable_hash([ctx.seed, t["cs"], t["op"]]))
        chosen = keyed[:ctx.pick(550, 24000)]
        ctx.exhaustive["L2_transitions"] = len(chosen) == len(keyed)
        ctx.extra["transitions_emitted"] = len(trs)
        ctx.extra["transitions_replayed"] = len(chosen)
        r = Runner(ctx)
        nfile = ctx.pick(100, 2500)
        nf = 0
        for i, tr in enumerate(chosen):
            do_file = tr["op"] == "export" and nf < nfile
            nf += 1 if do_file else 0
            r.run_case(case_from_tr(tr, tr["cs"], ctx.seed * 7919 + i, ctx.seed + i, optics=(i % 2 == 0)), do_file)
        r.validate("mc_traces")
        ctx.extra["files_validated"] = nf
    if want("cases"):
        rng = ctx.rng
        if ctx.quick:
            sizes = [rng.randint(1, 10) for _ in range(60)] + [rng.randint(11, 100) for _ in range(8)] + [300, 300]
            nfiles = 30
        else:
            sizes = [rng.randint(1, 10) for _ in range(1000)] + [rng.randint(11, 300) for _ in range(120)] + [300] * 8
            nfiles = 350
        ctx.extra["seeded_lists"] = run_seeded(ctx, sizes, nfiles)
    if want("float"):
        rng = ctx.rng
        if ctx.quick:
            sizes = [rng.randint(1, 8) for _ in range(55)] + [rng.randint(9, 80) for _ in range(6)] + [300]
        else:
            sizes = [rng.randint(1, 8) for _ in range(1000)] + [rng.randint(9, 300) for _ in range(90)] + [300] * 6
        cases = [gen_float_case(rng, i + 1, n) for i, n in enumerate(sizes)]
        for s in range(0, len(cases), 400):
            run_float(ctx, cases[s:s + 400], name="resid%d" % s)
        ctx.extra["real_valued_lists"] = len(cases)
    if want("mixed"):
        # composition (DESIGN 9.4): the conversion as one step of mixed histories on one live list - pose operations,
        # set operations, EM / STOPGAP / RELION round trips - judged by MotlSysTrace in scope "relion"
        motlsys.run(ctx, "relion", ctx.pick(120, 2500))
        ctx.extra["mixed_histories"] = ctx.pick(120, 2500)

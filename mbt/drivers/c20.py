"""C20 - membrane thickness pairs.

L1  Thickness.tla: the Greedy algorithm model is model-checked against the result predicate ValidPairs for every
    admissibility relation and every strict distance order on small point sets (and shown to lose the guarantee when
    the per-source cap binds).
L2  GeoSpec (Thickness.tla + MC_Thickness.tla): TLC computes admissible pairs, greedy pairing and squared distances of
    small lattice double sheets (all positions / normals / labellings / directions / rigid motions of the scope); the
    driver renders each input to arrays, calls memthick.measure_thickness_cpu and compares with what TLC emitted.
L3  random real-valued double sheets: the driver logs brute-force relations (admissible pairs with the TANGENT
    criterion, strict distance ranks, per-pair geometric flags) and the returned arrays of measure_thickness_cpu (base,
    after a rigid motion, after a voxel rescale, other direction, masks exchanged) and of the numba kernel
    find_matches_parallel; ThicknessTrace.tla evaluates ValidPairs and the laws and names the failing clause.
"""
import contextlib
import io
import json
import math
import os
import random

import numpy as np

from .. import argguard, core, geo

INVS_ABS = ["TypeOK", "C20_GreedyValid", "C20_GreedyPrefixValid", "C20_GreedyIsFunctionOfOrder"]
INVS_GEO = ["TypeOK", "C20_GreedyPrefixValid", "C20_GreedyIsFunctionOfOrder", "C20_GeoMotionInvariant",
            "C20_GeoDirectionSwaps", "C20_GeoRoles", "C20_GeoValid"]
REL = 1e-6          # near-tie margin (relative)
SCALE = 1e5         # thickness / distance scale of the trace (TLC integers)


def cfg_abs(nsrc, ntgt, cap, invs=INVS_ABS):
    lines = ["SPECIFICATION GreedySpec", "CONSTANTS",
             " Src = {%s}" % ", ".join("s%d" % i for i in range(1, nsrc + 1)),
             " Tgt = {%s}" % ", ".join("t%d" % i for i in range(1, ntgt + 1)),
             " Cap = %d" % cap, ' Tier = "none"', " Inputs <- NoInputs"]
    lines += ["INVARIANT %s" % i for i in invs]
    return "\n".join(lines) + "\n"


def cfg_geo(tier):
    lines = ["SPECIFICATION GeoSpec", "CONSTANTS", " Src = {s1}", " Tgt = {t1}", " Cap = 99",
             ' Tier = "%s"' % tier, " Inputs <- GeoInputs"]
    lines += ["INVARIANT %s" % i for i in INVS_GEO]
    lines += ["CONSTRAINT EmitGeo"]
    return "\n".join(lines) + "\n"


# ---- the calls under test ---------------------------------------------------------------------------------------
FORMS = ["plain", "fortran", "view", "readonly", "f32", "plain"]


def present(arr, form):
    """The same values in another storage form (what a caller may legitimately hold): Fortran order, a non-contiguous
    view into a wider array, a read-only array, single precision (the case's values are float32-exact then)."""
    a = np.asarray(arr)
    if form == "fortran" and a.ndim == 2:
        return np.asfortranarray(a)
    if form == "view":
        if a.ndim == 2:
            wide = np.zeros((a.shape[0], a.shape[1] + 2), dtype=a.dtype)
            wide[:, 1:-1] = a
            return wide[:, 1:-1]
        wide = np.zeros(2 * a.shape[0], dtype=a.dtype)
        wide[::2] = a
        return wide[::2]
    if form == "readonly":
        b = a.copy()
        b.setflags(write=False)
        return b
    if form == "f32" and a.dtype.kind == "f":
        return a.astype(np.float32)
    return a


def call_measure(points, normals, m1, m2, voxel, max_nm, max_deg, direction, opts=0):
    """opts bit 0: num_threads given; bit 1: a logger instead of print; bit 2: integer-valued scalars as Python ints."""
    import logging
    from cryocat import memthick
    kw = {}
    if opts & 1:
        kw["num_threads"] = 2
    if opts & 2:
        lg = logging.getLogger("c20-null")
        lg.addHandler(logging.NullHandler())
        lg.propagate = False
        kw["logger"] = lg
    if opts & 4:
        voxel = int(voxel) if float(voxel).is_integer() else voxel
        max_deg = int(max_deg) if float(max_deg).is_integer() else max_deg
    with contextlib.redirect_stdout(io.StringIO()):
        # the caller's own arrays are handed over (not copies) and re-used by the following calls: an implementation
        # that modifies its arguments, or keeps state between calls, shows up in the later calls of the same sheet
        return memthick.measure_thickness_cpu(points, normals, m1, m2, voxel, max_thickness_nm=max_nm,
                                              max_angle_degrees=max_deg, direction=direction, **kw)


def call_kernel(points, normals, m1, m2, voxel, max_nm, max_deg, direction, width):
    """find_matches_parallel as the GPU/numba pipeline drives it: masks by direction, cosine of the angle."""
    from cryocat import memthick
    src, tgt = (m1, m2) if direction == "1to2" else (m2, m1)
    n = len(points)
    md = np.zeros((n, width), dtype=np.float64)
    mi = np.full((n, width), -1, dtype=np.int64)
    mc = np.zeros(n, dtype=np.int64)
    memthick.find_matches_parallel(np.ascontiguousarray(points, dtype=np.float64),
                                   np.ascontiguousarray(normals, dtype=np.float64),
                                   src, tgt, np.where(tgt)[0].astype(np.int64),
                                   float(max_nm / voxel), float(np.cos(np.radians(max_deg))), md, mi, mc)
    return md, mi, mc


# ---- L2: lattice inputs computed by TLC --------------------------------------------------------------------------
def geo_arrays(rec):
    pts = np.array([q["p"] for q in rec["pts"]], dtype=float)
    nrm = np.array([q["n"] for q in rec["pts"]], dtype=float)
    nrm = nrm / np.linalg.norm(nrm, axis=1, keepdims=True)
    surf = np.array([q["surf"] for q in rec["pts"]])
    vox = rec["vox"][0] / rec["vox"][1]
    max_nm = math.sqrt(rec["max2"][0] / rec["max2"][1]) * vox
    return pts, nrm, surf == 1, surf == 2, vox, max_nm


def replay_geo(ctx, rec):
    case = {"kind": "geo", "rec": rec}
    sig = {"op": "measure_thickness_cpu", "layer": "L2", "dir": rec["dir"]}
    pts, nrm, m1, m2, vox, max_nm = geo_arrays(rec)
    form = ["plain", "fortran", "view", "readonly"][int(core.stable_hash(rec), 16) % 4]
    sig["form"] = form
    pts, nrm, m1, m2 = present(pts, form), present(nrm, form), present(m1, form), present(m2, form)
    guard = argguard.Guard(points=pts, normals=nrm, surface1_mask=m1, surface2_mask=m2)
    res, err = core.call_guarded(call_measure, pts, nrm, m1, m2, vox, max_nm, float(rec["deg"]), rec["dir"],
                                 int(core.stable_hash(rec), 16) // 4 % 8)
    why = guard.changed() if err is None else None
    if why:
        ctx.ran(case)
        ctx.fail("C20_ArgumentsUnchanged", "the call changed its argument (%s)" % why, case, sig)
        return
    ctx.ran(case, nontrivial=rec["nadm"] >= 2)
    if err is not None:
        ctx.fail("call_raises", err, case, sig)
        return
    th, vm, pp = res
    n = len(pts)
    if len(th) != n or len(vm) != n or len(pp) != n:
        ctx.fail("C20_ResultShape", "result lengths %d/%d/%d for %d points" % (len(th), len(vm), len(pp), n), case, sig)
        return
    got = sorted([i + 1, int(pp[i]) + 1] for i in range(n) if vm[i])
    exp = sorted([p[0], p[1]] for p in rec["pairs"])
    if got != exp:
        ctx.fail("C20_GeoPairs", "pairs %s, specification computes %s" % (got, exp), case, sig)
        return
    for s, t, d2 in rec["pairs"]:
        want = math.sqrt(d2) * vox
        if abs(float(th[s - 1]) - want) > 1e-5 * want:
            ctx.fail("C20_ThicknessIsDistance", "source %d: thickness %r, specification: sqrt(%d) * %g = %r" % (
                s, float(th[s - 1]), d2, vox, want), case, sig)
            return


# ---- L3: random real-valued double sheets ------------------------------------------------------------------------
def unit(v):
    return v / np.linalg.norm(v, axis=-1, keepdims=True)


def tilt_vectors(rs, base, sigma_deg):
    """Unit vectors at a random small angle (|N(0, sigma)| degrees) from base, random azimuth."""
    n = len(base)
    ang = np.radians(np.abs(rs.normal(0.0, sigma_deg, n)))
    helper = np.where(np.abs(base[:, [0]]) < 0.9, np.array([[1.0, 0, 0]]), np.array([[0, 1.0, 0]]))
    e1 = unit(np.cross(base, helper))
    e2 = np.cross(base, e1)
    az = rs.uniform(0, 2 * np.pi, n)
    return unit(np.cos(ang)[:, None] * base + np.sin(ang)[:, None] * (np.cos(az)[:, None] * e1 + np.sin(az)[:, None] * e2))


def gen_sheet_case(rng, idx, nmax):
    """Parameters of one double sheet (everything else is derived deterministically from them)."""
    r = rng.random()
    n = rng.randint(20, 60) if r < 0.5 else (rng.randint(60, nmax) if r < 0.9 else nmax)
    deg = float(rng.randint(1, 30)) if rng.random() < 0.5 else round(rng.uniform(1.0, 30.0), 3)
    case = {"kind": "sheet", "id": idx, "n": n, "npseed": rng.randrange(2 ** 31),
            "shape": rng.choice(["flat", "tilted", "curved", "saddle"]),
            # sheet separation in voxel units: below one voxel, about one voxel, a few voxels, many voxels
            "h": rng.choice([0.27, 0.6, 0.93, 1.04, 1.6, round(rng.uniform(3.0, 9.0), 3), round(rng.uniform(3.0, 9.0), 3),
                             round(rng.uniform(3.0, 9.0), 3), 41.5]), "deg": deg,
            "lam": rng.choice([0.5, 1.5, 3.0, 5.0, 9.0]),
            "maxf": rng.choice([0.97, 1.08, 1.2, 1.5, 1.8]),
            "voxel": rng.choice([1.0, 0.5, 1.35, 2.62, round(rng.uniform(0.3, 4.0), 4)]),
            "dir": rng.choice(["1to2", "2to1"]),
            "noise": rng.choice([0.0, 0.5, 2.0, 5.0]),
            "jitter": rng.choice([0.0, 0.02, 0.08]),
            "wrong": rng.choice([0.0, 0.05, 0.2]),
            "unlabelled": rng.choice([0, 0, 3]),
            "factor": rng.choice([2.0, 0.5, 1.7, 10.0, round(rng.uniform(0.2, 5.0), 3)]),
            "form": FORMS[idx % len(FORMS)], "opts": rng.randrange(8), "kernel_first": rng.random() < 0.5}
    if case["form"] == "f32" and case["h"] < 3:
        case["h"] = round(rng.uniform(3.0, 9.0), 3)            # single precision cannot resolve sub-voxel sheets far from the origin
    return case


def rng_top(case):
    """A size in the top quarter of the range, derived from the case's own seed."""
    return 450 + case["npseed"] % 151


def build_sheet(case):
    rs = np.random.RandomState(case["npseed"])
    n, h, deg = case["n"], case["h"], case["deg"]
    n0 = case["unlabelled"]
    n1 = int(round((n - n0) * case.get("frac1", 0.5))) + int(rs.randint(-2, 3))     # uneven labelling when frac1 != 0.5
    n1 = max(3, min(n - n0 - 3, n1))
    if case.get("n1_exact"):
        n1 = case["n1_exact"]                                  # block boundaries (256 / 257 sources), a single source
    n2 = n - n0 - n1
    rc = h * math.tan(math.radians(deg))                        # cone radius at the other sheet
    L = rc * math.sqrt(math.pi * max(n1, n2) / case["lam"])     # ~lam candidates per source
    shape = case["shape"]
    a, b, c = rs.uniform(-0.3, 0.3, 3)

    def surface(uv):
        u, v = uv[:, 0] - L / 2, uv[:, 1] - L / 2
        if shape == "flat":
            g, gu, gv = 0 * u, 0 * u, 0 * u
        elif shape == "tilted":
            g, gu, gv = a * u + b * v, a + 0 * u, b + 0 * u
        elif shape == "curved":
            g, gu, gv = c * (u * u + v * v) / L, 2 * c * u / L, 2 * c * v / L
        else:
            g, gu, gv = c * (u * u - v * v) / L, 2 * c * u / L, -2 * c * v / L
        m = unit(np.stack([-gu, -gv, np.ones_like(u)], axis=1))
        return np.stack([uv[:, 0], uv[:, 1], g], axis=1), m

    p1, m1 = surface(rs.uniform(0, L, (n1, 2)))
    q2, m2 = surface(rs.uniform(0, L, (n2, 2)))
    p2 = q2 + h * m2
    jit = case["jitter"] * h
    p1 = p1 + m1 * rs.normal(0, jit, (n1, 1)) if jit else p1
    p2 = p2 + m2 * rs.normal(0, jit, (n2, 1)) if jit else p2
    nrm1 = tilt_vectors(rs, m1, case["noise"]) if case["noise"] else m1
    nrm2 = tilt_vectors(rs, -m2, case["noise"]) if case["noise"] else -m2
    if case["wrong"]:
        nrm1 = np.where(rs.random_sample((n1, 1)) < case["wrong"], -nrm1, nrm1)
        nrm2 = np.where(rs.random_sample((n2, 1)) < case["wrong"], -nrm2, nrm2)
    p0 = np.stack([rs.uniform(0, L, n0), rs.uniform(0, L, n0), rs.uniform(0, h, n0)], axis=1) if n0 else np.zeros((0, 3))
    nrm0 = unit(rs.normal(0, 1, (n0, 3))) if n0 else np.zeros((0, 3))
    pts = np.vstack([p1, p2, p0])
    nrm = np.vstack([nrm1, nrm2, nrm0])
    surf = np.array([1] * n1 + [2] * n2 + [0] * n0)
    perm = rs.permutation(n)                                     # arbitrary surface labelling: arbitrary index sets
    pts, nrm, surf = pts[perm], unit(nrm[perm]), surf[perm]
    # a global tilt so that the sheets are not axis aligned
    Q = geo.random_rotation_matrix(random.Random(case["npseed"] + 1))
    off = rs.uniform(-50, 200, 3)
    if case.get("far"):
        # a sheet posed far from the origin (ordinary tomogram coordinates, a large montage, a 1e6-voxel translation):
        # double precision keeps thickness and pairing there, single precision inside the call does not
        off = np.array([1.0, 1.2256, 0.3585]) * case["far"]
    pts = pts @ Q.T + off
    nrm = nrm @ Q.T
    if case.get("coincide"):
        # special value: a point of surface 2 placed exactly on a point of surface 1 (distance 0: never ahead)
        i1, i2 = np.where(surf == 1)[0], np.where(surf == 2)[0]
        pts[i2[0]] = pts[i1[0]]
    Q2 = geo.random_rotation_matrix(random.Random(case["npseed"] + 2))
    off2 = rs.uniform(-300, 300, 3)
    if case.get("far"):
        off2 = np.array([-0.61, 0.27, 1.0]) * case["far"] * 1.7      # the rigid motion moves it far away again
    if case.get("form") == "f32":
        # single-precision inputs: the case IS the float32 values (relations are computed from exactly these)
        pts = pts.astype(np.float32).astype(np.float64)
        nrm = nrm.astype(np.float32).astype(np.float64)
    return {"pts": pts, "nrm": nrm, "surf": surf, "max_vox": h * case["maxf"], "Q": Q2, "t": off2}


def relation(pts, nrm, surf, direction, max_vox, deg, REL=REL):
    """Brute force over all (source, target) pairs, TANGENT criterion.  Returns None when some pair is a near tie,
    else dict with sorted admissible list [(s, t, dist)] (0-based), the full distance matrix pieces for flags."""
    sl, tl = (1, 2) if direction == "1to2" else (2, 1)
    S = np.where(surf == sl)[0]
    Tt = np.where(surf == tl)[0]
    if len(S) == 0 or len(Tt) == 0:
        return {"adm": [], "S": S, "T": Tt}
    D = pts[Tt][None, :, :] - pts[S][:, None, :]
    dist = np.sqrt((D ** 2).sum(axis=2))
    proj = (D * nrm[S][:, None, :]).sum(axis=2)
    lat = np.sqrt(((D - proj[:, :, None] * nrm[S][:, None, :]) ** 2).sum(axis=2))
    tan = math.tan(math.radians(deg))
    inrange = dist <= max_vox
    fwd = proj > 0
    cone = lat < tan * proj
    # near ties: on the range boundary; on the cone boundary or the forward boundary for pairs in range
    if np.any(np.abs(dist - max_vox) < REL * max_vox):
        return None
    if np.any(inrange & (np.abs(lat - tan * proj) < REL * dist)):
        return None
    if np.any(inrange & (np.abs(proj) < REL * dist)):
        return None
    if np.any((dist < 1e-9) & (dist > 0)):
        return None                                            # (exactly coincident points are a decided case: not ahead)
    ok = inrange & fwd & cone
    ii, jj = np.where(ok)
    adm = sorted((float(dist[i, j]), int(S[i]), int(Tt[j])) for i, j in zip(ii, jj))
    # strict distance order wherever it matters: two admissible pairs that share a source or a target
    for key in (1, 2):
        by = sorted(adm, key=lambda a: (a[key], a[0]))
        for k in range(1, len(by)):
            if by[k][key] == by[k - 1][key] and by[k][0] - by[k - 1][0] < REL * by[k][0]:
                return None
    rows = np.bincount(ii, minlength=len(S)) if len(ii) else np.zeros(len(S), dtype=int)
    return {"adm": [(s, t, d) for d, s, t in adm], "maxrow": int(rows.max()) if len(rows) else 0}


def pair_flags(pts, nrm, s, t, max_vox, deg):
    d = pts[t] - pts[s]
    dist = float(np.sqrt((d ** 2).sum()))
    proj = float((d * nrm[s]).sum())
    lat = float(np.sqrt(((d - proj * nrm[s]) ** 2).sum()))
    return dist, bool(proj > 0), bool(dist <= max_vox), bool(proj > 0 and lat < math.tan(math.radians(deg)) * proj)


def measurement_event(kind, direction, res, n, pts, nrm, rank, max_vox, deg, voxel, max_nm, ref=0, refthick=None):
    th, vm, pp = res
    ev = {"kind": kind, "dir": direction, "ref": ref, "lens": [int(len(th)), int(len(vm)), int(len(pp))],
          "maxs": int(round(max_nm * SCALE)), "out": []}
    if ev["lens"] != [n, n, n]:
        return ev
    for i in np.where(np.asarray(vm, dtype=bool))[0]:
        t = int(pp[i])
        if t < 0 or t >= n:
            ev["lens"] = [-1, -1, -1]        # a partner index outside the point set: judged as a malformed result
            ev["out"] = []
            return ev
        dist, fw, rg, cn = pair_flags(pts, nrm, int(i), t, max_vox, deg)
        o = {"s": int(i) + 1, "t": t + 1, "r": rank.get((int(i), t), 0),
             "got": int(round(float(th[i]) * SCALE)), "exp": int(round(dist * voxel * SCALE)),
             "fw": fw, "rg": rg, "cn": cn, "ref": 0}
        if refthick is not None:
            o["ref"] = int(round(refthick[i] * SCALE))
        ev["out"].append(o)
    return ev


def prepare_sheet(ctx, case):
    """Build the sheet and its brute-force relations; None (and a counted discard) when the case is outside the
    property's quantifier (near tie, 25 or more candidates)."""
    b = build_sheet(case)
    pts, nrm, surf = b["pts"], b["nrm"], b["surf"]
    deg, d0, max_vox = case["deg"], case["dir"], b["max_vox"]
    tol = 2e-5 if case.get("form") == "f32" else REL          # single-precision arithmetic inside the call
    rel = {d: relation(pts, nrm, surf, d, max_vox, deg, tol) for d in ("1to2", "2to1")}
    if rel["1to2"] is None or rel["2to1"] is None:
        ctx.discard("near tie (range / cone / forward boundary, or equal distances of two pairs sharing a point)")
        return None
    if max(rel[d].get("maxrow", 0) for d in rel) >= 25:
        ctx.discard("25 or more candidates for some source point")
        return None
    pm = pts @ b["Q"].T + b["t"]
    nm = nrm @ b["Q"].T
    if case.get("form") == "f32":
        pm, nm = pm.astype(np.float32).astype(np.float64), nm.astype(np.float32).astype(np.float64)
    relm = relation(pm, nm, surf, d0, max_vox, deg, tol)
    if relm is None or sorted((s, t) for s, t, _ in relm["adm"]) != sorted((s, t) for s, t, _ in rel[d0]["adm"]):
        ctx.discard("relation not stable under the rigid motion (near tie)")
        return None
    return b, rel, pm, nm


def run_sheets(ctx, cases, corrupt=None, retry=True):
    """Execute the calls of every case, write the traces, let ThicknessTrace.tla decide."""
    traces, kept = [], []
    for case in cases:
        prepared = None
        for attempt in range(8 if retry else 1):
            prepared = prepare_sheet(ctx, case)
            if prepared is not None:
                break
            # a near tie: the same parameters with fresh random points (replayed cases are never re-drawn)
            case = dict(case, npseed=(case["npseed"] + 7919) % (2 ** 31))
        if prepared is None:
            continue
        b, rel, pm, nm = prepared
        pts, nrm, surf = b["pts"], b["nrm"], b["surf"]
        n = len(pts)
        deg, voxel, d0 = case["deg"], case["voxel"], case["dir"]
        d1 = "2to1" if d0 == "1to2" else "1to2"
        max_vox = b["max_vox"]
        max_nm = max_vox * voxel
        rank = {d: {(s, t): k + 1 for k, (s, t, _) in enumerate(rel[d]["adm"])} for d in rel}
        form = case.get("form", "plain")
        opts = case.get("opts", 0)
        # the caller's arrays in the case's storage form; the SAME objects go into every call of the sheet
        A_pts, A_nrm = present(pts, form), present(nrm, form)
        A_pm, A_nm = present(pm, form), present(nm, form)
        mform = form if form in ("view", "readonly") else "plain"
        m1, m2 = present(surf == 1, mform), present(surf == 2, mform)
        f = case["factor"]
        sig = {"op": "measure_thickness_cpu", "layer": "L3", "form": form}
        events = []
        calls = [("base", d0, (A_pts, A_nrm, m1, m2, voxel, max_nm, deg, d0, opts)),
                 ("moved", d0, (A_pm, A_nm, m1, m2, voxel, max_nm, deg, d0, opts)),
                 ("scaled", d0, (A_pts, A_nrm, m1, m2, voxel * f, max_nm * f, deg, d0, opts ^ 3)),
                 ("swap", d1, (A_pts, A_nrm, m1, m2, voxel, max_nm, deg, d1, opts)),
                 ("relabel", d1, (A_pts, A_nrm, m2, m1, voxel, max_nm, deg, d0, opts ^ 1))]
        # the same physical sheets at another voxel size: coordinates / f, voxel size * f, the same maximum in nm
        pr = pts / f
        relr = relation(pr, nrm, surf, d0, max_vox / f, deg, 2e-5 if form == "f32" else REL)
        if relr is not None and form != "f32" and \
                sorted((a, b) for a, b, _ in relr["adm"]) == sorted((a, b) for a, b, _ in rel[d0]["adm"]):
            calls.append(("revoxel", d0, (present(pr, form), A_nrm, m1, m2, voxel * f, max_nm, deg, d0, opts)))
        kres = kerr = None
        if case.get("kernel_first"):
            # call-history independence: the candidate kernel runs before the CPU calls for half of the sheets
            kres, kerr = core.call_guarded(call_kernel, pts, nrm, surf == 1, surf == 2, voxel, max_nm, deg, d0, 32)
        failed = False
        base_th = None
        base_res = None
        for kind, eff, args in calls:
            if corrupt == "swap_call" and kind == "base":
                args = args[:7] + (d1,) + args[8:]              # binding demonstration: wrong API call
            guard = argguard.Guard(points=args[0], normals=args[1], surface1_mask=args[2], surface2_mask=args[3])
            res, err = core.call_guarded(call_measure, *args)
            why = guard.changed() if err is None else None
            if why:
                # the pairing is defined against the arrays the caller holds; a call that rewrites them answers about
                # other points (and poisons every later use of the arrays)
                ctx.fail("C20_ArgumentsUnchanged", "%s call changed its argument (%s)" % (kind, why), case, dict(sig, kind=kind))
                failed = True
                break
            if err is not None:
                ctx.fail("call_raises", "%s: %s" % (kind, err), case, dict(sig, kind=kind))
                failed = True
                break
            P, Nn = (pm, nm) if kind == "moved" else ((pr, nrm) if kind == "revoxel" else (pts, nrm))
            vx = voxel * f if kind in ("scaled", "revoxel") else voxel
            mx = max_nm * f if kind == "scaled" else max_nm
            if kind == "base":
                base_th = np.asarray(res[0], dtype=float).copy()
                base_res = res
            refth = base_th * f if (kind == "scaled" and base_th is not None and len(base_th) == n) else None
            ref = {"base": 0, "moved": 1, "scaled": 1, "swap": 0, "relabel": 4, "revoxel": 1}[kind]
            events.append(measurement_event(kind, eff, res, n, P, Nn, rank[eff], max_vox / f if kind == "revoxel" else max_vox,
                                            deg, vx, mx, ref, refth))
        if failed:
            ctx.ran(case)
            continue
        # numba candidate kernel on the base input
        width = 32
        err = kerr
        if kres is None and kerr is None:
            kres, err = core.call_guarded(call_kernel, pts, nrm, surf == 1, surf == 2, voxel, max_nm, deg, d0, width)
        if err is not None:
            ctx.fail("call_raises", "kernel: %s" % err, case, {"op": "find_matches_parallel", "layer": "L3"})
            ctx.ran(case)
            continue
        md, mi, mc = kres
        cand = []
        for i in range(n):
            for k in range(int(min(mc[i], width))):
                t = int(mi[i, k])
                dist = float(np.sqrt(((pts[t] - pts[i]) ** 2).sum())) if 0 <= t < n else -1.0
                cand.append([i + 1, t + 1, int(round(float(md[i, k]) * SCALE)), int(round(dist * SCALE))])
        events.append({"kind": "kernel", "dir": d0, "cand": cand})
        # the arrays returned by the first call, looked at again after all later calls
        events.append(measurement_event("recheck", d0, base_res, n, pts, nrm, rank[d0], max_vox, deg, voxel, max_nm))
        tr = {"id": case["id"], "n": n, "surf": [int(v) for v in surf],
              "adm12": [[s + 1, t + 1, k + 1] for k, (s, t, _) in enumerate(rel["1to2"]["adm"])],
              "adm21": [[s + 1, t + 1, k + 1] for k, (s, t, _) in enumerate(rel["2to1"]["adm"])],
              "ev": events}
        if corrupt == "field" and len(traces) == 0 and tr["ev"][0]["out"]:
            tr["ev"][0]["out"][0]["t"] = tr["ev"][0]["out"][-1]["t"]       # binding demonstration: corrupted record
        traces.append(tr)
        kept.append(case)
        nontrivial = len(rel[d0]["adm"]) > len(events[0]["out"]) > 0      # some admissible pair lost a conflict
        ctx.ran(case, nontrivial=nontrivial)
    if not traces:
        return
    wd = ctx.sub("trace")
    path = os.path.join(wd, "traces_%d.ndjson" % len(os.listdir(wd)))
    with open(path, "w") as fh:
        for t in traces:
            fh.write(json.dumps(t) + "\n")
    res = ctx.tlc("ThicknessTrace", "SPECIFICATION TraceSpec\nCONSTRAINT Report\n", name="trace",
                  env={"TRACE_FILE": path}, workers=1)
    verdicts = {v["tid"]: v for v in res.tagged.get("VERDICT", [])}
    if len(verdicts) != len(traces):
        raise core.MachineryError("ThicknessTrace returned %d verdicts for %d traces\n%s" % (
            len(verdicts), len(traces), res.stdout[-2000:]))
    for i, case in enumerate(kept):
        v = verdicts[i + 1]
        if v["ok"]:
            continue
        if v["clause"] == "TRACE_INCONSISTENT":
            raise core.MachineryError("driver logged an inconsistent relation for case %s" % json.dumps(case))
        ev = traces[i]["ev"][v["step"] - 1]
        op = "find_matches_parallel" if ev["kind"] == "kernel" else "measure_thickness_cpu"
        ctx.fail(v["clause"], "recorded %s call rejected by ThicknessTrace (event %d of the trace)" % (
            ev["kind"], v["step"]), case, {"op": op, "layer": "L3", "kind": ev["kind"]})


def replay(ctx, case):
    if case["kind"] == "geo":
        replay_geo(ctx, case["rec"])
    elif case["kind"] == "sheet":
        run_sheets(ctx, [case], retry=False)
    else:
        raise core.MachineryError("unknown case kind %r" % case.get("kind"))


# ---- main ---------------------------------------------------------------------------------------------------------
def run(ctx):
    ctx.rule = ("L2: every GeoClean lattice double sheet of MC_Thickness (2+2(+1) points, all positions / source normals "
                "/ index layouts / directions / rigid motions of the scope), sub-sampled by seed, replayed through "
                "measure_thickness_cpu and compared with the pairing TLC computed; L3: random double sheets (20..600 "
                "points) - 5 measure_thickness_cpu calls + 1 numba kernel call per sheet validated by ThicknessTrace. "
                "non-trivial = at least one admissible pair lost a conflict (L3) / at least two admissible pairs (L2)")
    ctx.assumptions += [
        "admissibility is computed by brute force in the driver with the tangent criterion lateral < tan(max_angle)*proj; "
        "cases with a near tie (1e-6 relative: range, cone or forward boundary, equal distances of two admissible pairs that share a point) are discarded",
        "fewer than 25 admissible targets per source (property quantifier; TLC shows the guarantee is lost when the cap binds)",
        "thickness is stored as float32: 1e-4 relative tolerance in traces, 1e-5 on the lattice",
        "storage forms: C / Fortran / non-contiguous view / read-only float64 and float32 arrays (for float32 the case is "
        "the float32 values and the near-tie margin is 2e-5); bool masks as plain / view / read-only arrays",
        "the caller's arrays must be unchanged after every call (argguard) - clause C20_ArgumentsUnchanged",
        "the CUDA twin find_all_possible_matches_kernel is not executable here and is not checked"]
    only = getattr(ctx, "only", None)

    def want(x):
        return not only or x in only

    if want("l1"):
        ctx.tlc("MC_Thickness", cfg_abs(2, 3, 3), name="greedy_2x3", workers=4)
        ctx.tlc("MC_Thickness", cfg_abs(3, 2, 2), name="greedy_3x2", workers=4)
        ctx.exhaustive["L1_greedy_2x3_3x2"] = True
        if not ctx.quick:
            ctx.tlc("MC_Thickness", cfg_abs(3, 3, 3), name="greedy_3x3", workers=4)
            ctx.exhaustive["L1_greedy_3x3"] = True
        # the cap of max_matches_per_point must not bind: TLC has to find the counter-example
        res = ctx.tlc("MC_Thickness", cfg_abs(2, 2, 1, invs=["C20_GreedyValid"]), name="cap_binds", workers=1,
                      must_hold=False)
        if "C20_GreedyValid" not in res.violated:
            raise core.MachineryError("the algorithm model keeps its guarantee although the cap binds - model is vacuous")
        ctx.extra["cap_binding_counterexample_found"] = True
    if want("l2"):
        res = ctx.tlc("MC_Thickness", cfg_geo(ctx.tier), name="geo", workers=1)
        recs = res.tagged.get("GEO", [])
        if len(recs) < 1000:
            raise core.MachineryError("GeoSpec emitted only %d inputs" % len(recs))
        budget = ctx.pick(5000, 100000)
        chosen = sorted(recs, key=lambda r: core.stable_hash([ctx.seed, r]))[:budget]
        ctx.exhaustive["L2_geo_inputs"] = len(chosen) == len(recs)
        ctx.extra["geo_inputs_emitted"] = len(recs)
        ctx.extra["geo_inputs_replayed"] = len(chosen)
        ctx.extra["geo_inputs_with_conflict"] = sum(1 for r in chosen if r["nadm"] > len(r["pairs"]) > 0)
        for r in chosen:
            replay_geo(ctx, r)
    if want("l3"):
        total = ctx.pick(150, 700)
        nmax = ctx.pick(240, 600)
        batch = 100
        done = 0
        while done < total:
            k = min(batch, total - done)
            cases = [gen_sheet_case(ctx.rng, done + i + 1, nmax) for i in range(k)]
            if done == 0:
                # the upper end of the quantifier is always present, in both tiers: 600 points, unevenly labelled, so that
                # either direction has 300+ / 250+ source points, dense enough for conflicts (Maximal / NoCloserFree bite)
                cases[0].update(n=600, frac1=0.55, lam=3.0, maxf=1.5, unlabelled=0, wrong=0.0)
                cases[1].update(n=600, frac1=0.45, lam=2.0, maxf=1.2, unlabelled=3, wrong=0.05)
                cases[2].update(n=rng_top(cases[2]), frac1=0.6, lam=1.5, maxf=1.5)
                # block boundaries of the source list (exactly 256 / 257 sources), a single source point, a point of one
                # surface lying exactly on a point of the other
                cases[3].update(n=560, n1_exact=256, lam=2.0, maxf=1.5, unlabelled=0, dir="1to2")
                cases[4].update(n=560, n1_exact=257, lam=2.0, maxf=1.5, unlabelled=3, dir="1to2")
                cases[5].update(n=40, n1_exact=1, lam=3.0, maxf=1.5, unlabelled=0, wrong=0.0)
                cases[6].update(coincide=True)
                # in EVERY run, whatever the seed: sheets far from the origin, judged by thickness and rigid motion
                for j, far in ((8, 6.0e3), (9, 3.0e5), (10, 1.0e6), (11, 6.4e3)):
                    cases[j].update(far=far, form="plain", lam=3.0, maxf=1.5, wrong=0.0, n=40 + 10 * j,
                                    h=[4.0, 5.5, 7.25, 1.04][j - 8])
                cases[7].update(coincide=True, n=30)
            # binding demonstration (self-test only): VERIF_C20_CORRUPT=field|swap_call corrupts one recorded field /
            # swaps the direction flag of the base call in the first batch - the check must then report violations
            run_sheets(ctx, cases, corrupt=(os.environ.get("VERIF_C20_CORRUPT") or None) if done == 0 else None)
            done += k

"""C09 - spatial filters keep exactly the particles that lie inside.

SpatialFilter.tla decides, on the 1/8-voxel lattice, which particles survive each of the four filters and with which
coordinates.  L1: the clauses C09_* are invariants of every case TLC evaluates.  L2: (a) the exhaustive small scope
of MC_SpatialFilter (one coordinate sweeps every face of two tomograms with different dimensions, x + shift splits,
all four filters, sequences of calls) and (b) random lattice lists written by the driver (1..60 particles spread inside / on / beyond
every face, non-zero shifts, 1..4 tomograms, random boxes / trim volumes / point sets / masks): TLC computes the
expected survivors and their coordinates, the driver builds the Motl, calls the filter and compares every survivor
field by field.  A case is a sequence of 1..3 calls on the same Motl that reuse the caller's own argument objects (the
same dimension table / point table / mask list); every call is judged against the original argument values.  Dimension
tables and tomogram lists include tomograms without particles; particle tables come with default, permuted and gapped
row labels.  Cases TLC flags as ambiguous (positions / masks on which the two possible
mask index conventions differ) are discarded before the implementation is called.
Composition: the four filters also run as steps of the mixed histories of mbt/motlsys.py (pose / set operations,
symmetry expansion, format round trips on one live list), judged by MotlSysTrace.tla with Scope = "spatial".
"""
import json
import os
import random

import numpy as np

from .. import argguard, core, motlsys, motlutil

FIELDS = motlutil.FIELDS
U = 8.0
INVS = ["TypeOK", "C09_ExactInsideSet", "C09_SurvivorsUntouched", "C09_PerTomogramDims", "C09_WholeImpliesCenter",
        "C09_MaskFormIrrelevant"]
POSF = ["x", "y", "z", "shift_x", "shift_y", "shift_z"]
OTHER = [f for f in FIELDS if f not in POSF + ["subtomo_id", "tomo_id"]]


def cfg(cases, emit):
    return "SPECIFICATION Spec\nCONSTANTS\n Cases <- %s\n%s\nPROPERTY C09_ArgumentsUntouched\nCONSTRAINT %s\n" % (
        cases, "\n".join("INVARIANT " + i for i in INVS), emit)


# ---- interpretation gamma ---------------------------------------------------------------------------------
def other_values(pid):
    """The 12 fields the filters must not touch, as fixed functions of the particle id."""
    out = {}
    for j, f in enumerate(OTHER):
        out[f] = ((pid * (j + 5) * 7919 + j * 10007) % 4001) / 8.0 - 200.0 + 0.1 * j
    out["object_id"] = float(pid % 3)              # identifier columns take the value 0, too
    out["class"] = float(pid % 2)
    return out


def rows_to_df(ps):
    n = len(ps)
    cols = motlutil.empty_rows(n)
    for k, r in enumerate(ps):
        pid, t = r[0], r[1]
        cols["subtomo_id"][k] = pid
        cols["tomo_id"][k] = t
        for f, v in zip(POSF, r[2:8]):
            cols[f][k] = v / U
        for f, v in other_values(pid).items():
            cols[f][k] = v
    return motlutil.df_from_cols(cols)


def expected_row(r):
    e = {"subtomo_id": float(r[0]), "tomo_id": float(r[1])}
    for f, v in zip(POSF, r[2:8]):
        e[f] = v / U
    e.update(other_values(r[0]))
    return e


def array_form(arr, k):
    """The same numbers in another accepted storage form of an ndarray (k % 6: C float64, Fortran order, read-only,
    float32, int64 where every value is integral, non-contiguous view)."""
    arr = np.asarray(arr, dtype=float)
    m = k % 6
    if m == 1:
        return np.asfortranarray(arr)
    if m == 2:
        out = arr.copy()
        out.setflags(write=False)
        return out
    if m == 3 and np.array_equal(arr.astype(np.float32).astype(float), arr):
        return arr.astype(np.float32)
    if m == 4 and np.array_equal(np.rint(arr), arr):
        return arr.astype(np.int64)
    if m == 5:
        big = np.zeros(tuple(2 * n for n in arr.shape), dtype=float)
        view = big[tuple(slice(None, None, 2) for _ in arr.shape)]
        view[...] = arr
        return view
    return arr.copy()


def dims_arg(dims, variant, workdir):
    """The dimension table (tomo_id x y z per row) as ndarray (any storage form), DataFrame (float or integer columns,
    default or gapped row labels) or text file."""
    import pandas as pd
    table = np.array([[d[0], d[1], d[2], d[3]] for d in dims], dtype=float)
    v = variant % 4
    if v == 0:
        return array_form(table, variant // 4)
    if v in (1, 2):
        df = pd.DataFrame(table, columns=["tomo_id", "x", "y", "z"])
        if (variant // 4) % 3 == 1:
            df = df.astype(np.int64)
        if (variant // 4) % 2 == 1:
            df.index = [10 + 3 * i for i in range(len(df))]
        return df
    path = os.path.join(workdir, "dims_%d_%d.txt" % (os.getpid(), variant % 7))
    with open(path, "w") as fh:
        for r in table:
            fh.write(" ".join(str(int(x)) for x in r) + "\n")
    return path


def mask_array(shape, zero):
    m = np.ones(tuple(shape), dtype=np.float32)
    for i, j, k in zero:
        m[i, j, k] = 0.0
    return m


class Args:
    """The caller's own argument objects of one case: built once from the case's ORIGINAL values and handed, the very
    same objects, to every call of the case (a filter must not depend on what an earlier call did to its arguments)."""

    def __init__(self, case, variant, workdir):
        self.case, self.variant, self.workdir = case, variant, workdir
        self.dims = None
        self.pts = {}
        self.masks = {}
        self.trims = {}
        self.functional = False
        self.guards = []          # (name, Guard): snapshot of every argument object, taken when it was built

    def keep(self, name, obj):
        self.guards.append((name, argguard.Guard(**{name: obj})))
        return obj

    def changed(self):
        """None, or what some call did to one of the caller's argument objects."""
        for name, g in self.guards:
            why = g.changed()
            if why:
                return why
        return None

    def get_dims(self):
        if self.dims is None:
            self.dims = self.keep("dimensions", dims_arg(self.case["dims"], self.variant, self.workdir))
        return self.dims

    def get_trim(self, op):
        """(start, end) as lists, tuples, integer or float arrays - the same objects for a repeated trim."""
        key = json.dumps([op["start"], op["end"]])
        if key not in self.trims:
            v = self.variant % 5
            if v == 0:
                se = (np.array(op["start"]), np.array(op["end"]))
            elif v == 1:
                se = (list(op["start"]), list(op["end"]))
            elif v == 2:
                se = (np.array(op["start"], dtype=float), tuple(op["end"]))
            elif v == 3:
                se = (tuple(float(x) for x in op["start"]), array_form(op["end"], 2))
            else:
                se = (array_form(op["start"], 3), [float(x) for x in op["end"]])
            self.trims[key] = self.keep("trim_coordinates", se)
        return self.trims[key]

    def get_points(self, op):
        """The reference points as the DataFrame the call takes: columns in any order, further columns present,
        integer tomogram numbers, non-default row labels."""
        import pandas as pd
        key = json.dumps(op["pts"])
        if key not in self.pts:
            df = pd.DataFrame({"tomo_id": [float(q[0]) for q in op["pts"]], "x": [q[1] / U for q in op["pts"]],
                               "y": [q[2] / U for q in op["pts"]], "z": [q[3] / U for q in op["pts"]]})
            v = self.variant // 2
            if v % 4 == 1:
                df = df[["z", "tomo_id", "y", "x"]]
            elif v % 4 == 2:
                df["score"] = 0.5
                df["object_id"] = 7.0
                df = df[["score", "x", "y", "z", "object_id", "tomo_id"]]
            elif v % 4 == 3:
                df["tomo_id"] = df["tomo_id"].astype(np.int64)
            if (v // 4) % 2 == 1 and len(df):
                df.index = [5 + 2 * ((i * 3 + 1) % len(df)) for i in range(len(df))] if len(df) % 3 else [7 + i for i in range(len(df))]
            self.pts[key] = self.keep("points", df)
        return self.pts[key]

    def stored(self, arr, form, t):
        """One mask in the storage form the call uses: the array itself or the path of a file written here from
        scratch (independent writers of mbt/parsers.py: payload with x fastest, i.e. voxel (i, j, k) at i + nx (j + ny k))."""
        if form == "array":
            # any accepted ndarray: C / Fortran order, read-only, float32 / float64 / integer / boolean voxels
            k = (self.variant // 3 + (0 if t == "all" else int(t))) % 7
            if k == 6:
                return arr > 0.5
            if k == 4:
                return arr.astype(np.uint8)
            return array_form(arr, k) if k != 3 else arr.astype(np.float32)
        from .. import parsers
        path = os.path.join(self.workdir, "mask_%d_%d_%s.%s" % (os.getpid(), self.variant % 1000, t, form))
        dims = tuple(int(v) for v in arr.shape)
        values = [float(v) for v in arr.transpose(2, 1, 0).ravel()]
        if form == "em":
            parsers.write_em(path, dims, "float32", values)
        else:
            parsers.write_mrc(path, dims, "float32", values)
        return path

    def get_masks(self, op):
        """(tomo_list, tomo_masks): the listed tomograms in an order that depends on the variant (the property does
        not depend on it), the masks in the same order and in the storage form of the call (arrays, .em / .mrc / .rec
        paths, or a mixture); one object for all when the masks are identical."""
        form = op.get("form", "array")
        key = json.dumps([op["tl"], [m[0] for m in op["masks"]], form])
        if key not in self.masks:
            arrs = {m[0]: mask_array(m[1], m[2]) for m in op["masks"]}
            tl = list(op["tl"])
            r = self.variant % max(1, len(tl))
            tl = tl[r:] + tl[:r]
            if self.variant % 7 == 3:
                tl = tl[::-1]
            forms = ["array", "em", "mrc", "rec"]
            fm = {t: (form if form != "mixed" else forms[(self.variant + j) % 4]) for j, t in enumerate(tl)}
            same = all(arrs[tl[0]].shape == arrs[t].shape and np.array_equal(arrs[tl[0]], arrs[t]) for t in tl)
            tomo_list = [tl, np.array(tl), [float(t) for t in tl], np.array(tl, dtype=float)][self.variant % 4]
            if same and self.variant % 3 == 0:
                arg = self.stored(arrs[tl[0]], fm[tl[0]], "all")
            else:
                arg = [self.stored(arrs[t], fm[t], str(t)) for t in tl]
            self.masks[key] = self.keep("tomo_list_and_masks", (tomo_list, arg))
        return self.masks[key]


def apply_op(cm, motl, op, args, variant):
    """Performs the filter call on the live Motl; returns the Motl holding the result."""
    name = op["name"]
    args.functional = False       # set by the inplace=False variants: the list the method is called on must not change
    # every optional argument appears given and omitted (and, where it is a default, given with its default value)
    if name == "oob":
        d = args.get_dims()
        box = op["box"]
        if op["kind"] == "center":
            # a box size given together with 'center' must be ignored (only the centre has to be inside)
            v = variant % 4
            if box:
                if v == 0:
                    motl.remove_out_of_bounds_particles(d, boundary_type="center", box_size=box)
                elif v == 1:
                    motl.remove_out_of_bounds_particles(d, box_size=box)
                elif v == 2:
                    motl.remove_out_of_bounds_particles(d, "center", box)
                else:
                    motl.remove_out_of_bounds_particles(dimensions=d, boundary_type="center", box_size=box)
            elif v == 0:
                motl.remove_out_of_bounds_particles(d)
            elif v == 1:
                motl.remove_out_of_bounds_particles(d, boundary_type="center")
            elif v == 2:
                motl.remove_out_of_bounds_particles(d, "center", None)
            else:
                motl.remove_out_of_bounds_particles(d, boundary_type="center", box_size=None)
        elif variant % 2:
            motl.remove_out_of_bounds_particles(d, boundary_type="whole", box_size=box)
        else:
            motl.remove_out_of_bounds_particles(d, "whole", box)
        return motl
    if name == "trim":
        start, end = args.get_trim(op)
        if variant % 2:
            motl.adapt_to_trimming(start, end)
        else:
            motl.adapt_to_trimming(trim_coord_start=start, trim_coord_end=end)
        return motl
    if name == "points":
        pts = args.get_points(op)
        r = op["r"] / U
        v = variant % 6
        if v == 0:
            motl.clean_by_distance_to_points(pts, r)
        elif v == 1:
            args.functional = True
            return motl.clean_by_distance_to_points(pts, r, inplace=False)
        elif v == 2:
            motl.clean_by_distance_to_points(pts, r, feature_id="tomo_id", inplace=True, output_file=None)
        elif v == 3:
            args.functional = True
            return motl.clean_by_distance_to_points(pts, radius_in_voxels=r, feature_id="tomo_id", inplace=False, output_file=None)
        elif v == 4:
            motl.clean_by_distance_to_points(pts, r, "tomo_id")
        else:
            motl.clean_by_distance_to_points(points=pts, radius_in_voxels=r, output_file=None)
        return motl
    if name == "mask":
        tomo_list, arg = args.get_masks(op)
        v = variant % 5
        if v == 0:
            args.functional = True
            return motl.clean_by_tomo_mask(tomo_list, arg, inplace=False)
        if v == 1:
            args.functional = True
            return motl.clean_by_tomo_mask(tomo_list, arg, inplace=False, output_file=None)
        if v == 2:
            motl.clean_by_tomo_mask(tomo_list, arg, inplace=True, output_file=None)
        elif v == 3:
            motl.clean_by_tomo_mask(tomo_list=tomo_list, tomo_masks=arg)
        else:
            motl.clean_by_tomo_mask(tomo_list, arg)
        return motl
    raise core.MachineryError("unknown op %r" % (op,))


def read_only_calls(cm, motl, args):
    from cryocat import ioutils
    motl.get_coordinates()
    motl.get_unique_values("tomo_id")
    motl.get_feature("subtomo_id")
    str(motl)
    cm.Motl.load(motl)
    if args.dims is not None:
        ioutils.dimensions_load(args.dims)
    motl.get_motl_subset(1.0, reset_index=False, return_df=True)


def run_case(ctx, case, steps, variant, kind):
    """case: JSON form of a SpatialFilter case (ops = the calls, made one after the other on the same Motl with the
    same argument objects); steps[k] = {ps, status, amb}: the list after call k+1 as computed by TLC."""
    from cryocat import cryomotl as cm
    rec = {"kind": kind, "case": case, "steps": steps, "variant": variant}
    # the particle table: default / permuted / gapped row labels, integer id columns, any column order
    motl = cm.Motl(motlutil.repeat_labels(
        motlutil.vary_columns(motlutil.vary_index(rows_to_df(case["ps"]), variant // 3), variant // 2), variant // 5))
    args = Args(case, variant, ctx.workdir)
    cur = case["ps"]
    counted = False
    earlier = []            # guards of lists that earlier calls of the case returned or left behind
    for k, op in enumerate(case["ops"]):
        if k >= len(steps):
            break
        exp = steps[k]
        sig = {"op": op["name"], "calls": len(case["ops"]), "call": k + 1, "empty_input": len(cur) == 0}
        if op["name"] == "oob":
            sig["kind"] = op["kind"]
        if exp["amb"]:
            ctx.discard("ambiguous_" + op["name"])
            break
        if (variant + k) % 4 == 2:
            # public calls that only read, between the filter calls: nothing may leak from them
            g = argguard.Guard(table=motl.df)
            _, err = core.call_guarded(read_only_calls, cm, motl, args)
            why = err or g.changed() or args.changed()
            if why:
                ctx.fail("call_raises" if err else "C09_ArgumentsUntouched", "read-only calls before call %d: %s" % (k + 1, why),
                         rec, dict(sig, op="read_only"))
                break
        before = argguard.Guard(table=motl.df)
        out, err = core.call_guarded(apply_op, cm, motl, op, args, variant + k)
        if not counted:
            ctx.ran(rec)
            counted = True
        if err is not None:
            ctx.fail("call_raises", "call %d %s: %s" % (k + 1, json.dumps(op)[:200], err), rec, sig)
            break
        why = args.changed()
        if why:
            ctx.fail("C09_ArgumentsUntouched", "call %d %s changed the caller's argument: %s" % (k + 1, op["name"], why), rec,
                     dict(sig, **{"class": "argument_changed"}))
            break
        if args.functional:
            why = before.changed()          # inplace=False: the list the method was called on stays as it was
            if why:
                ctx.fail("C09_ArgumentsUntouched", "call %d %s (inplace=False) changed the list it was called on: %s" % (
                    k + 1, op["name"], why), rec, dict(sig, **{"class": "self_changed"}))
                break
            earlier.append(("list before call %d" % (k + 1), before))
        gone = None
        for label, g in earlier[:-1] if args.functional else earlier:
            gone = g.changed()
            if gone:
                ctx.fail("C09_EarlierResultsUntouched", "call %d %s changed the %s: %s" % (k + 1, op["name"], label, gone), rec,
                         dict(sig, **{"class": "earlier_result_changed"}))
                break
        if gone:
            break
        motl = out
        verdict = compare(ctx, motl, cur, op, exp, rec, sig)
        if verdict == "stop":
            break
        cur = exp["ps"]
        st = ctx.extra.setdefault("calls_by_filter", {})
        st[op["name"]] = st.get(op["name"], 0) + 1
        if op["name"] == "mask":
            sf = ctx.extra.setdefault("mask_calls_by_storage_form", {})
            sf[op.get("form", "array")] = sf.get(op.get("form", "array"), 0) + 1


def compare(ctx, motl, cur, op, exp, rec, sig):
    """Compares the live table with the list TLC computed for this call.  Returns "ok", or "stop" when the live
    object no longer is in the specification's state."""
    df = motl.df
    if len(df.columns) != 20 or sorted(map(str, df.columns)) != sorted(FIELDS):
        ctx.fail("C09_SurvivorsUntouched", "columns changed: %s" % list(df.columns), rec, sig)
        return "stop"
    got = {}
    dup = False
    arr = {f: df[f].to_numpy(dtype=float) for f in FIELDS}
    for k in range(df.shape[0]):
        pid = float(arr["subtomo_id"][k])
        if pid in got:
            dup = True
        got[pid] = {f: float(arr[f][k]) for f in FIELDS}
    if dup:
        ctx.fail("C09_SurvivorsUntouched", "a particle occurs twice in the result", rec, sig)
        return "stop"
    want = {float(r[0]): expected_row(r) for r in exp["ps"]}
    wrongly_kept = sorted(set(got) - set(want))
    wrongly_removed = sorted(set(want) - set(got))
    verdict = "ok"
    if wrongly_kept or wrongly_removed:
        verdict = "stop"
        if op["name"] == "oob" and not wrongly_removed:
            status = {float(cur[k][0]): exp["status"][k] for k in range(len(cur))}
            known = [p for p in wrongly_kept if status.get(p) == "lower"]
            rest = [p for p in wrongly_kept if status.get(p) != "lower"]
            if known:
                # particles whose (box around the) complete position leaves the volume through lower faces only
                ctx.fail("C09_ExactInsideSet", "kept although outside through a lower face only: ids %s" % [int(p) for p in known[:10]],
                         rec, dict(sig, **{"class": "kept_lower_face_only"}))
                if not rest:
                    # harness: put the live list back into the specification's state so that the later calls of the
                    # case are still judged (drops exactly the rows of the reported particles)
                    motl.df = motl.df.loc[~motl.df["subtomo_id"].isin(known)]
                    verdict = "ok"
            wrongly_kept = rest
        if wrongly_kept or wrongly_removed:
            ctx.fail("C09_ExactInsideSet", "call %d: wrongly kept ids %s, wrongly removed ids %s" % (
                sig["call"], [int(p) for p in wrongly_kept[:10]], [int(p) for p in wrongly_removed[:10]]),
                rec, dict(sig, **{"class": "other"}))
    for pid in sorted(set(got) & set(want)):
        bad = [f for f in FIELDS if not got[pid][f] == want[pid][f]]
        if bad:
            f = bad[0]
            ctx.fail("C09_SurvivorsUntouched", "particle %d: field %s = %r, expected %r (%d field(s) differ)" % (
                pid, f, got[pid][f], want[pid][f], len(bad)), rec, dict(sig, **{"class": "survivor_changed"}))
            return "stop"
    return verdict


def replay(ctx, rec):
    if rec.get("kind") == "mixed":
        motlsys.run_mixed(ctx, "spatial", [rec])
        return
    case = rec["case"]
    if "op" in case:            # single-call form of the committed replay files
        case = dict(case, ops=[case["op"]])
        steps = [rec["expect"]]
    else:
        steps = rec["steps"]
    run_case(ctx, case, steps, rec.get("variant", 0), rec.get("kind", "file"))


# ---- random lattice cases (inputs only; TLC computes what must come out) -------------------------------------
def coord(rng, n, allow_band=True):
    """A complete coordinate (lattice units) relative to an axis of n voxels: inside, on / next to a face, beyond."""
    hi = 8 * n
    r = rng.random()
    if r < 0.40:
        return rng.randint(8, max(8, hi - 9))
    if r < 0.55:
        return rng.choice([0, 1, 4, 7, 8, -1, -4, -8, 12, 16, 20, 32])
    if r < 0.70:
        return hi + rng.choice([0, -1, -4, -8, -9, 1, 4, 8, -12, -16, -17, -32])
    if r < 0.85:
        return rng.choice([rng.randint(-80, -1), rng.randint(hi, hi + 80)])
    return rng.randint(-16, hi + 16)


def coord_mask(rng, n):
    """Complete coordinate on which both mask index conventions agree: in [1, n) voxels or clearly outside."""
    if rng.random() < 0.7:
        return rng.randint(8, 8 * n - 1)
    return rng.choice([rng.randint(-60, -8), rng.randint(8 * (n + 1), 8 * (n + 1) + 60)])


def gen_mask_op(rng, ps, tomos, extra, dmap):
    tl = rng.sample(tomos, rng.randint(1, len(tomos)))
    for t in extra:                                   # tomograms without particles, anywhere in the list
        if rng.random() < 0.7:
            tl.insert(rng.randint(0, len(tl)), t)
    one_for_all = rng.random() < 0.25
    masks = []
    base = None
    for t in tl:
        shape = list(dmap[t])
        if rng.random() < 0.2:
            shape = [max(2, v - rng.randint(0, 2)) for v in shape]
        if one_for_all and base is not None:
            masks.append([t, base[0], set(base[1])])
            continue
        p0 = rng.choice([0.2, 0.5, 0.8])
        zero = set()
        for _ in range(rng.randint(1, 3)):            # boxes of zeros
            lo = [rng.randint(0, shape[i] - 1) for i in range(3)]
            hi = [rng.randint(lo[i], shape[i] - 1) for i in range(3)]
            for i in range(lo[0], hi[0] + 1):
                for j in range(lo[1], hi[1] + 1):
                    for k in range(lo[2], hi[2] + 1):
                        zero.add((i, j, k))
        for i in range(shape[0]):
            for j in range(shape[1]):
                for k in range(shape[2]):
                    if rng.random() < 0.05 * p0:
                        zero.add((i, j, k))
        if rng.random() < 0.15:
            zero = set((i, j, k) for i in range(shape[0]) for j in range(shape[1]) for k in range(shape[2])) - zero
        masks.append([t, shape, zero])
        base = (shape, zero)
    if not one_for_all:
        # make the voxel under each particle and its (-1,-1,-1) neighbour agree
        for t, shape, zero in masks:
            for p in ps:
                if p[1] != t:
                    continue
                c = [p[2 + i] + p[5 + i] for i in range(3)]
                if all(8 <= c[i] < 8 * shape[i] for i in range(3)):
                    v = tuple(c[i] // 8 for i in range(3))
                    w = tuple(x - 1 for x in v)
                    if v in zero:
                        zero.add(w)
                    else:
                        zero.discard(w)
    return {"name": "mask", "form": rng.choice(["array", "array", "em", "mrc", "rec", "mixed"]), "tl": tl,
            "masks": [[t, shape, sorted(list(z) for z in zero)] for t, shape, zero in masks]}


# lattice offsets with an exactly representable length: (vector, length) - Pythagorean triples / quadruples
TIE_OFFSETS = [((3, 4, 0), 5), ((5, 0, 0), 5), ((6, 8, 0), 10), ((2, 3, 6), 7), ((1, 4, 8), 9), ((0, 0, 8), 8), ((4, 4, 2), 6),
               ((2, 6, 9), 11), ((8, 9, 12), 17), ((1, 2, 2), 3), ((2, 10, 11), 15), ((0, 12, 5), 13)]


def gen_points(rng, ps, tomos, dmap):
    """-> (points, radius or None).  With ties: some points sit at a distance from a particle that equals the radius
    exactly (offset = permuted / signed Pythagorean vector x k, radius = its length x k)."""
    pts = []
    radius = None
    if rng.random() < 0.45:
        vec, ln = rng.choice(TIE_OFFSETS)
        k = rng.choice([1, 2, 4])
        radius = ln * k
        for _ in range(rng.randint(1, 3)):
            src = rng.choice(ps)
            v = list(vec)
            rng.shuffle(v)
            v = [k * x * rng.choice([-1, 1]) for x in v]
            if rng.random() < 0.3:                      # another offset of the same length, if there is one
                alt = [o for o in TIE_OFFSETS if o[1] * k == radius or o[1] == radius]
                if alt:
                    o = rng.choice(alt)
                    f = radius // o[1]
                    v = [f * x * rng.choice([-1, 1]) for x in rng.sample(list(o[0]), 3)]
            pts.append([src[1]] + [src[2 + i] + src[5 + i] + v[i] for i in range(3)])
    for _ in range(rng.randint(0 if pts else 1, 5)):
        if rng.random() < 0.7:
            src = rng.choice(ps)
            pos = [src[2 + i] + src[5 + i] + rng.randint(-20, 20) for i in range(3)]
            t = src[1] if rng.random() < 0.8 else rng.choice(tomos)
        else:
            t = rng.choice(tomos + [9])
            pos = [rng.randint(0, 8 * dmap.get(t, [10, 10, 10])[i]) for i in range(3)]
        pts.append([t] + pos)
    r = rng.random()
    if r < 0.2:                                         # a point coinciding with a particle (distance 0)
        src = rng.choice(ps)
        pts.append([src[1]] + [src[2 + i] + src[5 + i] for i in range(3)])
    if r > 0.8 and pts:                                 # the same point listed twice
        pts.append(list(rng.choice(pts)))
    if 0.5 < r < 0.53:                                  # no reference point at all: nothing is removed
        pts = []
    rng.shuffle(pts)
    return pts, radius


def gen_case(rng, idx, big):
    r = rng.random()
    if r < 0.62:
        names = [rng.choice(["oob", "oob", "trim", "points", "mask"])]
    else:
        names = rng.choice([["oob", "oob"], ["oob", "oob", "oob"], ["oob", "trim", "oob"], ["points", "points"],
                            ["mask", "mask"], ["mask", "oob"], ["oob", "points", "oob"], ["trim", "oob"], ["oob", "mask"]])
    ntomo = rng.randint(1, 4)
    ids = rng.sample(range(0, 9), ntomo + 2)          # tomogram number 0 is an identifier like any other
    tomos, extra = ids[:ntomo], ids[ntomo:ntomo + rng.randint(0, 2)]      # extra: tomograms without particles
    top = 12 if "mask" in names else (60 if big else 24)
    dims = [[t, rng.randint(3, top), rng.randint(3, top), rng.randint(3, top)] for t in tomos + extra]
    rng.shuffle(dims)
    dmap = {d[0]: d[1:] for d in dims}
    n = rng.randint(1, 60 if big else 12)
    id0 = rng.choice([0, 1, 1, 100000, 250000])        # subtomogram numbers from 0, from 1 or large and consecutive
    ps = []
    for k in range(n):
        t = rng.choice(tomos)
        if "mask" in names:
            c = [coord_mask(rng, dmap[t][i]) for i in range(3)]
        else:
            c = [coord(rng, dmap[t][i]) for i in range(3)]
        if rng.random() < 0.3:
            s = [0, 0, 0]
        else:
            s = [rng.randint(-24, 24) for _ in range(3)]
        if names[0] == "trim" and rng.random() < 0.7:
            x = [8 * rng.randint(-1, dmap[t][i] + 2) for i in range(3)]       # whole-voxel extraction positions
        else:
            x = [c[i] - s[i] for i in range(3)]
        ps.append([k + id0, t] + x + s)
    rng.shuffle(ps)
    ops = []
    pts = None
    tie_r = None
    mask_op = None
    for name in names:
        if name == "oob":
            kind = rng.choice(["center", "whole", "whole"]) if len(names) > 1 else rng.choice(["center", "whole"])
            box = rng.randint(1, 16) if (kind == "whole" or rng.random() < 0.5) else 0
            ops.append({"name": "oob", "kind": kind, "box": box})      # centre + box: the box must be ignored
        elif name == "trim":
            m = [max(d[i + 1] for d in dims) for i in range(3)]
            if len(names) > 1:                     # a mild trim, so that later calls still see particles
                start = [rng.randint(1, 2) for i in range(3)]
                end = [m[i] + rng.randint(0, 2) for i in range(3)]
            else:
                start = [rng.randint(1, max(1, m[i] // 2)) for i in range(3)]
                end = [rng.randint(start[i], m[i] + 2) for i in range(3)]
            ops.append({"name": "trim", "start": start, "end": end})
        elif name == "points":
            if pts is None:
                pts, tie_r = gen_points(rng, ps, tomos, dmap)
            rs = [0, 4, 8, 12, 17, 24, 33, 40]          # radius 0 removes coincident particles only
            if tie_r is not None and rng.random() < 0.8:
                ops.append({"name": "points", "pts": pts, "r": tie_r})
                tie_r = None if rng.random() < 0.5 else tie_r
            else:
                ops.append({"name": "points", "pts": pts, "r": rng.choice(rs)})
        else:
            if mask_op is None:
                mask_op = gen_mask_op(rng, ps, tomos, extra, dmap)
            ops.append(mask_op)
    return {"id": idx, "ps": ps, "dims": dims, "ops": ops}


def box_sweep_cases(first_id):
    """Every box size 1..16 x boundary type: particles exactly on, one lattice step and one voxel either side of the
    margin the box size derives (ceil(box/2) voxels from each face), on every axis and both faces."""
    cases = []
    dims = [[2, 40, 37, 45], [5, 33, 48, 36]]
    for box in range(1, 17):
        for kind in ("whole", "center"):
            h = 8 * ((box + 1) // 2) if kind == "whole" else 0
            ps = []
            pid = 0
            for t, dx, dy, dz in dims:
                d = [dx, dy, dz]
                mid = [8 * (v // 2) for v in d]
                for axis in range(3):
                    for margin in (8 * d[axis] - h, h, 8 * d[axis], 0):          # upper / lower margin, the faces
                        for delta in (-8, -1, 0, 1, 8):
                            c = list(mid)
                            c[axis] = margin + delta
                            s_ = [0, 0, 0] if (pid % 3) else [3, -2, 5]
                            pid += 1
                            ps.append([pid, t] + [c[i] - s_[i] for i in range(3)] + s_)
            cases.append({"id": first_id + len(cases), "ps": ps, "dims": dims,
                          "ops": [{"name": "oob", "kind": kind, "box": box}]})
    return cases


def run(ctx):
    ctx.rule = ("L2 small scope: every case of MC_SpatialFilter (one coordinate sweeps both faces of each axis of two "
                "tomograms, 3 x+shift splits, 10 filter calls) replayed; L2 random scope: lattice lists of 1..60 particles "
                "inside / on / beyond every face, 1..4 tomograms, random filter parameters; expected survivors computed "
                "by TLC from SpatialFilter.tla.  distinct = distinct (list, dimensions, call) cases")
    ctx.assumptions += [
        "inside <=> 0 <= c < dim on every axis (complete position c, the particle's own tomogram)",
        "'whole' uses half-width ceil(box/2) voxels for box sizes of either parity (every size 1..16 is swept); "
        "a box size given with boundary type 'center' is ignored",
        "trimming acts on x,y,z: kept iff start <= x <= end, survivors get x - (start - 1)",
        "reference points remove at distance <= r, including particles exactly on the radius (lattice coordinates and "
        "radii make d = r exact in binary floating point; ties are generated from Pythagorean offsets)",
        "mask cases avoid positions and masks on which int(c) and c-1 indexing disagree (flagged by the spec)",
        "masks are handed over as arrays, as .em / .mrc / .rec paths (files written by mbt/parsers.py, x fastest) or mixed; "
        "voxel (i, j, k) is the same voxel in every storage form",
        "projection: float fields compared bit-exactly with lattice values / fixed per-id values",
    ]
    only = getattr(ctx, "only", None)
    if not only or "small" in only:
        res = ctx.tlc("MC_SpatialFilter", cfg("SmallCases", "EmitBoth"), name="small", workers=1)
        recs = res.tagged.get("SMALL", [])
        if len(recs) < 1000:
            raise core.MachineryError("small scope produced %d records\n%s" % (len(recs), res.stdout[-1500:]))
        ctx.exhaustive["L1_small"] = True
        by_case = {}
        for r in recs:
            key = core.stable_hash(r["case"])
            ent = by_case.setdefault(key, {"case": r["case"], "steps": {}})
            ent["steps"][r["step"]] = {"ps": r["ps"], "status": r["status"], "amb": r["amb"]}
        keyed = sorted(by_case.items(), key=lambda kv: core.stable_hash([ctx.seed, kv[0]]))
        chosen = keyed[:ctx.pick(2500, len(keyed))]
        ctx.exhaustive["L2_small"] = len(chosen) == len(keyed)
        ctx.extra["small_cases"] = len(keyed)
        ctx.extra["small_replayed"] = len(chosen)
        for i, (_, ent) in enumerate(chosen):
            steps = [ent["steps"][k] for k in sorted(ent["steps"])]
            run_case(ctx, ent["case"], steps, (ctx.seed * 7919 + i) % 100003, "small")
    if not only or "file" in only:
        n = ctx.pick(500, 20000)
        rng = random.Random(ctx.seed * 104729 + 9)
        cases = [gen_case(rng, i + 1, big=(i % 4 == 0)) for i in range(n)]
        cases += box_sweep_cases(n + 1)
        n = len(cases)
        ctx.exhaustive["box_sizes_1_16_x_boundary_types"] = True
        path = os.path.join(ctx.sub("file"), "cases.ndjson")
        with open(path, "w") as fh:
            for c in cases:
                fh.write(json.dumps(c) + "\n")
        res = ctx.tlc("MC_SpatialFilter", cfg("FileCases", "Emit"), name="file", workers=1, env={"CASE_FILE": path})
        out = {}
        for r in res.tagged.get("RES", []):
            out.setdefault(r["id"], {})[r["step"]] = {"ps": r["ps"], "status": r["status"], "amb": r["amb"]}
            ctx.extra["particles_exactly_on_a_radius"] = ctx.extra.get("particles_exactly_on_a_radius", 0) + r.get("ties", 0)
        if len(out) != n:
            raise core.MachineryError("SpatialFilter returned results for %d of %d cases\n%s" % (len(out), n, res.stdout[-1500:]))
        for i, c in enumerate(cases):
            steps = [out[c["id"]][k] for k in sorted(out[c["id"]])]
            if sorted(out[c["id"]]) != list(range(1, len(steps) + 1)):
                raise core.MachineryError("case %d: steps %s" % (c["id"], sorted(out[c["id"]])))
            run_case(ctx, c, steps, (ctx.seed * 31 + i) % 100003, "file")
        ctx.extra["file_cases"] = n
    if ctx.traces == 0:
        raise core.MachineryError("no case was executed")
    if not only or "mixed" in only:
        # composition: the four filters interleaved with pose / set operations, symmetry expansion and format round trips
        # on one live list (MotlSysTrace.tla, Scope = "spatial": only the filter steps are judged)
        motlsys.run(ctx, "spatial", ctx.pick(120, 2500))

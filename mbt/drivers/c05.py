"""C05 - pose book-keeping.  Pose.tla is model-checked (L1), its transitions and simulated behaviours are
replayed into live Motl objects on the exact lattice / cube-group domain (L2) and random real-valued
histories are recorded and validated by PoseTrace.tla (L3)."""
import json
import math
import os

import numpy as np

from .. import argguard, core, geo, motlsys, motlutil

PROPS = ["C05_UpdateKeepsComplete", "C05_ScaleMultiplies", "C05_ShiftMovesByOwnOrientation", "C05_RotateComposes",
         "C05_FlipMirrors", "C05_NothingAppearsOrVanishes"]
INVS = ["TypeOK", "C05_ShiftAdditive", "C05_RotationAssociates", "C05_FlipInvolution"]
DIMZ = {1: 48, 2: 64}


def cfg(init, rots, depth, mode, laws=False):
    lines = ["SPECIFICATION Spec", "CONSTANTS", " InitPoses <- %s" % init, " Shifts <- MCShifts",
             " Factors <- MCFactors", " DimZ <- MCDimZ", " Rots <- %s" % rots, " MaxDepth = %d" % depth,
             ' EmitMode = "%s"' % mode]
    lines += ["INVARIANT %s" % i for i in (INVS if laws else INVS[:1])]
    lines += ["PROPERTY %s" % p for p in PROPS]
    if mode == "tr":
        lines += ["ACTION_CONSTRAINT EmitTR", "VIEW View"]
    elif mode == "hist":
        lines += ["CONSTRAINT EmitHist"]
    else:
        lines += ["VIEW View"]
    return "\n".join(lines) + "\n"


# ---- concrete execution -----------------------------------------------------------------------
def dims_arg(kind, variant, workdir, cache=None):
    """The tomogram-dimension argument in one of the accepted forms.  Within one history the caller keeps using the
    same table object (cache): a call must not change what the table says for the next call."""
    import pandas as pd
    if kind == "none":
        return None
    if cache is not None and kind == "table" and "df" in cache and variant % 3 != 2:
        return cache["df"]
    if cache is not None and kind == "single" and "single_df" in cache and variant % 2 == 1:
        return cache["single_df"]
    if kind == "single":
        if variant % 2 == 0:
            return [100, 120, DIMZ[1]]
        if cache is not None:
            cache["single_df"] = pd.DataFrame([[100.0, 120.0, float(DIMZ[1])]])
            return cache["single_df"]
        return np.array([100, 120, DIMZ[1]])
    # the table lists the tomograms in any order and may list tomograms that hold no particle
    rows = [[t, 100, 120 + t, DIMZ[t]] for t in sorted(DIMZ)] + [[9, 90, 90, 33], [5, 70, 80, 21]][: variant % 3]
    rows = rows[(variant // 3) % len(rows):] + rows[: (variant // 3) % len(rows)]
    if (variant // 7) % 2:
        rows = rows[::-1]
    table = np.array(rows, dtype=float)
    if variant % 3 == 0 and cache is None:
        return table
    if variant % 3 in (0, 1):
        df = pd.DataFrame(table, columns=["tomo_id", "x", "y", "z"])
        if cache is not None:
            cache["df"] = df
        return df
    path = os.path.join(workdir, "dims_%d.txt" % os.getpid())
    with open(path, "w") as fh:
        for r in table:
            fh.write(" ".join(str(int(v)) for v in r) + "\n")
    return path


def rotation_arg(code, variant):
    """The same rotation built in each of the ways scipy offers (apply_rotation takes a Rotation object)."""
    from scipy.spatial.transform import Rotation
    m = geo.code_to_matrix(code)
    base = Rotation.from_matrix(m)
    k = variant % 5
    if k == 0:
        return base
    if k == 1:
        return Rotation.from_quat(-base.as_quat())                    # the other quaternion of the same rotation
    if k == 2:
        return Rotation.from_rotvec(base.as_rotvec())
    if k == 3:
        return Rotation.from_euler("zxz", geo.euler_for_code(code), degrees=True)
    return Rotation.from_euler("ZYZ", base.as_euler("ZYZ", degrees=True), degrees=True)


def shift_arg(v, variant):
    """The shift vector in one of the accepted forms (ndarray of either float width or integer, list, tuple)."""
    k = (variant // 2) % 5
    if k == 0:
        return np.array(v, dtype=float)
    if k == 1:
        return list(v)
    if k == 2:
        return tuple(float(x) for x in v)
    if k == 3 and all(float(x).is_integer() for x in v):
        return np.array([int(x) for x in v])                          # integer-typed vector
    if k == 4:
        return np.array(v, dtype=np.float32) if all(float(np.float32(x)) == x for x in v) else np.array(v, dtype=float)
    return np.array(v, dtype=float)


def scale_arg(num, den, variant):
    f = num / den
    k = variant % 3
    if k == 1 and den == 1:
        return int(num)
    if k == 2:
        return np.float64(f)
    return f


def observe(motl, variant):
    """Read-only calls between two steps: what they return must not depend on, nor feed, any hidden state."""
    k = variant % 4
    if k == 0:
        motl.get_coordinates()
    elif k == 1:
        motl.get_rotations()
    elif k == 2:
        motl.get_angles()
        motl.get_unique_values("tomo_id")
    else:
        motl.get_feature("tomo_id")


def apply_op(motl, op, variant, workdir, cache=None):
    """One public call.  The arguments are kept in `cache` for the whole history and handed over again whenever the
    same value recurs: a call must leave its arguments as the caller gave them (returns a text when it did not)."""
    name = op["name"]
    args = (cache if cache is not None else {}).setdefault("args", {})
    guard = None
    if name == "update":
        motl.update_coordinates()
    elif name == "scale":
        motl.scale_coordinates(scale_arg(op["num"], op["den"], variant))
    elif name == "shift":
        key = ("shift", tuple(op["v"]), (variant // 2) % 5)
        v = args.setdefault(key, shift_arg([x / geo.U for x in op["v"]], variant))
        guard = argguard.Guard(shift=v)
        if variant % 2 == 0:
            motl.shift_positions(v)
        else:
            new = motl.shift_positions(v, inplace=False)
            motl.df = new.df
    elif name == "rotate":
        key = ("rot", tuple(op["q"]), variant % 5)
        rot = args.setdefault(key, rotation_arg(op["q"], variant))
        before = rot.as_matrix().copy()
        motl.apply_rotation(rot)
        if np.max(np.abs(rot.as_matrix() - before)) > 0:
            return "apply_rotation changed the Rotation object it was given"
    elif name == "flip":
        d = dims_arg(op["kind"], variant, workdir, cache)
        # what the table SAYS must survive the call (the loader relabels the columns of a caller's 1x3 frame: harmless)
        vals = (lambda: None if d is None or isinstance(d, str) else np.array(d.to_numpy() if hasattr(d, "to_numpy") else d, dtype=float))
        before = vals()
        motl.flip_handedness(d)
        if before is not None:
            why = argguard._eq_values(before, vals())
            if why:
                return "tomogram dimensions: " + why
    else:
        raise core.MachineryError("unknown op %r" % (op,))
    observe(motl, variant // 3)
    return guard.changed() if guard is not None else None


def compare(ctx, motl, op, post, case):
    """Compare the live object with the specification's post state; returns True when conforming."""
    sig = {"op": op["name"]}
    if op["name"] == "flip":
        sig["kind"] = op["kind"]
    df = motl.df
    if df.shape[0] != len(post):
        ctx.fail("C05_NothingAppearsOrVanishes", "row count %d != %d" % (df.shape[0], len(post)), case, sig)
        return False
    if list(df.columns) != motlutil.FIELDS and sorted(df.columns) != sorted(motlutil.FIELDS):
        ctx.fail("C05_NothingAppearsOrVanishes", "columns changed: %s" % list(df.columns), case, sig)
        return False
    got, resid = motlutil.project_poses(df)
    coords = np.asarray(motl.get_coordinates(), dtype=float) * geo.U
    ok = True
    for k, (g, e) in enumerate(zip(got, post)):
        ec = [e["x"][i] + e["s"][i] for i in range(3)]
        if np.max(np.abs(coords[k] - np.array(ec))) > 1e-7:
            ctx.fail("complete_position", "particle %d: complete position %s (1/8 voxel) expected %s" % (
                k, coords[k].tolist(), ec), case, sig)
            ok = False
        if g["r"] != list(e["r"]):
            ctx.fail("orientation", "particle %d: orientation %s expected %s" % (k, g["r"], list(e["r"])), case, sig)
            ok = False
        if g["t"] != e["t"]:
            ctx.fail("C05_NothingAppearsOrVanishes", "particle %d: tomogram changed" % k, case, sig)
            ok = False
        if op["name"] == "update":
            xs = np.array([df.iloc[k]["x"], df.iloc[k]["y"], df.iloc[k]["z"]], dtype=float)
            sh = np.array([df.iloc[k]["shift_x"], df.iloc[k]["shift_y"], df.iloc[k]["shift_z"]], dtype=float)
            if np.max(np.abs(xs - np.rint(xs))) > 1e-9 or np.max(np.abs(sh)) > 0.5 + 1e-9:
                ctx.fail("C05_UpdateKeepsComplete", "particle %d: x=%s shift=%s not (integral, |shift|<=0.5)" % (
                    k, xs.tolist(), sh.tolist()), case, sig)
                ok = False
    return ok


def run_history(ctx, init, steps, variant, kind):
    """init: list of abstract poses; steps: list of {op, post}.  Steps one live Motl through the history."""
    from cryocat import cryomotl
    case = {"kind": kind, "init": init, "steps": steps, "variant": variant}
    rng = __import__("random").Random(variant)
    df = motlutil.vary_index(motlutil.poses_to_df(init, rng), variant)
    if (variant // 16) % 3 == 0:
        df = motlutil.int_positions(df)          # integer-typed position / shift columns where the values allow it
    df = motlutil.vary_columns(df, variant // 2)  # Motl(df) accepts the 20 named columns in any order
    motl = cryomotl.Motl(df)
    cache = {} if len(steps) > 1 else None
    for i, st in enumerate(steps):
        changed, err = core.call_guarded(apply_op, motl, st["op"], variant + i, ctx.workdir, cache)
        sig = {"op": st["op"]["name"]}
        if st["op"]["name"] == "flip":
            sig["kind"] = st["op"]["kind"]
        if err is not None:
            ctx.fail("call_raises", "step %d %s: %s" % (i, st["op"], err), case, sig)
            break
        if changed:
            # successive calls compose: the caller hands the same vector / table to the next call
            ctx.fail("C05_CallsCompose", "step %d %s changed its argument (%s): a second call with the same object "
                     "no longer composes" % (i, st["op"], changed), case, sig)
            break
        if not compare(ctx, motl, st["op"], st["post"], case):
            break
    ctx.ran(case)


def replay(ctx, case):
    if case["kind"] in ("transition", "behaviour"):
        run_history(ctx, case["init"], case["steps"], case.get("variant", 0), case["kind"])
    elif case["kind"] == "float":
        run_float(ctx, [case])
    elif case["kind"] == "mixed":
        motlsys.run_mixed(ctx, "pose", [case])
    else:
        raise core.MachineryError("unknown case kind")


# ---- L3: random real-valued histories validated by PoseTrace.tla ---------------------------------
def gen_float_case(rng, idx):
    n = rng.randint(1, 6)
    ntomo = rng.randint(1, 3)
    forced = None
    if idx <= 12:
        # every run: the dimension FILE forms (IMOD .com, one-line text, table text) occur whatever the seed draws
        forced = ["com", "file", "com", "tablefile"][idx % 4]
        ntomo = 1 if forced in ("com", "file") else rng.randint(2, 3)
    parts = []
    for k in range(n):
        ang = [rng.uniform(-360, 360), rng.choice([0.0, 180.0, -180.0, rng.uniform(-180, 180), rng.uniform(0, 180)]),
               rng.uniform(-360, 360)]
        pos = [float(rng.randint(-50, 200)) for _ in range(3)]
        if rng.random() < 0.25:
            # sub-voxel extraction positions (e.g. after scaling), often with no shift at all
            pos = [p + rng.choice([0.5, 0.25, -0.3, 0.0]) for p in pos]
        if rng.random() < 0.2:
            sh = [0.0, 0.0, 0.0]
        elif rng.random() < 0.3:
            sh = [rng.choice([0.5, -0.5, 1.5, -2.5, 0.0]) for _ in range(3)]
        else:
            sh = [round(rng.uniform(-6, 6), 3) for _ in range(3)]
        parts.append({"pos": pos, "shift": sh, "ang": ang, "tomo": rng.randint(1, ntomo)})
    # tomogram numbers as they occur in practice: 1.., 0.. (0 is a number like any other), date-coded large consecutive
    # ones, arbitrary unsorted ones
    mode = rng.randrange(5)
    ids = {0: [1, 2, 3], 1: [0, 1, 2], 2: [240115, 240116, 240117], 3: [17, 3, 5], 4: [120, 300, 250]}[mode]
    for p_ in parts:
        p_["tomo"] = ids[p_["tomo"] - 1]
    dims = {ids[t - 1]: [rng.randint(100, 400), rng.randint(100, 400), rng.randint(50, 300)] for t in range(1, ntomo + 1)}
    if mode == 4:
        # numbers that are ids AND plausible sizes: a tomogram may be exactly as thick / wide as another one's number
        for t in list(dims):
            others = [v for v in ids if v != t]
            if rng.random() < 0.7:
                dims[t][2] = rng.choice(others)
            if rng.random() < 0.3:
                dims[t][0] = rng.choice(others)
    steps = []
    for _ in range(rng.randint(1, 6)):
        o = rng.choice(["update", "scale", "shift", "shift", "rotate", "rotate", "flip"])
        if o == "update":
            steps.append({"name": "update"})
        elif o == "scale":
            steps.append({"name": "scale", "f": rng.choice([0.5, 2.0, 4.0, 0.25, round(rng.uniform(0.2, 5), 3)])})
        elif o == "shift":
            steps.append({"name": "shift", "v": [round(rng.uniform(-10, 10), 3) for _ in range(3)]})
        elif o == "rotate":
            if rng.random() < 0.25:
                # small refinement updates: tiny but non-zero rotations (fractions of a degree) must be applied as well
                tiny = rng.choice([0.4, 0.1, 0.03, 0.005])
                ang = rng.choice([[tiny, 0.0, 0.0], [0.0, tiny, 0.0], [tiny, tiny / 2, -tiny / 3], [90.0, tiny, -90.0]])
                for _ in range(rng.choice([1, 1, 3])):
                    steps.append({"name": "rotate", "ang": list(ang)})
                continue
            steps.append({"name": "rotate", "ang": [rng.uniform(-360, 360), rng.uniform(-180, 180), rng.uniform(-360, 360)]})
        else:
            steps.append({"name": "flip", "kind": rng.choice(["none", "table", "single"] if ntomo == 1 else ["none", "table"])})
    if forced is not None:
        steps.insert(rng.randint(0, len(steps)), {"name": "flip", "kind": "table" if forced == "tablefile" else "single",
                                                   "form": forced})
    return {"kind": "float", "id": idx, "parts": parts, "dims": dims, "steps": steps}


MZ = np.diag([1.0, 1.0, -1.0])


def scaled(v, factor):
    """Integer-scaled residual, clamped; NaN / inf (a wildly wrong result) become the clamp value and are rejected."""
    v = float(v) * factor
    if not math.isfinite(v):
        return 2000000
    return int(min(2e6, round(v)))


def run_float(ctx, cases):
    """Executes real-valued histories; alpha logs, per step and particle, the integer-scaled residual of the
    clause's identity (positions x1e4 voxel, rotations x1e6 matrix max-norm); PoseTrace.tla decides."""
    import pandas as pd
    from scipy.spatial.transform import Rotation
    from cryocat import cryomotl
    traces = []
    for case in cases:
        parts = case["parts"]
        n = len(parts)
        cols = motlutil.empty_rows(n)
        for k, p in enumerate(parts):
            cols["x"][k], cols["y"][k], cols["z"][k] = p["pos"]
            cols["shift_x"][k], cols["shift_y"][k], cols["shift_z"][k] = p["shift"]
            cols["phi"][k], cols["theta"][k], cols["psi"][k] = p["ang"]
            cols["tomo_id"][k] = p["tomo"]
            cols["subtomo_id"][k] = k + 1
        fdf = motlutil.vary_index(motlutil.df_from_cols(cols), case["id"])
        if case["id"] % 3 == 0:
            fdf = motlutil.int_positions(fdf)
        fdf = motlutil.vary_columns(fdf, case["id"] // 2)
        motl = cryomotl.Motl(fdf)
        events = []
        aborted = None
        drows = [[int(t)] + list(d) for t, d in sorted(case["dims"].items())] + [[77, 50, 60, 70]]
        drows = drows[case["id"] % len(drows):] + drows[: case["id"] % len(drows)]       # any row order, an unused tomogram
        dims_table = pd.DataFrame(np.array(drows, dtype=float), columns=["tomo_id", "x", "y", "z"])      # one object for the whole history
        single = list(sorted(case["dims"].items(), key=lambda kv: int(kv[0]))[0][1])
        for si, st in enumerate(case["steps"]):
            pre_c = np.asarray(motl.get_coordinates(), dtype=float).copy()
            pre_a = motl.df[["phi", "theta", "psi"]].to_numpy(dtype=float).copy()
            pre_R = [geo.zxz_matrix(*a) for a in pre_a]
            pre_t = motl.df["tomo_id"].to_numpy(dtype=float).copy()

            def do():
                if st["name"] == "update":
                    motl.update_coordinates()
                elif st["name"] == "scale":
                    motl.scale_coordinates(st["f"])
                elif st["name"] == "shift":
                    motl.shift_positions(np.array(st["v"]))
                elif st["name"] == "rotate":
                    motl.apply_rotation(Rotation.from_matrix(geo.zxz_matrix(*st["ang"])))
                else:
                    # file form: ONE path for the whole run, rewritten before every call with this history's numbers -
                    # a call must read the file it is given now (the thickness differs from history to history)
                    shared = os.path.join(ctx.workdir, "dimensions.txt")
                    if st["kind"] == "none":
                        motl.flip_handedness()
                    elif st["kind"] == "single":
                        if st.get("form") == "com" or (st.get("form") is None and (case["id"] + si) % 6 == 5):
                            # IMOD tilt.com form (FULLIMAGE x y / THICKNESS z), one shared path as well
                            com = os.path.join(ctx.workdir, "tilt.com")
                            with open(com, "w") as fh:
                                fh.write("# Command file to run Tilt\n$tilt -StandardInput\nInputProjections ts.ali\n"
                                         "FULLIMAGE %d %d\nIMAGEBINNED 1\nTHICKNESS %d\nRADIAL 0.35 0.035\n$if (-e ./savework) ./savework\n"
                                         % (int(single[0]), int(single[1]), int(single[2])))
                            motl.flip_handedness(com)
                        elif st.get("form") == "file" or (st.get("form") is None and (case["id"] + si) % 3 == 2):
                            with open(shared, "w") as fh:
                                fh.write(" ".join(repr(float(v)) for v in single) + "\n")
                            motl.flip_handedness(shared)
                        else:
                            motl.flip_handedness(single)
                    elif st.get("form") == "tablefile" or (st.get("form") is None and (case["id"] + si) % 3 == 2):
                        with open(shared, "w") as fh:
                            for r in drows:
                                fh.write(" ".join(repr(float(v)) for v in r) + "\n")
                        motl.flip_handedness(shared)
                    elif si % 2:
                        motl.flip_handedness(dims_table)
                    else:
                        motl.flip_handedness(np.array(drows[::-1], dtype=float))
            _, err = core.call_guarded(do)
            if err is not None:
                aborted = (si, err)
                break
            post_c = np.asarray(motl.get_coordinates(), dtype=float)
            post_a = motl.df[["phi", "theta", "psi"]].to_numpy(dtype=float)
            rows_ok = motl.df.shape[0] == n and np.array_equal(motl.df["tomo_id"].to_numpy(dtype=float), pre_t)
            ev = {"name": st["name"], "rows_ok": bool(rows_ok), "pos": [], "rot": [], "integral": True, "maxshift": 0,
                  "pertomo": 0}
            if rows_ok:
                # the per-tomogram reading of the complete positions is the all-particles reading restricted to it
                worst = 0.0
                for t in sorted(set(pre_t.tolist())):
                    got_t, err_t = core.call_guarded(lambda: np.asarray(motl.get_coordinates(int(t)), dtype=float))
                    want_t = post_c[pre_t == t]
                    if err_t is not None or got_t.shape != want_t.shape:
                        worst = 2.0
                    elif want_t.size:
                        worst = max(worst, float(np.max(np.abs(got_t - want_t))))
                ev["pertomo"] = scaled(worst, 1e7)
            if rows_ok:
                for k in range(n):
                    R = pre_R[k]
                    Rn = geo.zxz_matrix(*post_a[k])
                    if st["name"] == "update":
                        exp_c, exp_R = pre_c[k], R
                    elif st["name"] == "scale":
                        exp_c, exp_R = pre_c[k] * st["f"], R
                    elif st["name"] == "shift":
                        exp_c, exp_R = pre_c[k] + R @ np.array(st["v"]), R
                    elif st["name"] == "rotate":
                        exp_c, exp_R = pre_c[k], R @ geo.zxz_matrix(*st["ang"])
                    else:
                        exp_R = MZ @ R @ MZ
                        exp_c = pre_c[k].copy()
                        if st["kind"] != "none":
                            dd = case["dims"]
                            t = int(pre_t[k])
                            dz = (dd.get(t) or dd.get(str(t)))[2] if st["kind"] == "table" else single[2]
                            exp_c[2] = dz + 1 - pre_c[k][2]
                    scale = max(1.0, float(np.max(np.abs(exp_c))))
                    ev["pos"].append(scaled(np.max(np.abs(post_c[k] - exp_c)) / scale, 1e7))
                    ev["rot"].append(scaled(np.max(np.abs(Rn - exp_R)), 1e7))
                if st["name"] == "update":
                    xs = motl.df[["x", "y", "z"]].to_numpy(dtype=float)
                    sh = motl.df[["shift_x", "shift_y", "shift_z"]].to_numpy(dtype=float)
                    ev["integral"] = bool(np.max(np.abs(xs - np.rint(xs))) < 1e-9)
                    ev["maxshift"] = scaled(np.max(np.abs(sh)), 1e6)
            events.append(ev)
            if not rows_ok:
                break            # the step changed the rows themselves: the trace spec rejects it, later steps are not judged
        if aborted is not None:
            st = case["steps"][aborted[0]]
            sig = {"op": st["name"]}
            if st["name"] == "flip":
                sig["kind"] = st["kind"]
            ctx.fail("call_raises", "step %d: %s" % aborted, case, sig)
        traces.append({"id": case["id"], "n": n, "ev": events})
        ctx.ran(case)
    # ---- TLC decides
    wd = ctx.sub("trace")
    path = os.path.join(wd, "traces.ndjson")
    with open(path, "w") as fh:
        for t in traces:
            fh.write(json.dumps(t) + "\n")
    cfgt = "SPECIFICATION TraceSpec\nCONSTANTS\n PosTol = 10\n RotTol = 10\nCONSTRAINT Report\n"
    res = ctx.tlc("PoseTrace", cfgt, name="trace", env={"TRACE_FILE": path}, workers=1)
    verdicts = {}
    for v in res.tagged.get("VERDICT", []):
        verdicts[v["tid"]] = v
    if len(verdicts) != len(traces):
        raise core.MachineryError("PoseTrace returned %d verdicts for %d traces\n%s" % (len(verdicts), len(traces), res.stdout[-2000:]))
    for i, case in enumerate(cases):
        v = verdicts[i + 1]
        if not v["ok"]:
            st = case["steps"][v["step"] - 1]
            sig = {"op": st["name"]}
            if st["name"] == "flip":
                sig["kind"] = st["kind"]
            ctx.fail(v["clause"], "real-valued history rejected by PoseTrace at step %d (%s)" % (v["step"], st), case, sig)


# ---- unbounded arithmetic core (Apalache, SMT) -----------------------------------------------------
def apalache_laws(ctx):
    """PoseArith.tla: the update law for EVERY integer coordinate (no bound), plus a negative control that must be
    refuted.  A missing / failing tool skips the sub-run (recorded); a refuted law is a specification error."""
    import shutil
    import subprocess
    exe = shutil.which("apalache-mc")
    if not exe:
        ctx.extra["apalache"] = "skipped: apalache-mc not found"
        return
    wd = ctx.sub("apalache")
    shutil.copy(os.path.join(core.VERIF, "spec", "PoseArith.tla"), os.path.join(wd, "PoseArith.tla"))
    out = {}
    for inv in ("UpdateLaw", "StrictLaw"):
        try:
            p = subprocess.run([exe, "check", "--init=Init", "--next=Next", "--inv=" + inv, "--length=0",
                                "--out-dir=" + os.path.join(wd, "out"), "PoseArith.tla"], cwd=wd, stdout=subprocess.PIPE,
                               stderr=subprocess.STDOUT, text=True, timeout=300)
        except Exception as e:  # noqa
            ctx.extra["apalache"] = "skipped: %s" % e
            return
        if "The outcome is: NoError" in p.stdout:
            out[inv] = "holds"
        elif "The outcome is: Error" in p.stdout or "violat" in p.stdout.lower():
            out[inv] = "refuted"
        else:
            ctx.extra["apalache"] = "skipped: unexpected output"
            return
    ctx.extra["apalache"] = out
    if out["UpdateLaw"] != "holds":
        raise core.MachineryError("Apalache refutes PoseArith!UpdateLaw: the specification's rounding law is wrong")
    if out["StrictLaw"] != "refuted":
        raise core.MachineryError("Apalache does not refute the negative control PoseArith!StrictLaw (vacuous run?)")
    ctx.tlc_cmds.append("apalache-mc check --init=Init --next=Next --inv=UpdateLaw --length=0 PoseArith.tla")


# ---- main ---------------------------------------------------------------------------------------
def run(ctx):
    ctx.rule = ("L2: every transition TLC explores in MC_Pose (2 particles, all 24 orientations, lattice positions incl. "
                "half-voxel ties, all ops) sub-sampled by seed and replayed statelessly into Motl; simulated 6-step "
                "behaviours stepped through one live Motl; L3: random real-valued histories validated by PoseTrace. "
                "distinct = distinct (initial list, op sequence) cases")
    ctx.assumptions += ["projection alpha (own Euler->matrix routine, 1/8-voxel lattice snap at 1e-9) is trusted",
                        "at exact half-voxel ties either integral neighbour is accepted (the property does not fix it)"]
    apalache_laws(ctx)
    # L1: composition laws on every initial pose (they depend on the state only through one pose)
    ctx.tlc("MC_Pose", cfg("SmallInit", "MCRots", 0, "none", laws=True), name="laws")
    # L1 + transition emission
    depth = ctx.pick(1, 2)
    res = ctx.tlc("MC_Pose", cfg("SmallInit", "MCRots", depth, "tr"), name="small", coverage=False, workers=1)
    trs = res.records
    ctx.exhaustive["L1_small_depth%d" % depth] = True
    budget = ctx.pick(1500, 40000)
    # deterministic subsample by hash of (seed, transition)
    keyed = sorted(trs, key=lambda t: core.stable_hash([ctx.seed, t]))
    # guarantee that every operation kind is represented
    chosen = keyed[:budget]
    ctx.exhaustive["L2_transitions"] = len(chosen) == len(trs)
    ctx.extra["transitions_emitted"] = len(trs)
    ctx.extra["transitions_replayed"] = len(chosen)
    for i, t in enumerate(chosen):
        run_history(ctx, t["pre"], [{"op": t["op"], "post": t["post"]}], variant=(ctx.seed * 7919 + i) % 100003,
                    kind="transition")
    # behaviours
    nsim = ctx.pick(40, 1500)
    res = ctx.tlc("MC_Pose", cfg("SimInit", "SimRots", 6, "hist"), name="sim", simulate=nsim, depth=8,
                  seed=ctx.seed + 1, workers=1)
    seen = set()
    nb = 0
    for rec in res.records:
        h = rec["hist"]
        key = core.stable_hash(h)
        if key in seen:
            continue
        seen.add(key)
        nb += 1
        if nb > ctx.pick(150, 6000):
            break
        run_history(ctx, h[0]["post"], h[1:], variant=(ctx.seed * 31 + nb) % 100003, kind="behaviour")
    ctx.extra["behaviours_replayed"] = nb
    # L3
    cases = [gen_float_case(ctx.rng, i + 1) for i in range(ctx.pick(150, 4000))]
    run_float(ctx, cases)
    # composition: pose operations interleaved with set operations and EM round trips on one live list
    # (MotlSysTrace.tla, Scope = "pose": only the pose steps are judged, the others re-synchronise)
    motlsys.run(ctx, "pose", ctx.pick(150, 3000))

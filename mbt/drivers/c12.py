"""C12 - Fourier filters are the documented radial low/high/band-pass gains.

L1  Fourier.tla (MC_Fourier) is model-checked: hard-edged filters as sets of passed integer frequency vectors, gain
    classes one/mid/zero of soft edges, complement / difference laws, resolution -> pixels rounding.
L2  TLC emits, per request, the exact sets of passed frequencies of the hard-edged low-pass, high-pass and band-pass
    (positions in the DFT array) and the pixel count of a (edge, pixel size, resolution) request; the driver measures
    the transfer function of cryomap.lowpass / highpass / bandpass as DFT(out)/DFT(in) on a random map, scales it
    to integers (x1e6) and compares entry by entry; resolution2pixels / get_filter_radius are compared exactly.
L3  gain tables of hard and soft filters measured on random maps and plane waves in boxes up to 48 per axis
    (cubic and non-cubic) are logged as scaled integers; FourierTrace.tla decides every clause.
The driver has no oracle of its own: expected sets, pixel counts and verdicts come from TLC."""
import contextlib
import io
import json
import math
import os

import numpy as np

from .. import argguard, core

L1_CLAUSES = ["TypeOK", "C12_WellFormed", "C12_HardEdgeIsRadialStep", "C12_HighpassIsComplement",
              "C12_BandpassIsDifference", "C12_ColumnsAreIntervals", "C12_SoftClasses", "C12_ClassRadialSymmetricRayMonotone",
              "C12_PixelsIsNearestInteger"]
CHEAP = ["TypeOK", "C12_WellFormed"]
TOL = 1            # 1e-6 on the x1e6 scale
F32_TOL = 5        # 5e-6 relative: float32 input maps (unchanged tree: 1.5e-7)
SOFT_TOL = 1000    # 1e-3: proven bound on the corner leak of the 4-sigma truncated kernel is 3.5e-4 for sigma <= 4
M = 1000000
CLAMP = 2000000
TLC_WORKERS = 4


def setlit(xs):
    return "{" + ", ".join(str(x) for x in sorted(xs)) + "}"


def cfg_mc(consts, cases, emit, invs):
    lines = ["SPECIFICATION Spec", "CONSTANTS", " Cases <- %s" % cases, ' EmitMode = "%s"' % ("tr" if emit else "none")]
    for k in ("N1", "N2", "N3"):
        lines.append(" %s = %d" % (k, consts[k]))
    for k in ("Edges", "Px", "Res"):
        lines.append(" %s = %s" % (k, setlit(consts[k])))
    lines += ["INVARIANT %s" % i for i in invs]
    if emit:
        lines.append("ACTION_CONSTRAINT EmitTR")
    return "\n".join(lines) + "\n"


def quiet(fn, *a, **kw):
    with contextlib.redirect_stdout(io.StringIO()):
        return fn(*a, **kw)


def clampi(x):
    if x != x:
        return CLAMP
    return int(max(-CLAMP, min(CLAMP, round(float(x)))))


# ---- the calls under test ------------------------------------------------------------------------------------
def filters_for(cfgd):
    """name -> callable(map) for one configuration (cutoffs as Fourier pixels)."""
    from cryocat import cryomap
    rl, sl, rh, sh = cfgd["rl"], cfgd["fl"] / 4.0, cfgd["rh"], cfgd["fh"] / 4.0
    if cfgd.get("tiny"):                 # a soft edge of vanishing width (logged as the narrowest class f = 1)
        sl = 1e-9 if cfgd["fl"] == 1 else sl
        sh = 1e-9 if cfgd["fh"] == 1 else sh
    if cfgd.get("gint"):                 # integral widths spelled as int
        sl = int(sl) if float(sl) == int(sl) else sl
        sh = int(sh) if float(sh) == int(sh) else sh
    kw = {"pixel_size": 1.7} if cfgd.get("with_px") else {}      # pixel size given next to Fourier pixels: only printed
    return {
        "lp": lambda x: quiet(cryomap.lowpass, x, fourier_pixels=rl, gaussian=sl, **kw),
        "hp": lambda x: quiet(cryomap.highpass, x, fourier_pixels=rl, gaussian=sl, **kw),
        "lp2": lambda x: quiet(cryomap.lowpass, x, fourier_pixels=rh, gaussian=sh, **kw),
        "bp": lambda x: quiet(cryomap.bandpass, x, lp_fourier_pixels=rl, hp_fourier_pixels=rh, lp_gaussian=sl,
                              hp_gaussian=sh, **kw),
    }


MAP_FORMS = ["c", "f", "strided", "ro"]


def to_form(a, form):
    """Storage form of an input map: C-ordered, Fortran-ordered, non-contiguous view, read-only."""
    if form == "f":
        return np.asfortranarray(a)
    if form == "strided":
        big = np.full(a.shape[:2] + (2 * a.shape[2],), 0.5, dtype=a.dtype)
        big[:, :, ::2] = a
        return big[:, :, ::2]
    if form == "ro":
        r = np.array(a, copy=True)
        r.setflags(write=False)
        return r
    return np.ascontiguousarray(a)


def call_history(n, nprng, workdir):
    """Other public functions of cryomap / cryomask with non-default options, on another map: nothing of them may leak."""
    from cryocat import cryomap, cryomask
    other = nprng.normal(size=[max(4, x - 1) for x in n])
    quiet(cryomap.lowpass, other, fourier_pixels=2, gaussian=1.25, output_name=os.path.join(workdir, "hist_%d.mrc" % os.getpid()))
    quiet(cryomap.bandpass, other, lp_target_resolution=8.0, hp_target_resolution=30.0, pixel_size=2.0, lp_gaussian=1, hp_gaussian=0)
    quiet(cryomask.spherical_mask, list(n), radius=2, gaussian=1.0, gaussian_outwards=True)
    quiet(cryomap.normalize, other)
    quiet(cryomap.resolution2pixels, 12.5, n[0], 1.3)


def res_filter(t):
    from cryocat import cryomap
    px, res = t["px100"] / 100.0, t["res100"] / 100.0
    if t["filt"] == "lowpass":
        return lambda x: quiet(cryomap.lowpass, x, target_resolution=res, pixel_size=px, gaussian=0)
    if t["filt"] == "highpass":
        return lambda x: quiet(cryomap.highpass, x, target_resolution=res, pixel_size=px, gaussian=0)
    hres = t["hres100"] / 100.0
    return lambda x: quiet(cryomap.bandpass, x, lp_target_resolution=res, hp_target_resolution=hres, pixel_size=px,
                           lp_gaussian=0, hp_gaussian=0)


def table_of(H):
    """alpha: complex transfer function -> nested integer table (real part x1e6, clamped)."""
    g = np.rint(np.clip(np.nan_to_num(H.real, nan=2.0, posinf=2.0, neginf=-2.0), -2.0, 2.0) * M).astype(np.int64)
    return g.tolist()


def plane_wave(n, k, phi):
    grids = np.meshgrid(*[np.arange(m) for m in n], indexing="ij")
    arg = sum(2.0 * math.pi * k[i] * grids[i] / n[i] for i in range(3))
    return np.cos(arg + phi)


def kvectors(n, rng, limit):
    """Integer frequencies for the plane-wave probes: every one in small boxes, else axes, body diagonals, a sample."""
    rngs = [range(-(m // 2), (m + 1) // 2) for m in n]
    if n[0] * n[1] * n[2] <= limit:
        return [(a, b, c) for a in rngs[0] for b in rngs[1] for c in rngs[2]]
    ks = set()
    for i in range(3):
        for v in rngs[i]:
            k = [0, 0, 0]
            k[i] = v
            ks.add(tuple(k))
    for sg in ((1, 1, 1), (1, 1, -1), (1, -1, 1), (-1, 1, 1)):
        for m in range(0, min(n) // 2 + 1):
            k = tuple(sg[i] * m for i in range(3))
            if all(k[i] in rngs[i] for i in range(3)):
                ks.add(k)
                ks.add(tuple(-x for x in k) if all(-k[i] in rngs[i] for i in range(3)) else k)
    extra = max(0, min(40, limit // 100))
    for _ in range(extra):
        ks.add(tuple(rng.choice(list(r)) for r in rngs))
    return sorted(ks)


def measure_filt(case):
    """Runs the four filters of a configuration and projects the observations (no verdict here)."""
    import random
    n = case["n"]
    rng = random.Random(case["mseed"])
    nprng = np.random.default_rng(case["mseed"])
    amp = float(case.get("amp", 1.0))
    form = case.get("form", "c")
    if case.get("hist"):
        call_history(n, nprng, os.getcwd())
    a = to_form(nprng.normal(size=n) * amp, form)               # ONE object per map, reused for every filter and call
    b = to_form((nprng.normal(size=n) + 0.3) * amp, form)
    Fa, Fb = np.fft.fftn(a), np.fft.fftn(b)
    shift = [rng.randrange(m) for m in n]
    t = {"kind": "filt", "n": n, "rl": case["rl"], "fl": case["fl"], "rh": case["rh"], "fh": case["fh"], "real": True,
         "form": form, "hist": bool(case.get("hist"))}
    imax = spread = pw = leak = lin = shf = rep = keep = 0.0
    argmut = False
    a0, b0 = a.copy(), b.copy()
    guard = argguard.Guard(a=a, b=b)
    fl = filters_for(case)
    small = n[0] * n[1] * n[2] <= case.get("pw_limit", 1200)
    for name in ("lp", "hp", "lp2", "bp"):
        f = fl[name]
        oa = f(a)
        snap_a = oa.copy() if isinstance(oa, np.ndarray) else None       # taken before any later call
        ob = f(b)
        snap_b = ob.copy() if isinstance(ob, np.ndarray) else None
        if not (isinstance(oa, np.ndarray) and np.isrealobj(oa) and list(oa.shape) == list(n)):
            t["real"] = False
            oa = np.real(np.asarray(oa)) if isinstance(oa, np.ndarray) and list(np.shape(oa)) == list(n) else np.zeros(n)
            ob = np.real(np.asarray(ob)) if isinstance(ob, np.ndarray) and list(np.shape(ob)) == list(n) else np.zeros(n)
        Ha, Hb = np.fft.fftn(oa) / Fa, np.fft.fftn(ob) / Fb
        t[name] = table_of(Ha)
        # independence of calls: an earlier result survives later calls; after the caller overwrites a returned array
        # the same call gives the same map again; the argument is not modified
        if snap_a is None or snap_b is None or np.shape(snap_a) != tuple(n) or np.shape(snap_b) != tuple(n):
            snap_a, snap_b = oa.copy(), ob.copy()
        snap_a, snap_b = np.real(snap_a), np.real(snap_b)
        again = f(a)
        keep = max(keep, float(np.max(np.abs(ob - snap_b))) / amp, float(np.max(np.abs(oa - snap_a))) / amp)
        for arr in (oa, again):
            if isinstance(arr, np.ndarray) and arr.flags.writeable:
                arr[...] = 7.0 * amp
        third = np.real(np.asarray(f(a)))
        rep = max(rep, float(np.max(np.abs(third - snap_a))) / amp if third.shape == snap_a.shape else 2.0)
        argmut = argmut or guard.changed() is not None or not (np.array_equal(a, a0) and np.array_equal(b, b0))
        oa, ob = snap_a, snap_b
        imax = max(imax, float(np.max(np.abs(Ha.imag))), float(np.max(np.abs(Hb.imag))))
        spread = max(spread, float(np.max(np.abs(Ha - Hb))))
        oc = np.real(np.asarray(f(a + 2.0 * b)))
        lin = max(lin, float(np.max(np.abs(oc - oa - 2.0 * ob))) / float(np.max(np.abs(a + 2.0 * b))))
        osh = np.real(np.asarray(f(np.roll(a, shift, axis=(0, 1, 2)))))
        shf = max(shf, float(np.max(np.abs(osh - np.roll(oa, shift, axis=(0, 1, 2))))) / float(np.max(np.abs(a))))
        if small or name == "lp":
            for k in kvectors(n, rng, case.get("pw_limit", 1200)):
                w = plane_wave(n, k, rng.uniform(0.2, 1.2))
                ow = np.real(np.asarray(f(w)))
                idx = tuple(k[i] % n[i] for i in range(3))
                gk = np.fft.fftn(ow)[idx] / np.fft.fftn(w)[idx]
                pw = max(pw, abs(gk - Ha[idx]))
                leak = max(leak, float(np.max(np.abs(ow - gk.real * w))))
    t.update({"imax": clampi(imax * M), "spread": clampi(spread * M), "pw": clampi(pw * M), "leak": clampi(leak * M),
              "lin": clampi(lin * M), "shift": clampi(shf * M), "rep": clampi(rep * M), "keep": clampi(keep * M),
              "argmut": bool(argmut)})
    return t


DTYPES = ["int16", "int32", "float32", "float64"]


def measure_dtype(case):
    """The same integer-valued random map as int16 / int32 / float32 / float64 through the three filters of a
    configuration: linearity, low-pass + high-pass = map, outputs equal to those of the float64 map (relative, x1e6)."""
    n = case["n"]
    base = np.random.default_rng(case["mseed"]).integers(-100, 101, size=n)
    amp = float(np.max(np.abs(base)))
    fl = filters_for(case)
    ref = {k: np.asarray(fl[k](base.astype("float64")), dtype=float) for k in ("lp", "hp", "bp")}
    runs = []
    for dt in DTYPES:
        a = base.astype(dt)
        a3 = (3 * base).astype(dt)
        outs = {k: fl[k](a) for k in ("lp", "hp", "bp")}
        real = all(isinstance(o, np.ndarray) and np.isrealobj(o) and list(o.shape) == list(n) for o in outs.values())
        if not real:
            runs.append({"dt": dt, "real": False, "lin": CLAMP, "comp": CLAMP, "dev": CLAMP})
            continue
        o = {k: np.asarray(v, dtype=float) for k, v in outs.items()}
        lin = max(float(np.max(np.abs(np.asarray(fl[k](a3), dtype=float) - 3.0 * o[k]))) for k in o) / (3.0 * amp)
        comp = float(np.max(np.abs(o["lp"] + o["hp"] - base))) / amp
        dev = max(float(np.max(np.abs(o[k] - ref[k]))) for k in o) / amp
        runs.append({"dt": dt, "real": True, "lin": clampi(lin * M), "comp": clampi(comp * M), "dev": clampi(dev * M)})
    # a 0/1 map of dtype bool (no multiples in bool: complement and agreement with the float64 map)
    bmap = base > 0
    ob = {k: np.asarray(fl[k](bmap), dtype=float) for k in ("lp", "hp", "bp")}
    obf = {k: np.asarray(fl[k](bmap.astype("float64")), dtype=float) for k in ("lp", "hp", "bp")}
    runs.append({"dt": "bool", "real": True, "lin": 0, "comp": clampi(float(np.max(np.abs(ob["lp"] + ob["hp"] - bmap))) * M),
                 "dev": clampi(max(float(np.max(np.abs(ob[k] - obf[k]))) for k in ob) * M)})
    # the same map read from a file of every accepted extension, and results written with output_name and read back
    from cryocat import cryomap
    a32 = base.astype("float32")
    ref32 = {k: np.asarray(fl[k](a32), dtype=float) for k in ("lp", "hp", "bp")}
    wd = os.getcwd()
    for ext in case.get("exts", ["mrc", "em", "rec"]):
        path = os.path.join(wd, "map_%d.%s" % (os.getpid(), ext))
        cryomap.write(a32, path)
        before = open(path, "rb").read()
        of = {k: np.asarray(fl[k](path), dtype=float) for k in ("lp", "hp", "bp")}
        same = open(path, "rb").read() == before
        dev = max(float(np.max(np.abs(of[k] - ref32[k]))) if of[k].shape == ref32[k].shape else 2.0 * amp for k in of) / amp
        runs.append({"dt": "file_" + ext, "real": True, "lin": 0, "comp": 0, "dev": clampi(dev * M) if same else CLAMP})
        os.remove(path)
        outp = os.path.join(wd, "filtered_%d.%s" % (os.getpid(), ext))
        rl, sl, rh, sh = case["rl"], case["fl"] / 4.0, case["rh"], case["fh"] / 4.0
        a64 = base.astype("float64")
        calls = {"lp": lambda: quiet(cryomap.lowpass, a64, fourier_pixels=rl, gaussian=sl, output_name=outp),
                 "hp": lambda: quiet(cryomap.highpass, a64, fourier_pixels=rl, gaussian=sl, output_name=outp),
                 "bp": lambda: quiet(cryomap.bandpass, a64, lp_fourier_pixels=rl, hp_fourier_pixels=rh, lp_gaussian=sl,
                                     hp_gaussian=sh, output_name=outp)}
        dev = 0.0
        for k, call in calls.items():
            o = np.asarray(call(), dtype=float)
            back = np.asarray(cryomap.read(outp), dtype=float) if os.path.exists(outp) else np.zeros((1,))
            dev = max(dev, float(np.max(np.abs(o - ref[k]))) if o.shape == ref[k].shape else 2.0 * amp,
                      float(np.max(np.abs(back - ref[k]))) if back.shape == ref[k].shape else 2.0 * amp)
            if os.path.exists(outp):
                os.remove(outp)
        runs.append({"dt": "out_" + ext, "real": True, "lin": 0, "comp": 0, "dev": clampi(dev / amp * M)})
    return {"kind": "dtype", "n": n, "runs": runs}


def measure_res(case):
    n = case["n"]
    a = np.random.default_rng(case["mseed"]).normal(size=n)
    o = res_filter(case)(a)
    t = {"kind": "res", "n": n, "px100": case["px100"], "res100": case["res100"], "hres100": case.get("hres100", 0),
         "filt": case["filt"], "real": True}
    if not (isinstance(o, np.ndarray) and np.isrealobj(o) and list(o.shape) == list(n)):
        t["real"] = False
        o = np.zeros(n)
    t["tab"] = table_of(np.fft.fftn(o) / np.fft.fftn(a))
    return t


def measure_sweep(case):
    """Hard-edged low-pass at each listed cutoff of one (large) box: the 0/1 gain table logged loss-free as per-column
    runs along k3 (frequency coordinates)."""
    from cryocat import cryomap
    n = case["n"]
    a = np.random.default_rng(case["mseed"]).normal(size=n)
    Fa = np.fft.fftn(a)
    t = {"kind": "sweep", "n": n, "real": True, "sweeps": []}
    half = n[2] // 2
    for r in case["cutoffs"]:
        o = quiet(cryomap.lowpass, a, fourier_pixels=int(r), gaussian=0)
        if not (isinstance(o, np.ndarray) and np.isrealobj(o) and list(o.shape) == list(n)):
            t["real"] = False
            break
        H = np.fft.fftn(o) / Fa
        g = np.rint(np.clip(np.nan_to_num(H.real, nan=2.0), -2.0, 2.0) * M).astype(np.int64)
        binary = bool(np.all((g == 0) | (g == M))) and float(np.max(np.abs(H.imag))) * M <= TOL
        ones = np.fft.fftshift(g == M, axes=2)                 # position j along the last axis <-> k3 = j - N3 // 2
        pad = np.zeros((n[0], n[1], n[2] + 2), dtype=np.int8)
        pad[:, :, 1:-1] = ones
        d = np.diff(pad, axis=2)
        runs = [[] for _ in range(n[0] * n[1])]
        si, sj, sk = np.nonzero(d == 1)
        ei, ej, ek = np.nonzero(d == -1)
        for i, j, lo, hi in zip(si.tolist(), sj.tolist(), sk.tolist(), ek.tolist()):
            runs[i * n[1] + j].append([lo - half, hi - 1 - half])
        t["sweeps"].append({"r": int(r), "binary": binary, "runs": runs})
    return t


CLAUSE_OP = {"C12_HighpassIsComplement": "highpass", "C12_BandpassIsDifference": "bandpass"}


def case_sig(case, clause):
    if case["kind"] == "dtype":
        return {"op": CLAUSE_OP.get(clause, "lowpass/highpass/bandpass"), "cutoff_as": "pixels", "input": "dtype-variation"}
    if case["kind"] == "sweep":
        return {"op": "lowpass", "cutoff_as": "pixels", "edge": "hard", "input": "cutoff-sweep"}
    if case["kind"] == "res":
        return {"op": case["filt"], "cutoff_as": "resolution", "edge": "hard"}
    return {"op": CLAUSE_OP.get(clause, "lowpass/highpass/bandpass"), "cutoff_as": "pixels",
            "edge": "hard" if case["fl"] == 0 and case["fh"] == 0 else "soft"}


def run_traces(ctx, cases, name="trace", batch=40):
    for start in range(0, len(cases), batch):
        chunk = cases[start:start + batch]
        live = []
        for case in chunk:
            ctx.ran(case)
            t, err = core.call_guarded({"filt": measure_filt, "dtype": measure_dtype, "sweep": measure_sweep}.get(case["kind"], measure_res), case)
            if err is not None:
                ctx.fail("call_raises", err, case, case_sig(case, "call_raises"))
                continue
            live.append((case, t))
        if not live:
            continue
        wd = ctx.sub("%s_%d" % (name, start // batch))
        path = os.path.join(wd, "traces.ndjson")
        with open(path, "w") as fh:
            for _, t in live:
                fh.write(json.dumps(t, separators=(",", ":")) + "\n")
        cfgt = "SPECIFICATION TraceSpec\nCONSTANTS\n Tol = %d\n SoftTol = %d\n F32Tol = %d\nCONSTRAINT Report\n" % (
            TOL, SOFT_TOL, F32_TOL)
        res = ctx.tlc("FourierTrace", cfgt, name="%s_%d" % (name, start // batch), env={"TRACE_FILE": path},
                      workers=TLC_WORKERS)
        os.remove(path)
        verdicts = {v["tid"]: v for v in res.tagged.get("VERDICT", []) if isinstance(v, dict)}
        if len(verdicts) != len(live):
            raise core.MachineryError("FourierTrace returned %d verdicts for %d traces\n%s" % (
                len(verdicts), len(live), res.stdout[-2000:]))
        for i, (case, t) in enumerate(live):
            v = verdicts[i + 1]
            if v["ok"]:
                continue
            if v["clause"] == "malformed_request":
                if case["kind"] == "res":
                    ctx.discard("resolution request at an inexact rounding tie or outside cutoffs 1..N/2 (decided by TLC)")
                    continue
                raise core.MachineryError("driver generated a configuration outside the specification's scope: %s" % (case,))
            detail = "FourierTrace rejects the measured gain tables (witness frequency %s" % (v.get("witness"),)
            if case["kind"] == "filt":
                detail += "; imax=%d spread=%d pw=%d leak=%d lin=%d shift=%d rep=%d keep=%d x1e-6 argmut=%s" % tuple(
                    t[k] for k in ("imax", "spread", "pw", "leak", "lin", "shift", "rep", "keep", "argmut"))
            if case["kind"] == "dtype":
                detail += "; runs=%s" % (t["runs"],)
            ctx.fail(v["clause"], detail + ")", case, case_sig(case, v["clause"]))


# ---- L2 ---------------------------------------------------------------------------------------------------------
def replay_hard(ctx, rec, mseed):
    q = rec["case"]
    n = q["n"]
    case = {"kind": "hard", "req": q, "mseed": mseed}
    cfgd = {"rl": q["rl"], "fl": 0, "rh": q["rh"], "fh": 0}
    a = to_form(np.random.default_rng(mseed).normal(size=n), MAP_FORMS[mseed % 4])      # one object for the four filters
    Fa = np.fft.fftn(a)
    ctx.ran(case)
    cfgd["with_px"] = mseed % 3 == 0 and q["rl"] >= 1 and q["rh"] >= 1     # cutoff 0 with a pixel size: resolution undefined
    fl = filters_for(cfgd)
    guard = argguard.Guard(map=a)
    for name, op in (("lp", "lowpass"), ("hp", "highpass"), ("lp2", "lowpass"), ("bp", "bandpass")):
        sig = {"op": op, "cutoff_as": "pixels", "edge": "hard"}
        o, err = core.call_guarded(fl[name], a)
        why = guard.changed()
        if why:
            ctx.fail("C12_CallsAreIndependent", "%s changed its argument: %s" % (name, why), case, sig)
            a = to_form(np.random.default_rng(mseed).normal(size=n), MAP_FORMS[mseed % 4])
            guard = argguard.Guard(map=a)
        if err is not None:
            ctx.fail("call_raises", "%s: %s" % (name, err), case, sig)
            continue
        if not (isinstance(o, np.ndarray) and np.isrealobj(o) and list(o.shape) == list(n)):
            ctx.fail("C12_RealValuedSameShape", "%s returned %s %s" % (name, getattr(o, "dtype", type(o)), getattr(o, "shape", None)),
                     case, sig)
            continue
        H = np.fft.fftn(o) / Fa
        g = np.rint(np.clip(np.nan_to_num(H.real, nan=2.0), -2.0, 2.0) * M).astype(np.int64).reshape(-1)
        exp = np.zeros(g.shape, dtype=np.int64)
        exp[np.asarray(rec[name], dtype=int)] = M
        bad = np.flatnonzero(g != exp)
        if bad.size or float(np.max(np.abs(H.imag))) * M > TOL:
            clause = {"lp": "C12_HardEdgeIsRadialStep", "lp2": "C12_HardEdgeIsRadialStep", "hp": "C12_HighpassIsComplement",
                      "bp": "C12_BandpassIsDifference"}[name]
            w = [[int(x) // (n[1] * n[2]), (int(x) // n[2]) % n[1], int(x) % n[2]] for x in bad[:4]]
            ctx.fail(clause, "%s: %d DFT position(s) differ from the gain TLC computed, first %s measured x1e6 %s; max|Im|=%.2g" % (
                name, bad.size, w, g[bad[:4]].tolist(), float(np.max(np.abs(H.imag)))), case, sig)


def replay_pixels(ctx, rec):
    from cryocat import cryomap
    q = rec["case"]
    case = {"kind": "pixels", "req": q}
    if not rec["decided"]:
        ctx.discard("edge*px/res at a rational .5 tie whose float quotient is not exact (side not stated)")
        return
    if not rec["inscope"]:
        ctx.discard("resolution request maps outside cutoffs 1..N/2 (decided by TLC)")
        return
    ctx.ran(case)
    edge, px, res = q["edge"], q["px100"] / 100.0, q["res100"] / 100.0
    for fname, call in (("resolution2pixels", lambda: quiet(cryomap.resolution2pixels, res, edge, px)),
                        ("get_filter_radius", lambda: quiet(cryomap.get_filter_radius, edge, None, res, px))):
        sig = {"op": fname, "cutoff_as": "resolution"}
        got, err = core.call_guarded(call)
        if err is not None:
            ctx.fail("call_raises", err, case, sig)
        elif not (isinstance(got, (int, np.integer)) and int(got) == rec["pixels"]):
            ctx.fail("C12_ResolutionMapsToPixels", "%s(edge=%d, px=%s, res=%s) = %r, expected %d" % (
                fname, edge, px, res, got, rec["pixels"]), case, sig)
    got, err = core.call_guarded(lambda: quiet(cryomap.get_filter_radius, edge, rec["pixels"], None, px))
    if err is not None or got != rec["pixels"]:
        ctx.fail("C12_ResolutionMapsToPixels", "get_filter_radius with fourier_pixels=%d returned %r (%s)" % (rec["pixels"], got, err),
                 case, {"op": "get_filter_radius", "cutoff_as": "pixels"})


def tlc_eval(ctx, reqs, name):
    wd = ctx.sub(name)
    path = os.path.join(wd, "cases.ndjson")
    with open(path, "w") as fh:
        for q in reqs:
            fh.write(json.dumps(q) + "\n")
    consts = {"N1": 4, "N2": 4, "N3": 4, "Edges": [8], "Px": [100], "Res": [100]}
    res = ctx.tlc("MC_Fourier", cfg_mc(consts, "FileCases", True, CHEAP), name=name, env={"CASE_FILE": path},
                  workers=TLC_WORKERS)
    want = len({core.stable_hash(q) for q in reqs})
    if len(res.records) != want:
        raise core.MachineryError("TLC emitted %d records for %d requests\n%s" % (len(res.records), want, res.stdout[-1500:]))
    return res.records


def replay_records(ctx, recs, base):
    for i, rec in enumerate(sorted(recs, key=lambda r: core.stable_hash(r["case"]))):
        if rec["case"]["kind"] == "hard":
            replay_hard(ctx, rec, (base + 7919 * i) % 1000003)
        elif rec["case"]["kind"] == "pixels":
            replay_pixels(ctx, rec)


# ---- generators -------------------------------------------------------------------------------------------------
def rand_box(rng, lo, hi, cap=None):
    while True:
        if rng.random() < 0.3:
            n = [rng.randint(lo, hi)] * 3
        else:
            n = [rng.randint(lo, hi) for _ in range(3)]
        if cap is None or n[0] * n[1] * n[2] <= cap:
            return n


def rand_filt(rng, n, rl=None):
    rl = rl if rl is not None else rng.randint(1, max(n) // 2)
    rh = rng.randint(1, rl)
    fl = rng.choice([0, 0, 2, 4, 6, 8, 12, 16, rng.randint(1, 16)])          # f = 4 sigma, sigma in 0..4
    fh = rng.choice([0, fl, fl, 2, 4, 8, 16, rng.randint(1, 16)])
    if fl == 0 and rng.random() < 0.5:
        fh = 0
    return {"kind": "filt", "n": n, "rl": rl, "fl": fl, "rh": rh, "fh": fh, "mseed": rng.randrange(2 ** 31),
            "pw_limit": 900, "form": rng.choice(MAP_FORMS), "hist": rng.random() < 0.5, "with_px": rng.random() < 0.3,
            "gint": rng.random() < 0.3, "amp": rng.choice([1.0, 1.0, 1e-9, 1e6, 1e-30, 1e30])}


def noncubic_box(rng, lo, hi, cap):
    while True:
        n = rand_box(rng, lo, hi, cap=cap)
        if len(set(n)) == 3:
            return n


def tie_request(rng, edge, kmax=None):
    """(px100, res100) with edge*px/res = k + 1/2 exactly, px and res multiples of 1/4 A (exact in binary floating point),
    k of either parity, 1 <= round-half-even(k + 1/2) <= edge/2.  Only the inputs are built here; TLC computes the count."""
    kmax = kmax or max(1, edge // 2 - 1)
    for _ in range(2000):
        k = rng.randint(1, kmax)
        a = rng.randint(2, 40)                 # px = a/4 A in 0.5 .. 10
        num, den = 2 * edge * a, 2 * k + 1     # res = 25 * num / den hundredths
        if num % den == 0:
            return 25 * a, 25 * (num // den)
    return None


def rand_res(rng, n, filt=None, tie=False):
    """Resolution + pixel size aimed (loosely) at cutoffs 1..N/2; TLC computes the pixel count and rejects ties."""
    px100 = rng.randint(50, 1000)
    top = max(n) // 2

    def res_for():
        x = rng.uniform(0.6, top + 0.4)
        return max(1, int(round(n[0] * px100 / x)))
    filt = filt or rng.choice(["lowpass", "highpass", "bandpass"])
    t = {"kind": "res", "n": n, "px100": px100, "res100": res_for(), "filt": filt, "mseed": rng.randrange(2 ** 31)}
    if tie:
        pr = tie_request(rng, n[0], kmax=max(1, min(n[0], max(n)) // 2 - 1))
        if pr is not None:
            t["px100"], t["res100"] = pr
            px100 = pr[0]
    if filt == "bandpass":
        t["hres100"] = res_for()
        if t["hres100"] < t["res100"]:          # the high-pass cutoff (in pixels) must not exceed the low-pass cutoff
            t["res100"], t["hres100"] = t["hres100"], t["res100"]
    return t


# ---- entry points -----------------------------------------------------------------------------------------------
def replay(ctx, case):
    if case["kind"] in ("hard", "pixels"):
        recs = tlc_eval(ctx, [case["req"]], "replay")
        if case["kind"] == "hard":
            replay_hard(ctx, recs[0], case.get("mseed", 0))
        else:
            replay_pixels(ctx, recs[0])
    elif case["kind"] in ("filt", "res", "dtype", "sweep"):
        run_traces(ctx, [case], name="replaytrace")
    else:
        raise core.MachineryError("unknown case kind %r" % (case.get("kind"),))


def run(ctx):
    rng = ctx.rng
    ctx.rule = ("L2: TLC (MC_Fourier) computes the passed-frequency sets of the hard-edged low/high/band-pass for one seed-chosen "
                "non-cubic box (dims 8..12), every cutoff pair rh <= rl <= max(n)/2, for seeded mid-size requests from a case "
                "file, and the pixel count of resolution requests; the driver compares the measured transfer function "
                "(DFT(out)/DFT(in) x1e6) position by position. L3: configurations (box 8..48 per axis cubic and not, cutoffs "
                "1..N/2 - every integer cutoff per box in the thorough tier - widths sigma = f/4 in 0..4, cutoff as pixels or "
                "resolution) measured on two random maps and plane waves, decided by FourierTrace. distinct = distinct "
                "(configuration, measurement seed)")
    ctx.assumptions += [
        "projection alpha (gain = Re DFT(out)/DFT(in) on a random normal map, rounded x1e6; maxima of |Im|, spreads, "
        "linearity and shift residuals) is trusted",
        "soft-edge clauses are as weak as the statement: One (|k| <= r-4s-1) within 1e-3 of 1, Zero (|k| >= r+4s+1) below "
        "1e-3, range, ray-monotone (1e-6), sign symmetry; the profile in between is not decided",
        "the soft-edge tolerance 1e-3 is above the proven worst case 3.5e-4 (corner leak of the 4-sigma truncated kernel "
        "at r = 4 sigma + 1, sigma = 4); DESIGN's 1e-4 is exceeded by the unchanged tree at (N=40, r=17, sigma=4)",
        "band-pass gain range [0,1] is claimed only for equal edge widths and rh <= rl (it is a difference of low-passes)",
        "sigma restricted to multiples of 1/4 so that the region bounds are integers; exact x.5 ties of edge*px/res go to "
        "the even neighbour (Python round) and are compared when px and res are multiples of 1/4 A (quotient exact in "
        "floating point); other rational ties are discarded (decided by TLC)",
        "quick tier: hard-edged low-pass at every cutoff 1..24 of a 48-box, gain table as per-column runs decided per column",
        "input dtypes: the same integer-valued map as int16 / int32 / float32 / float64 / bool, as .mrc / .em / .rec file, "
        "and with output_name (single-precision residuals within 5e-6); maps as C / Fortran / strided / read-only arrays; "
        "amplitudes 1e-30 .. 1e30; pathlib.Path is refused by cryomap.read on the unchanged tree (documented str)",
        "independence of calls (repeat after overwriting the returned array, earlier results unchanged, argument "
        "untouched) is read into 'filtering is a linear map of its input'",
        "plane waves: every integer frequency in boxes of <= 900 voxels, else axes, body diagonals and a random sample"]
    only = getattr(ctx, "only", None)

    def want(x):
        return only is None or x in only

    if want("laws"):
        dims = [4, 5, 6, 7]
        lb = [rng.choice(dims) for _ in range(3)]
        consts = {"N1": lb[0], "N2": lb[1], "N3": lb[2], "Edges": [8, 13, 48], "Px": [50, 137, 1000],
                  "Res": [100, 274, 685, 1096, 2000, 2192]}
        ctx.tlc("MC_Fourier", cfg_mc(consts, "SmallCases", False, L1_CLAUSES), name="laws", workers=TLC_WORKERS)
        ctx.exhaustive["L1_small_scope"] = True
        ctx.extra["laws_box"] = lb
    if want("small"):
        while True:
            nb = [rng.randint(8, 12) for _ in range(3)]
            if len(set(nb)) > 1:
                break
        consts = {"N1": nb[0], "N2": nb[1], "N3": nb[2], "Edges": [8, 13, 30, 48], "Px": [50, 137, 433, 1000],
                  "Res": [100, 274, 685, 866, 1096, 2000, 2192, 9999]}
        res = ctx.tlc("MC_Fourier", cfg_mc(consts, "L2Cases", True, CHEAP), name="small", workers=TLC_WORKERS)
        if not res.records:
            raise core.MachineryError("MC_Fourier emitted no record")
        ctx.extra["small_box"] = nb
        ctx.extra["requests_emitted_small"] = len(res.records)
        replay_records(ctx, res.records, ctx.seed * 31 + 1)
        ctx.exhaustive["L2_small_scope_all_replayed"] = True
    if want("file"):
        reqs = []
        for _ in range(ctx.pick(25, 70)):
            n = rand_box(rng, 8, 24, cap=ctx.pick(4000, 6000))
            rl = rng.randint(1, max(n) // 2)
            reqs.append({"kind": "hard", "n": n, "rl": rl, "rh": rng.randint(1, rl)})
        for _ in range(ctx.pick(300, 5000)):
            edge = rng.randint(8, 48)
            px100 = rng.randint(50, 1000)
            x = rng.uniform(0.6, edge / 2 + 0.4)
            reqs.append({"kind": "pixels", "edge": edge, "px100": px100, "res100": max(1, int(round(edge * px100 / x)))})
        # exact .5 ties, both parities of the floor (round() goes to the even neighbour): 2.5, 4.5, 1.5, 3.5, 5.5, 7.5 ...
        reqs += [{"kind": "pixels", "edge": 10, "px100": 100, "res100": 400}, {"kind": "pixels", "edge": 9, "px100": 200, "res100": 400},
                 {"kind": "pixels", "edge": 24, "px100": 100, "res100": 1600}, {"kind": "pixels", "edge": 28, "px100": 100, "res100": 800},
                 {"kind": "pixels", "edge": 44, "px100": 200, "res100": 1600}, {"kind": "pixels", "edge": 30, "px100": 150, "res100": 600}]
        for _ in range(ctx.pick(60, 600)):
            edge = rng.randint(8, 48)
            pr = tie_request(rng, edge)
            if pr is not None:
                reqs.append({"kind": "pixels", "edge": edge, "px100": pr[0], "res100": pr[1]})
        # a rational tie that is not exact in floating point must be recognised and left undecided
        reqs.append({"kind": "pixels", "edge": 15, "px100": 110, "res100": 1100})
        uniq = {}
        for q in reqs:
            uniq.setdefault(core.stable_hash(q), q)
        recs = tlc_eval(ctx, list(uniq.values()), "file")
        replay_records(ctx, recs, ctx.seed * 131 + 7)
    if want("trace"):
        cases = []
        if ctx.quick:
            for _ in range(14):
                cases.append(rand_filt(rng, rand_box(rng, 8, 16, cap=2400)))
            cases.append(rand_filt(rng, rand_box(rng, 20, 30, cap=16000)))
            # the extreme soft edge: r = 4 sigma + 1 (One = {DC}) and r = N/2 with the widest edge
            cases.append({"kind": "filt", "n": [34, 20, 18], "rl": 17, "fl": 16, "rh": 9, "fh": 8, "mseed": rng.randrange(2 ** 31),
                          "pw_limit": 0})
            for i in range(8):      # the same map as int16 / int32 / float32 / float64 / bool / file / with output_name
                c = rand_filt(rng, rand_box(rng, 8, 16, cap=2400))
                c["kind"] = "dtype"
                c["exts"] = [["mrc", "em", "rec"][i % 3]]
                cases.append(c)
            # every cutoff 1..N/2 of one small box with a soft edge; vanishing widths (sigma = 1e-9 against sigma = 0)
            sb = noncubic_box(rng, 8, 12, 1000)
            for rl in range(1, max(sb) // 2 + 1):
                c = rand_filt(rng, sb, rl=rl)
                c["fl"] = rng.choice([2, 4, 6, 8])
                cases.append(c)
            for _ in range(2):
                c = rand_filt(rng, rand_box(rng, 8, 12, cap=1000))
                c.update({"fl": 1, "fh": rng.choice([0, 1]), "tiny": True, "gint": False})
                cases.append(c)
            # every integer cutoff 1..24 of the largest box (lattice points exactly on the sphere: 13, 17, 23, 15, 25 ...)
            big = rng.choice([[48, 48, 48], [48, 47, 48], [48, 48, 45], [47, 48, 48]])
            cases.append({"kind": "sweep", "n": big, "cutoffs": list(range(1, 25)), "mseed": rng.randrange(2 ** 31)})
            for i in range(9):      # resolution + pixel size at exact .5 ties (floor odd and even), every filter
                cases.append(rand_res(rng, noncubic_box(rng, 8, 20, 3000), filt=["lowpass", "highpass", "bandpass"][i % 3], tie=True))
            for i in range(24):     # edge = first axis: boxes with three different sizes, every filter in turn
                cases.append(rand_res(rng, noncubic_box(rng, 8, 20, 3000), filt=["lowpass", "highpass", "bandpass"][i % 3]))
        else:
            for _ in range(7):
                n = rand_box(rng, 8, 36, cap=14000)
                for rl in range(1, max(n) // 2 + 1):          # every integer cutoff of this box
                    cases.append(rand_filt(rng, n, rl=rl))
            for _ in range(100):
                cases.append(rand_filt(rng, rand_box(rng, 8, 20, cap=4000)))
            for n in ([48, 48, 48], [48, 40, 44], [47, 48, 33]):
                c = rand_filt(rng, n)
                c["pw_limit"] = 0
                cases.append(c)
            cases.append({"kind": "filt", "n": [40, 40, 40], "rl": 17, "fl": 16, "rh": 13, "fh": 12, "mseed": 5, "pw_limit": 0})
            for _ in range(120):
                c = rand_filt(rng, rand_box(rng, 8, 32, cap=12000))
                c["kind"] = "dtype"
                cases.append(c)
            for i in range(150):
                cases.append(rand_res(rng, noncubic_box(rng, 8, 32, 12000), filt=["lowpass", "highpass", "bandpass"][i % 3]))
            cases.append(rand_res(rng, [48, 48, 48]))
            for i in range(60):
                cases.append(rand_res(rng, noncubic_box(rng, 8, 32, 12000), filt=["lowpass", "highpass", "bandpass"][i % 3], tie=True))
            for big in ([48, 48, 48], [48, 44, 47], [40, 48, 36], [33, 30, 48]):
                cases.append({"kind": "sweep", "n": big, "cutoffs": list(range(1, 25)), "mseed": rng.randrange(2 ** 31)})
        run_traces(ctx, cases, batch=ctx.pick(40, 30))

"""C06 - rotation geometry primitives.

L1: CubeLaws.tla (group laws), RotGeomLaws.tla (metric axioms, two-sided invariance, cone laws, normal round trip over
    the whole cube group as ASSUMEs) and MC_RotGeom.tla (clauses as invariants of the pair / batch / normal machine).
L2: every transition TLC explores in MC_RotGeom (all 576 ordered cube pairs, batches of 1..6 and 100..500 orientations,
    axis-aligned and rational normals) is replayed into cryocat.geom; the expected values are the ones TLC printed.
L3: random real rotations / normals; observations in 1e-4 degree / 1e-9 are decided by RotGeomTrace.tla."""
import json
import math
import os
import random

import numpy as np

from .. import argguard, core, geo, inputforms

ANG_TOL_DEG = 2e-4       # DESIGN section 6: angles 2e-4 degree
VEC_TOL = 1e-9           # exact layer: snap tolerance
NAN_CODE = -1000000000

INVS = ["TypeOK", "C06_AngDistRange", "C06_AngDistSymmetric", "C06_AngDistZeroIffEqual", "C06_ConeIsZAxisAngle",
        "C06_InPlaneRange", "C06_NormalsAreUnitZImages", "C06_EulerFromNormalHasThatZAxis"]


def cfg(pairs, batches, normals, mode, invs=INVS):
    lines = ["SPECIFICATION Spec", "CONSTANTS", " Pairs <- %s" % pairs, " Batches <- %s" % batches,
             " NormalVecs <- %s" % normals, ' EmitMode = "%s"' % mode]
    lines += ["INVARIANT %s" % i for i in invs]
    lines += ["PROPERTY C06_InputsUntouched", "PROPERTY C06_ResultsPersist"]
    if mode == "tr":
        lines.append("ACTION_CONSTRAINT EmitTR")
    return "\n".join(lines) + "\n"


def rot_of(euler):
    """A scipy Rotation for the orientation with the given zxz angles, built from the driver's own matrix (the Euler
    convention of the interpretation does not come from scipy)."""
    from scipy.spatial.transform import Rotation
    e = np.asarray(euler, dtype=float)
    if e.ndim == 1:
        return Rotation.from_matrix(geo.zxz_matrix(*e))
    return Rotation.from_matrix(np.array([geo.zxz_matrix(*r) for r in e]))


def finite(x):
    return x is not None and np.all(np.isfinite(np.asarray(x, dtype=float)))


def as1d(x):
    return np.atleast_1d(np.asarray(x, dtype=float)).ravel()


# ---- Euler conventions (own matrices; scipy naming: lower case = extrinsic, upper case = intrinsic) -------------
CONVS = ["ZXZ", "zyz", "ZYZ", "XYZ", "xyz"]       # besides the default "zxz"
_AX = {"x": geo.rx, "y": geo.ry, "z": geo.rz}


def conv_matrix(conv, ang):
    """extrinsic s1 s2 s3 (a1, a2, a3): first about s1, then s2, then s3 (fixed axes) = R3 R2 R1;
    intrinsic S1 S2 S3: about the moving axes = R1 R2 R3"""
    r = [_AX[c.lower()](a) for c, a in zip(conv, ang)]
    return r[2] @ r[1] @ r[0] if conv.islower() else r[0] @ r[1] @ r[2]


_CQT = {}


def conv_euler_for_code(conv, code, rng):
    """some quarter-turn triple of the convention that gives the cube element (own matrices, brute force over 64)"""
    if conv not in _CQT:
        import itertools
        tab = {}
        for t in itertools.product(range(4), repeat=3):
            tab.setdefault(tuple(geo.matrix_to_code(conv_matrix(conv, [90.0 * x for x in t]), 1e-6)), []).append(t)
        _CQT[conv] = tab
    t = rng.choice(_CQT[conv][tuple(code)])
    return [90.0 * x + rng.choice([0.0, 0.0, 0.0, 360.0, -360.0]) for x in t]


def measure_conv(ea, eb, conv, storage="c_float64"):
    """The entry points that take Euler arrays with a `convention` option."""
    from cryocat import geom
    ea = np.asarray(ea, dtype=float).reshape(-1, 3)
    eb = np.asarray(eb, dtype=float).reshape(-1, 3)
    A = inputforms.store(ea[0] if ea.shape[0] == 1 else ea, storage)
    B = inputforms.store(eb[0] if eb.shape[0] == 1 else eb, storage)
    ci = geom.cone_inplane_distance(A, B, convention=conv)
    return {"angular_distance": as1d(geom.angular_distance(A, B, convention=conv)[0]),
            "cone_inplane_distance.cone": as1d(ci[0]), "cone_inplane_distance.inplane": as1d(ci[1])}


def run_l2_conv(ctx, case):
    """case: {kind: l2_conv, conv, ea, eb, codes, expected}: the same cube pairs described in another Euler convention"""
    core.call_guarded(disturb, case.get("disturb"))
    obs, err = core.call_guarded(measure_conv, case["ea"], case["eb"], case["conv"], case.get("storage", "c_float64"))
    classes = ["equal" if e["same"] else "cube" for e in case["expected"]]
    if err is not None:
        ctx.fail("call_raises", err, case, {"op": "distances", "pair": classes[0], "nan": False, "convention": case["conv"]})
    else:
        n0 = len(ctx.failures)
        judge_pairs(ctx, obs, case["expected"], case, classes, keys=(["angular_distance"], ["cone_inplane_distance.cone"],
                                                                      ["cone_inplane_distance.inplane"]))
        for f in ctx.failures[n0:]:
            f.signature["convention"] = case["conv"]
    ctx.ran(case)


# ---- call-history independence: other public calls with non-default options between the measured ones -------------
N_DISTURB = 10


def disturb(k):
    """One of the other public geom calls that C06 touches, with documented non-default options.  Every function of the
    property is a function of its arguments: whatever was called before (and with which options) must not matter."""
    if k is None:
        return
    from cryocat import geom
    import random as _r
    rng = _r.Random(k)
    k = k % N_DISTURB
    e1 = np.array([[rng.uniform(-180, 180), rng.uniform(0, 180), rng.uniform(-180, 180)] for _ in range(3)])
    e2 = np.array([[rng.uniform(-180, 180), rng.uniform(0, 180), rng.uniform(-180, 180)] for _ in range(3)])
    if k == 0:
        geom.visualize_rotations(rot_of(e1), plot_rotations=False, radius=2.0)
    elif k == 1:
        geom.visualize_rotations(rot_of(e1[0]), plot_rotations=False, radius=0.5)
    elif k == 2:
        geom.visualize_rotations(rot_of(e1), plot_rotations=False, radius=rng.choice([3.0, 10.0, 0.25]), marker_size=5, alpha=0.5)
    elif k == 3:
        geom.visualize_angles(e1, plot_rotations=False)
        geom.euler_angles_to_normals(e2)
    elif k == 4:
        np.random.seed(rng.randrange(2 ** 31))
        geom.normals_to_euler_angles(np.array([[1.0, 2.0, 2.0], [0.0, 0.0, -3.0]]), output_order="zzx")
    elif k == 5:
        geom.angular_distance(e1, e2, c_symmetry=rng.choice([2, 3, 6]))
        geom.cone_inplane_distance(e1, e2, c_symmetry=4)
    elif k == 6:
        geom.angular_distance(np.radians(e1), np.radians(e2), degrees=False)
        geom.inplane_distance(rot_of(e1), rot_of(e2), degrees=False)
    elif k == 7:
        geom.angular_distance(e1, e2, convention=rng.choice(["ZYZ", "xyz", "ZXZ"]))
        geom.cone_inplane_distance(e1, e2, convention="XYZ")
    elif k == 8:
        geom.compare_rotations(e1, e2, c_symmetry=2, rotation_type=rng.choice(["cone_distance", "in_plane_distance", "all"]))
        geom.get_axis_from_rotation(rot_of(e1), axis=rng.choice(["x", "y"]))
    else:
        geom.visualize_rotations(rot_of(e2), plot_rotations=False, radius=rng.choice([2.0, 0.5]))
        geom.angle_between_vectors(e1, e2)


def pick_disturb(rng, p=0.5):
    """None (no other call in between) or the number of a disturbance; drawn from the run's generator, stored in the case"""
    return rng.randrange(10 ** 6) if rng.random() < p else None


# ---- L2: pairs ---------------------------------------------------------------------------------------
def _quat(r):
    return np.array(r.as_quat(), dtype=float, copy=True)


def measure_pairs(ea, eb, form, storage="c_float64", single="1d"):
    """All five distance entry points on (batches of) pairs.  ea, eb: (n,3) Euler angles.
    form "array": Euler arrays stored as `storage` (inputforms.FORMS; a single pair as a 1-D triple or a (1,3) batch of
    one); form "rot": Rotation objects.  The SAME argument objects go to every call; out["_frame"] lists what a caller
    could observe besides the results: arguments changed, or an earlier result changed by a later call."""
    from cryocat import geom
    ea = np.asarray(ea, dtype=float).reshape(-1, 3)
    eb = np.asarray(eb, dtype=float).reshape(-1, 3)
    one = ea.shape[0] == 1 and single == "1d"
    if form == "array":
        A = inputforms.store(ea[0] if one else ea, storage)
        B = inputforms.store(eb[0] if one else eb, storage)
    else:
        A = rot_of(ea[0] if one else ea)
        B = rot_of(eb[0] if one else eb)
    RA = A if form != "array" else rot_of(ea[0] if one else ea)
    RB = B if form != "array" else rot_of(eb[0] if one else eb)
    guard = argguard.Guard(A=A, B=B) if form == "array" else None
    quats = [_quat(r) for r in (RA, RB)]
    out, raw = {}, {}

    def keep(key, value):
        raw[key] = (value, np.array(value, dtype=float, copy=True))
        out[key] = as1d(value)

    # every option value on the caller's own arrays: calls with a symmetry order > 1 come first (their values are not part
    # of C06; a single 1-D triple is not accepted there), the judged default calls follow on the SAME argument objects
    for fn_, kw_ in ((geom.angular_distance, {"c_symmetry": 3}), (geom.compare_rotations, {"c_symmetry": 4}),
                     (geom.cone_inplane_distance, {"c_symmetry": 2}), (geom.angular_distance, {"c_symmetry": 6, "convention": "zxz"})):
        try:
            fn_(A, B, **kw_)
        except Exception:
            pass
    keep("angular_distance", geom.angular_distance(A, B)[0])
    ci = geom.cone_inplane_distance(A, B)
    keep("cone_inplane_distance.cone", ci[0])
    keep("cone_inplane_distance.inplane", ci[1])
    cr = geom.compare_rotations(A, B)
    keep("compare_rotations.ang", cr[0])
    keep("compare_rotations.cone", cr[1])
    keep("compare_rotations.inplane", cr[2])
    keep("compare_rotations[angular_distance]", geom.compare_rotations(A, B, rotation_type="angular_distance"))
    keep("compare_rotations[cone_distance]", geom.compare_rotations(A, B, rotation_type="cone_distance"))
    keep("compare_rotations[in_plane_distance]", geom.compare_rotations(A, B, rotation_type="in_plane_distance"))
    keep("compare_rotations(c_symmetry=1)", geom.compare_rotations(A, B, c_symmetry=1, rotation_type="all")[0])
    if form == "array" and storage not in ("int64",):
        # the same orientations in radians (degrees=False): both distances are reported in degrees all the same
        Ar = inputforms.store(np.radians(ea[0] if one else ea), "c_float64" if storage == "float32" else storage)
        Br = inputforms.store(np.radians(eb[0] if one else eb), "c_float64" if storage == "float32" else storage)
        keep("angular_distance[rad]", geom.angular_distance(Ar, Br, degrees=False)[0])
        cir = geom.cone_inplane_distance(Ar, Br, convention="zxz", degrees=False)
        keep("cone_inplane_distance.cone[rad]", cir[0])
        # with degrees=False the in-plane distance comes back in radians: [0, pi], 0 for equal orientations
        keep("cone_inplane_distance.inplane[rad]", np.degrees(np.asarray(cir[1], dtype=float)))
        keep("cone_inplane_distance.inplane[rad,c_symmetry=1]",
             np.degrees(np.asarray(geom.cone_inplane_distance(Ar, Br, degrees=False, c_symmetry=1)[1], dtype=float)))
    # cone_distance / inplane_distance take Rotation objects only
    keep("cone_distance", geom.cone_distance(RA, RB))
    keep("inplane_distance", geom.inplane_distance(RA, RB))
    keep("inplane_distance(defaults spelled)", geom.inplane_distance(RA, RB, convention="zxz", degrees=True, c_symmetry=1))
    keep("inplane_distance[rad]", np.degrees(np.asarray(geom.inplane_distance(RA, RB, degrees=False), dtype=float)))
    frame = []
    if guard is not None and guard.changed():
        frame.append(("C06_InputsUntouched", guard.changed()))
    for r, q in zip((RA, RB), quats):
        if not np.array_equal(_quat(r), q):
            frame.append(("C06_InputsUntouched", "a Rotation argument changed"))
    for key, (value, snap) in raw.items():
        cur = np.asarray(value, dtype=float)
        if cur.shape != snap.shape or not np.array_equal(cur, snap, equal_nan=True):
            frame.append(("C06_ResultsPersist", "the result of %s changed after later calls" % key))
    out["_frame"] = frame
    return out


ANG_KEYS = ["angular_distance", "compare_rotations.ang", "compare_rotations[angular_distance]",
            "compare_rotations(c_symmetry=1)", "angular_distance[rad]"]
CONE_KEYS = ["cone_distance", "cone_inplane_distance.cone", "compare_rotations.cone", "compare_rotations[cone_distance]",
             "cone_inplane_distance.cone[rad]"]
IP_KEYS = ["inplane_distance", "cone_inplane_distance.inplane", "compare_rotations.inplane",
           "compare_rotations[in_plane_distance]", "inplane_distance(defaults spelled)", "inplane_distance[rad]",
           "cone_inplane_distance.inplane[rad]", "cone_inplane_distance.inplane[rad,c_symmetry=1]"]


def judge_pairs(ctx, obs, expected, case, pair_classes, keys=None):
    """expected: list of the records TLC printed (ang, cone, inplane{lo,hi}, same), one per pair of the call."""
    n = len(expected)
    ok = True
    ka, kc, ki = keys or (ANG_KEYS, CONE_KEYS, IP_KEYS)
    for keyset, what in ((ka, "ang"), (kc, "cone"), (ki, "inplane")):
        for key in keyset:
            if key not in obs:
                continue
            v = obs[key]
            op = key.split(".")[0].split("[")[0].split("(")[0]
            if v.shape[0] != n:
                ctx.fail("C06_OnePerPair", "%s returned %d values for %d pairs" % (key, v.shape[0], n), case,
                         {"op": op, "pair": "batch", "nan": False})
                ok = False
                continue
            for i, e in enumerate(expected):
                x = float(v[i])
                pc = pair_classes[i]
                if not math.isfinite(x):
                    clause = {"ang": "C06_AngDistRange", "cone": "C06_ConeIsZAxisAngle", "inplane": "C06_InPlaneRange"}[what]
                    ctx.fail(clause, "%s = %r for pair %d (expected %s)" % (key, x, i, e), case,
                             {"op": op, "pair": pc, "nan": True})
                    ok = False
                elif what == "ang" and abs(x - e["ang"]) > ANG_TOL_DEG:
                    ctx.fail("C06_AngDistIsRelativeAngle", "%s = %r for pair %d, the specification says %d" % (
                        key, x, i, e["ang"]), case, {"op": op, "pair": pc, "nan": False})
                    ok = False
                elif what == "cone" and abs(x - e["cone"]) > ANG_TOL_DEG:
                    ctx.fail("C06_ConeIsZAxisAngle", "%s = %r for pair %d, the specification says %d" % (
                        key, x, i, e["cone"]), case, {"op": op, "pair": pc, "nan": False})
                    ok = False
                elif what == "inplane" and not (e["inplane"]["lo"] <= x <= e["inplane"]["hi"] + ANG_TOL_DEG):
                    clause = "C06_InPlaneZeroOnEqual" if e["inplane"]["hi"] == 0 else "C06_InPlaneRange"
                    ctx.fail(clause, "%s = %r for pair %d, the specification allows [%d, %d]" % (
                        key, x, i, e["inplane"]["lo"], e["inplane"]["hi"]), case, {"op": op, "pair": pc, "nan": False})
                    ok = False
    return ok


def run_l2_pairs(ctx, case):
    """case: {kind: l2_pair, form, ea: [[..]], eb: [[..]], codes: [[a, b], ..], expected: [..]}"""
    _, derr = core.call_guarded(disturb, case.get("disturb"))
    if derr is not None:
        ctx.fail("call_raises", derr, case, {"op": "disturb%d" % (case["disturb"] % N_DISTURB), "pair": "", "nan": False})
    obs, err = core.call_guarded(measure_pairs, case["ea"], case["eb"], case["form"], case.get("storage", "c_float64"),
                                 case.get("single", "1d"))
    classes = ["equal" if e["same"] else "cube" for e in case["expected"]]
    if err is not None:
        ctx.fail("call_raises", err, case, {"op": "distances", "pair": classes[0], "nan": False})
    else:
        judge_pairs(ctx, obs, case["expected"], case, classes)
        for clause, why in obs["_frame"]:
            ctx.fail(clause, why, case, {"op": "distances", "pair": classes[0], "nan": False, "storage": case.get("storage", "")})
    ctx.ran(case)


# ---- L2: batches -> normals -----------------------------------------------------------------------------
def run_l2_batch(ctx, case):
    """case: {kind: l2_batch, euler: [[..]], codes: [..], expected: [[..]], storage, plot}: Euler batch -> normals through
    the three entry points; the Euler array is stored as `storage` (also list / tuple), the SAME object goes to all calls;
    with plot the plotting options are switched on (Agg backend) - what is returned must not depend on them"""
    from cryocat import geom
    e = np.asarray(case["euler"], dtype=float).reshape(-1, 3)
    exp = np.asarray(case["expected"], dtype=float).reshape(-1, 3)
    E = inputforms.store(e, case.get("storage", "c_float64"))
    rots = rot_of(e)
    guard = argguard.Guard(angles=E)
    q0 = _quat(rots)
    plot = bool(case.get("plot"))
    cmap = np.linspace(0.0, 1.0, e.shape[0])
    calls = [("euler_angles_to_normals", lambda: geom.euler_angles_to_normals(E)),
             ("visualize_angles", lambda: geom.visualize_angles(E, plot_rotations=False)),
             ("visualize_rotations", lambda: geom.visualize_rotations(rots, plot_rotations=False))]
    if plot:
        calls += [("visualize_angles", lambda: geom.visualize_angles(E)),                                   # plots by default
                  ("visualize_rotations", lambda: geom.visualize_rotations(rots, plot_rotations=True, color_map=cmap, marker_size=3)),
                  ("visualize_angles", lambda: geom.visualize_angles(E, plot_rotations=True, color_map="red")),
                  ("visualize_rotations", lambda: geom.visualize_rotations(rots))]
    earlier = []
    for name, fn in calls:
        got, err = core.call_guarded(fn)
        sig = {"op": name, "batch": "one" if e.shape[0] == 1 else "many", "plot": plot, "storage": case.get("storage", "c_float64")}
        if err is not None:
            ctx.fail("call_raises", err, case, sig)
            continue
        why = guard.changed() or (None if np.array_equal(_quat(rots), q0) else "Rotation argument changed")
        if why:
            ctx.fail("C06_InputsUntouched", "%s: %s" % (name, why), case, sig)
        raw = got
        got = np.asarray(got, dtype=float)
        if got.shape != exp.shape:
            ctx.fail("C06_NormalsAreUnitZImages", "%s returned shape %s for %d orientations" % (name, got.shape, e.shape[0]),
                     case, sig)
        elif not finite(got) or np.max(np.abs(got - exp)) > VEC_TOL:
            k = int(np.argmax(np.max(np.abs(got - exp), axis=1)))
            ctx.fail("C06_NormalsAreUnitZImages", "%s: normal %d is %s, the specification says %s" % (
                name, k, got[k].tolist(), exp[k].tolist()), case, sig)
        else:
            earlier.append((name, raw, got.copy()))
    if plot:
        import matplotlib.pyplot as plt
        plt.close("all")
    for name, raw, snap in earlier:
        if not np.array_equal(np.asarray(raw, dtype=float), snap):
            ctx.fail("C06_ResultsPersist", "the normals returned by %s changed after later calls" % name, case,
                     {"op": name, "batch": "many", "plot": plot})
    ctx.ran(case)


# ---- L2: normals -> Euler angles ---------------------------------------------------------------------------
def normal_class(v):
    nz = [i for i in range(3) if v[i] != 0]
    if len(nz) == 1:
        return "axis_z" if nz[0] == 2 else "axis_xy"
    return "rational"


def run_l2_normals(ctx, case):
    """case: {kind: l2_normal, form: array|frame, order: zxz|zzx, vecs: [[ints, 1/8 units]], expected: [{num, den}], npseed}
    output_order "zzx" returns the same orientation with its angles listed as (phi, psi, theta)."""
    import pandas as pd
    from cryocat import geom
    v = np.asarray(case["vecs"], dtype=float).reshape(-1, 3) / geo.U
    form = case["form"]
    if form == "array":
        arg = inputforms.store(v, case.get("storage", "c_float64"))
    elif form == "frame":
        # a table that carries the normals in its x, y, z columns: any row labels (permuted, gapped, sliced out of a larger
        # table), further columns, any column order - the values of x, y, z are what counts
        arg = inputforms.frame(v, ["x", "y", "z"], case.get("frame_k", 0))
    else:
        # the same directions stored as integers (the 1/8-unit vectors themselves): int64 / int32 arrays, integer columns
        iv = np.asarray(case["vecs"], dtype=np.int32 if form == "int32" else np.int64).reshape(-1, 3)
        arg = pd.DataFrame(iv.copy(), columns=["x", "y", "z"]) if form == "frame_int" else iv.copy()
    # float32-stored normals are normalised in float32: the angles carry that precision (DESIGN section 6: 1e-4 relative)
    tol = 2e-6 if (form == "array" and case.get("storage") == "float32") else VEC_TOL
    order = case.get("order", "zxz")
    guard = argguard.Guard(input_normals=arg)
    np.random.seed(case["npseed"])
    if order == "zxz" and case["npseed"] % 2 == 0:
        got, err = core.call_guarded(geom.normals_to_euler_angles, arg)           # default order
    else:
        got, err = core.call_guarded(geom.normals_to_euler_angles, arg, output_order=order)
    cls = normal_class(case["vecs"][0]) if len(case["vecs"]) == 1 else "batch"
    sig = {"op": "normals_to_euler_angles", "normal": cls, "order": order, "stored": "int" if "int" in form else "float",
           "table": case.get("frame_k", 0) % 12 if form == "frame" else case.get("storage", "")}
    if guard.changed():
        ctx.fail("C06_InputsUntouched", guard.changed(), case, sig)
    if err is not None:
        ctx.fail("call_raises", err, case, sig)
        ctx.ran(case)
        return
    got = np.asarray(got, dtype=float)
    if got.shape != v.shape:
        ctx.fail("C06_EulerFromNormalHasThatZAxis", "returned shape %s for %d normals" % (got.shape, v.shape[0]), case, sig)
        ctx.ran(case)
        return
    if order == "zzx":
        got = got[:, [0, 2, 1]]          # (phi, psi, theta) -> (phi, theta, psi)
    for k, e in enumerate(case["expected"]):
        want = np.asarray(e["num"], dtype=float) / float(e["den"])
        sigk = {"op": "normals_to_euler_angles", "normal": normal_class(case["vecs"][k]), "order": order,
                "stored": "int" if "int" in form else "float"}
        if not finite(got[k]):
            ctx.fail("C06_EulerFromNormalHasThatZAxis", "angles %s for normal %s" % (got[k].tolist(), v[k].tolist()), case, sigk)
            continue
        z = geo.zxz_matrix(*got[k])[:, 2]
        if np.max(np.abs(z - want)) > tol:
            ctx.fail("C06_EulerFromNormalHasThatZAxis", "normal %s -> angles %s whose z-axis is %s, the specification "
                     "says %s/%d" % (v[k].tolist(), got[k].tolist(), z.tolist(), e["num"], e["den"]), case, sigk)
    # and back through euler_angles_to_normals (round trip inside the library)
    back, err = core.call_guarded(geom.euler_angles_to_normals, got.copy())
    sig2 = {"op": "euler_angles_to_normals", "batch": "one" if v.shape[0] == 1 else "many"}
    if err is not None:
        ctx.fail("call_raises", err, case, sig2)
    else:
        back = np.asarray(back, dtype=float)
        want = np.array([np.asarray(e["num"], dtype=float) / float(e["den"]) for e in case["expected"]])
        if back.shape != want.shape or not finite(back) or np.max(np.abs(back - want)) > tol:
            ctx.fail("C06_NormalsAreUnitZImages", "normals -> angles -> normals does not return the normalised normals "
                     "(%s)" % (back[:3].tolist(),), case, sig2)
    ctx.ran(case)


# ---- L3: real-valued cases ----------------------------------------------------------------------------------
def axis_angle_matrix(ax, ang_rad):
    ax = np.asarray(ax, dtype=float)
    ax = ax / np.linalg.norm(ax)
    K = np.array([[0, -ax[2], ax[1]], [ax[2], 0, -ax[0]], [-ax[1], ax[0], 0]])
    return np.eye(3) + math.sin(ang_rad) * K + (1 - math.cos(ang_rad)) * (K @ K)


def rand_axis(rng):
    while True:
        v = [rng.gauss(0, 1) for _ in range(3)]
        if math.sqrt(sum(x * x for x in v)) > 1e-3:
            return v


def rand_euler(rng, flavour=None):
    flavour = flavour or rng.choice(["random", "random", "random", "gimbal", "lattice45", "wide"])
    if flavour == "gimbal":
        return [rng.uniform(-180, 180), rng.choice([0.0, 180.0, -180.0]), rng.uniform(-180, 180)]
    if flavour == "lattice45":
        return [45.0 * rng.randint(-8, 8), 45.0 * rng.randint(0, 4), 45.0 * rng.randint(-8, 8)]
    if flavour == "wide":
        return [rng.uniform(-360, 360), rng.uniform(-180, 180), rng.uniform(-360, 360)]
    return [rng.uniform(-180, 180), rng.uniform(0, 180), rng.uniform(-180, 180)]


def euler_of_matrix(m):
    return [float(x) for x in geo.zxz_from_matrix(m)]


EDGE_FAMILIES = ["z_antipodal", "z_antipodal", "z_antipodal", "z_antipodal", "z_equal", "phi_equal", "phi_opposite", "antipodal", "near"]


def gen_pair_case(rng, idx, family=None):
    """Three orientations A, B, C as zxz triples plus a common rotation Q.  With `family` only the pair (A, B) of that
    class is measured (generic orientations whose z-axes / in-plane angles / relative rotation sit exactly at 0 or 180)."""
    cls = family or rng.choice(["random", "random", "near", "antipodal", "gimbal", "lattice45", "equal", "equal_shift",
                                "equal_gimbal", "z_antipodal", "z_equal", "phi_equal", "phi_opposite"])
    a = rand_euler(rng, {"gimbal": "gimbal", "lattice45": "lattice45", "equal_gimbal": "gimbal"}.get(cls))
    ma = geo.zxz_matrix(*a)
    same = False
    if cls == "near":
        b = euler_of_matrix(ma @ axis_angle_matrix(rand_axis(rng), rng.choice([1e-7, 1e-7, 1e-6, 1e-4, 2e-5, 3e-4, 8e-4])))       # down to 1e-7 rad, up to 0.05 degree
    elif cls == "antipodal":
        b = euler_of_matrix(ma @ axis_angle_matrix(rand_axis(rng), math.pi))
    elif cls == "gimbal":
        b = rand_euler(rng, rng.choice(["gimbal", "random"]))
    elif cls == "lattice45":
        b = rand_euler(rng, "lattice45")
    elif cls == "z_antipodal":
        # z-axis of zxz(phi, theta, psi) is Rz(psi) Rx(theta) e_z: three ways to the opposite z-axis, any in-plane angle
        w = rng.randrange(3)
        if w == 0:
            b = euler_of_matrix(ma @ geo.rx(180.0) @ geo.rz(rng.uniform(-180, 180)))
        elif w == 1:
            b = [rng.uniform(-180, 180), a[1] + 180.0, a[2]]
        else:
            b = [rng.uniform(-180, 180), 180.0 - a[1], a[2] + 180.0]
    elif cls == "z_equal":
        b = [rng.uniform(-180, 180), a[1], a[2]] if rng.random() < 0.5 else euler_of_matrix(ma @ geo.rz(rng.uniform(-180, 180)))
    elif cls == "phi_equal":
        b = [a[0], rng.uniform(0, 180), rng.uniform(-180, 180)]
    elif cls == "phi_opposite":
        b = [a[0] + 180.0, rng.uniform(0, 180), rng.uniform(-180, 180)]
    elif cls == "equal":
        b = list(a)
        same = True
    elif cls == "equal_shift":
        b = [a[0] + 360.0 * rng.choice([-1, 0, 1]), a[1], a[2] + 360.0 * rng.choice([-1, 0, 1])]
        same = True
    elif cls == "equal_gimbal":
        # at theta = 0 only phi + psi counts, at theta = 180 only phi - psi: move part of psi into phi (dyadic amount)
        t = float(rng.choice([-64, -32.5, 16, 45, 90]))
        b = [a[0] + t, a[1], a[2] - t] if a[1] == 0.0 else [a[0] + t, a[1], a[2] + t]
        same = True
    else:
        b = rand_euler(rng)
    c = rand_euler(rng)
    q = rand_euler(rng, "random")
    return {"kind": "l3_pairs", "id": idx, "cls": cls, "same": same, "a": a, "b": b, "c": c, "q": q,
            "single": family is not None}


def gen_batch_case(rng, idx, big):
    """n pairs handed over in one call per entry point: (n,3) Euler arrays and n-element Rotations, every n in 1..8"""
    n = rng.choice([1, 2, 3, 3, 3, 4, 5, 6, 7, 8] + ([rng.randint(9, 40), rng.randint(41, 500)] if big else [rng.randint(9, 30)]))
    pairs = [gen_pair_case(rng, 0) for _ in range(n)]
    return {"kind": "l3_batch", "id": idx, "a": [p["a"] for p in pairs], "b": [p["b"] for p in pairs]}


def gen_conv_case(rng, idx):
    """n pairs of orientations given as Euler arrays of another convention (intrinsic / extrinsic, other axes)"""
    conv = rng.choice(CONVS)
    n = rng.choice([1, 1, 2, 3, 4, 5])

    def ang():
        mid = rng.choice([rng.uniform(-180, 180), rng.uniform(-180, 180), rng.uniform(-180, 180), 0.0, 90.0, 180.0, -90.0])
        return [rng.uniform(-180, 180), mid, rng.uniform(-180, 180)]
    return {"kind": "l3_batch", "id": idx, "conv": conv, "a": [ang() for _ in range(n)], "b": [ang() for _ in range(n)]}


def batch_trace(case):
    disturb(case.get("disturb"))
    ea, eb = np.asarray(case["a"], dtype=float), np.asarray(case["b"], dtype=float)
    n = ea.shape[0]
    conv = case.get("conv")
    ev = {"kind": "batch", "n": n, "conv": conv or "zxz", "gt": [], "zgt": [], "ang": [], "cone": [], "ip": [], "frame_ok": True}
    for i in range(n):
        ma = conv_matrix(conv, ea[i]) if conv else geo.zxz_matrix(*ea[i])
        mb = conv_matrix(conv, eb[i]) if conv else geo.zxz_matrix(*eb[i])
        ev["gt"].append(q4(geo.rot_angle_deg(ma.T @ mb)))
        ev["zgt"].append(q4(zangle(ma, mb)))
    if conv:
        obs = measure_conv(ea, eb, conv)
        ev["ang"] = [[q4(x) for x in obs["angular_distance"]]]
        ev["cone"] = [[q4(x) for x in obs["cone_inplane_distance.cone"]]]
        ev["ip"] = [[q4(x) for x in obs["cone_inplane_distance.inplane"]]]
        return [ev]
    ev["frame_ok"] = True
    for form in ("array", "rot"):
        obs = measure_pairs(ea, eb, form, case.get("storage", "c_float64"), case.get("single", "1d"))
        ev["ang"] += [[q4(x) for x in obs[k]] for k in ANG_KEYS if k in obs]
        ev["cone"] += [[q4(x) for x in obs[k]] for k in CONE_KEYS if k in obs]
        ev["ip"] += [[q4(x) for x in obs[k]] for k in IP_KEYS if k in obs]
        ev["frame_ok"] = ev["frame_ok"] and not obs["_frame"]
    return [ev]


def q4(x):
    """angle in degrees -> integer units of 1e-4 degree; non-finite -> NaNCode"""
    x = float(x)
    if not math.isfinite(x):
        return NAN_CODE
    return int(max(-999999999, min(999999999, round(x * 1e4))))


def q9(x):
    x = float(x)
    if not math.isfinite(x):
        return NAN_CODE
    return int(min(999999999, round(abs(x) * 1e9)))


def zangle(m1, m2):
    """angle between the two z-axes from the matrices (stable atan2 form)"""
    u, v = m1[:, 2], m2[:, 2]
    return math.degrees(math.atan2(float(np.linalg.norm(np.cross(u, v))), float(np.dot(u, v))))


def pair_event(ea, eb, eq, same):
    """Measure the pair (ea, eb) through cryocat.geom and project to integers.  Raises inside the library propagate to
    the caller's call_guarded."""
    from cryocat import geom
    ea, eb = np.asarray(ea, dtype=float), np.asarray(eb, dtype=float)
    ma, mb, mq = geo.zxz_matrix(*ea), geo.zxz_matrix(*eb), geo.zxz_matrix(*eq)
    ra, rb = rot_of(ea), rot_of(eb)
    first = lambda x: float(as1d(x)[0])
    ev = {"kind": "pair", "same": bool(same),
          "gt": q4(geo.rot_angle_deg(ma.T @ mb)), "zgt": q4(zangle(ma, mb))}
    cmp_arr = geom.compare_rotations(ea.copy(), eb.copy())
    cmp_rot = geom.compare_rotations(ra, rb)
    ci_arr = geom.cone_inplane_distance(ea.copy(), eb.copy())
    ev["ang"] = [q4(first(geom.angular_distance(ea.copy(), eb.copy())[0])), q4(first(geom.angular_distance(ra, rb)[0])),
                 q4(first(cmp_arr[0])), q4(first(cmp_rot[0]))]
    ev["ang_ba"] = q4(first(geom.angular_distance(eb.copy(), ea.copy())[0]))
    ev["ang_aa"] = q4(first(geom.angular_distance(ea.copy(), ea.copy())[0]))
    ev["ang_bb"] = q4(first(geom.angular_distance(rb, rot_of(eb))[0]))
    # common rotation on the left (Rotation form) and on the right (array form, Euler angles from the driver's own
    # matrix -> zxz routine)
    ev["ang_l"] = q4(first(geom.angular_distance(rot_of_matrix(mq @ ma), rot_of_matrix(mq @ mb))[0]))
    ear, ebr = np.array(euler_of_matrix(ma @ mq)), np.array(euler_of_matrix(mb @ mq))
    ev["ang_r"] = q4(first(geom.angular_distance(ear, ebr)[0]))
    ev["cone"] = [q4(first(geom.cone_distance(ra, rb))), q4(first(ci_arr[0])), q4(first(cmp_arr[1])), q4(first(cmp_rot[1]))]
    ev["cone_aa"] = q4(first(geom.cone_distance(ra, rot_of(ea))))
    ev["ip"] = [q4(first(geom.inplane_distance(ra, rb))), q4(first(ci_arr[1])), q4(first(cmp_arr[2])), q4(first(cmp_rot[2]))]
    ev["ip_aa"] = q4(first(geom.cone_inplane_distance(ea.copy(), ea.copy())[1]))
    ev["ip_bb"] = q4(first(geom.inplane_distance(rb, rot_of(eb))))
    return ev


def rot_of_matrix(m):
    from scipy.spatial.transform import Rotation
    return Rotation.from_matrix(m)


def triple_event(ea, eb, ec, form):
    from cryocat import geom
    if form == "array":
        A, B, C = [np.asarray(x, dtype=float) for x in (ea, eb, ec)]
    else:
        A, B, C = rot_of(ea), rot_of(eb), rot_of(ec)
    d = lambda x, y: q4(float(as1d(geom.angular_distance(x, y)[0])[0]))
    return {"kind": "triple", "dab": d(A, B), "dbc": d(B, C), "dac": d(A, C)}


def pairs_trace(case):
    a, b, c, q = case["a"], case["b"], case["c"], case["q"]
    if case.get("history") is not None:
        # the same measurement before and after another public call with non-default options
        before = pair_event(a, b, q, case["same"])
        disturb(case["history"])
        after = pair_event(a, b, q, case["same"])
        flat = lambda ev: [v for key in sorted(ev) if key not in ("kind", "same") for v in (ev[key] if isinstance(ev[key], list) else [ev[key]])]
        return [before, after, {"kind": "history", "disturb": case["history"] % N_DISTURB, "before": flat(before), "after": flat(after)}]
    disturb(case.get("disturb"))
    if case.get("single"):
        return [pair_event(a, b, q, case["same"])]
    return [pair_event(a, b, q, case["same"]), pair_event(b, c, q, False), pair_event(c, a, q, False),
            triple_event(a, b, c, "array"), triple_event(c, a, b, "rot")]


def gen_normals_case(rng, idx, big):
    n = rng.choice([1, 1, 2, 3, rng.randint(1, 20), rng.randint(1, 60)] + ([rng.randint(100, 500), 500] if big else []))
    eul = [rand_euler(rng) for _ in range(n)]
    m = rng.choice([1, 1, 2, rng.randint(1, 20)] + ([rng.randint(100, 500)] if big else []))
    normals = []
    for _ in range(m):
        kind = rng.choice(["random", "random", "axis", "pmz", "nearz", "plane", "tiny", "huge"])
        if kind == "axis":
            v = [0.0, 0.0, 0.0]
            v[rng.randrange(3)] = rng.choice([-1, 1]) * rng.choice([1.0, 2.0, 0.875, rng.uniform(0.01, 50)])
        elif kind == "pmz":
            v = [0.0, 0.0, rng.choice([-1, 1]) * rng.uniform(0.01, 50)]
        elif kind == "nearz":
            v = [rng.uniform(-1, 1) * 1e-3, rng.uniform(-1, 1) * 1e-3, rng.choice([-1.0, 1.0])]
        elif kind == "plane":
            v = [rng.uniform(-3, 3), rng.uniform(-3, 3), rng.uniform(-3, 3)]
            v[rng.randrange(3)] = 0.0
            if max(abs(x) for x in v) < 1e-3:
                v[0] = 1.0
        else:
            v = rand_axis(rng)
            s = {"tiny": 1e-3, "huge": 1e3}.get(kind, rng.uniform(0.1, 10))
            v = [x * s for x in v]
        normals.append([float(x) for x in v])
    stored = rng.choice(["float", "float", "frame", "int64", "int32", "frame_int"])
    if "int" in stored:
        normals = []
        for _ in range(m):
            while True:
                v = [rng.randint(-12, 12) for _ in range(3)]
                if any(v):
                    break
            if rng.random() < 0.2:
                v = [0, 0, rng.choice([-3, -1, 1, 5])]
            normals.append(v)
    return {"kind": "l3_normals", "id": idx, "euler": eul, "normals": normals, "stored": stored, "npseed": rng.randrange(2 ** 31)}


def normals_trace(case):
    from cryocat import geom
    e = np.asarray(case["euler"], dtype=float).reshape(-1, 3)
    got = np.asarray(geom.euler_angles_to_normals(e.copy()), dtype=float)
    ev1 = {"kind": "normals", "n": int(e.shape[0]), "rows": int(got.shape[0]) if got.ndim == 2 else -1,
           "cols": int(got.shape[1]) if got.ndim == 2 else -1, "norm": [], "dev": []}
    if got.ndim == 2 and got.shape == e.shape:
        for k in range(e.shape[0]):
            z = geo.zxz_matrix(*e[k])[:, 2]
            ev1["norm"].append(q9(np.linalg.norm(got[k]) - 1.0))
            ev1["dev"].append(q9(np.max(np.abs(got[k] - z))))
    v = np.asarray(case["normals"], dtype=float).reshape(-1, 3)
    out = [ev1]
    for order in ("zxz", "zzx"):
        np.random.seed(case["npseed"])
        stored = case.get("stored", "float")
        if "int" in stored:
            arg = np.asarray(case["normals"], dtype=np.int32 if stored == "int32" else np.int64).reshape(-1, 3)
        else:
            arg = v.copy()
        if stored.startswith("frame"):
            arg = inputforms.frame(arg, ["x", "y", "z"], case["npseed"] % 1200)
        ang = np.asarray(geom.normals_to_euler_angles(arg, output_order=order), dtype=float)
        ev2 = {"kind": "tonormal", "order": order, "stored": case.get("stored", "float"), "n": int(v.shape[0]), "rows": int(ang.shape[0]) if ang.ndim == 2 else -1,
               "cols": int(ang.shape[1]) if ang.ndim == 2 else -1, "dev": []}
        if ang.ndim == 2 and ang.shape == v.shape:
            if order == "zzx":
                ang = ang[:, [0, 2, 1]]      # listed as (phi, psi, theta)
            for k in range(v.shape[0]):
                want = v[k] / math.sqrt(float(v[k] @ v[k]))
                if finite(ang[k]):
                    ev2["dev"].append(q9(np.max(np.abs(geo.zxz_matrix(*ang[k])[:, 2] - want))))
                else:
                    ev2["dev"].append(NAN_CODE)
        out.append(ev2)
    return out


FIELD_OP = {"ang": "angular_distance", "ang_ba": "angular_distance", "ang_aa": "angular_distance",
            "ang_bb": "angular_distance", "ang_l": "angular_distance", "ang_r": "angular_distance",
            "triple": "angular_distance", "dab": "angular_distance", "dbc": "angular_distance", "dac": "angular_distance",
            "cone": "cone_distance", "cone_aa": "cone_distance", "ip": "inplane_distance", "ip_aa": "inplane_distance",
            "ip_bb": "inplane_distance"}


def signature_for(case, ev, verdict):
    f = verdict["field"]
    if ev["kind"] in ("pair", "triple"):
        vals = ev.get(f) if f in ev else [ev.get(k) for k in ("dab", "dbc", "dac")]
        vals = vals if isinstance(vals, list) else [vals]
        cls = "equal" if (f in ("ang_aa", "ang_bb", "cone_aa", "ip_aa", "ip_bb") or ev.get("same")) else case.get("cls", "random")
        if cls.startswith("equal"):
            cls = "equal"
        return {"op": FIELD_OP.get(f, "angular_distance"), "pair": cls, "nan": any(v == NAN_CODE for v in vals)}
    if ev["kind"] == "history":
        return {"op": "disturb%d" % ev["disturb"], "pair": case.get("cls", ""), "nan": NAN_CODE in ev["after"]}
    if ev["kind"] == "batch":
        return {"op": {"ang": "angular_distance", "cone": "cone_distance", "ip": "inplane_distance"}.get(f, "distances"),
                "convention": ev.get("conv", "zxz"), "pair": "batch%d" % ev["n"] if ev["n"] <= 8 else "batch_many", "nan": NAN_CODE in sum(ev.get(f, [[]]) if f in ("ang", "cone", "ip") else [[]], [])}
    if ev["kind"] == "normals":
        return {"op": "euler_angles_to_normals", "batch": "one" if ev["n"] == 1 else "many"}
    return {"op": "normals_to_euler_angles", "normal": "real", "order": ev.get("order", "zxz"),
            "stored": "int" if "int" in ev.get("stored", "float") else "float"}


def run_l3(ctx, cases, name="trace"):
    traces = []
    for case in cases:
        fn = {"l3_pairs": pairs_trace, "l3_batch": batch_trace}.get(case["kind"], normals_trace)
        evs, err = core.call_guarded(fn, case)
        if err is not None:
            sig = {"op": "distances", "pair": case.get("cls", "batch%d" % len(case["a"]) if case["kind"] == "l3_batch" else ""),
                   "nan": False} if case["kind"] in ("l3_pairs", "l3_batch") else {"op": "normals", "batch": "many"}
            ctx.fail("call_raises", err, case, sig)
            evs = []
        traces.append({"id": case["id"], "ev": evs})
        ctx.ran(case)
    wd = ctx.sub(name)
    path = os.path.join(wd, "traces.ndjson")
    with open(path, "w") as fh:
        for t in traces:
            fh.write(json.dumps(t) + "\n")
    cfgt = "SPECIFICATION TraceSpec\nCONSTANTS\n AngTol = 2\n VecTol = 1000\nCONSTRAINT Report\n"
    res = ctx.tlc("RotGeomTrace", cfgt, name=name, env={"TRACE_FILE": path}, workers=1)
    verdicts = {v["tid"]: v for v in res.tagged.get("VERDICT", [])}
    if len(verdicts) != len(traces):
        raise core.MachineryError("RotGeomTrace returned %d verdicts for %d traces\n%s" % (
            len(verdicts), len(traces), res.stdout[-2000:]))
    for i, case in enumerate(cases):
        v = verdicts[i + 1]
        if not v["ok"]:
            ev = traces[i]["ev"][v["step"] - 1]
            ctx.fail(v["clause"], "event %d (%s) rejected by RotGeomTrace, field %s: %s" % (
                v["step"], ev["kind"], v["field"], json.dumps(ev)[:600]), case, signature_for(case, ev, v))
    return res


# ---- replay -----------------------------------------------------------------------------------------------
def tla_tuple(v):
    return "<<" + ", ".join(str(int(x)) for x in v) + ">>"


def spec_expected(ctx, case):
    """Ask the specification again for the expected values of one L2 case (a replay does not trust the stored ones):
    a generated module restricts MC_RotGeom's scope to the inputs of this case."""
    k = case["kind"]
    pairs, batches, normals = "{}", "{}", "{}"
    if k in ("l2_pair", "l2_conv"):
        pairs = "{ " + ", ".join("<<FromCode(%s), FromCode(%s)>>" % (tla_tuple(a), tla_tuple(b)) for a, b in case["codes"]) + " }"
    elif k == "l2_batch":
        batches = "{ <<" + ", ".join("FromCode(%s)" % tla_tuple(c) for c in case["codes"]) + ">> }"
    else:
        normals = "{ " + ", ".join(tla_tuple(v) for v in case["vecs"]) + " }"
    path = os.path.join(ctx.sub("replaymod"), "RotGeomReplay.tla")
    with open(path, "w") as fh:
        fh.write("---- MODULE RotGeomReplay ----\nEXTENDS MC_RotGeom\nRPairs == %s\nRBatches == %s\nRNormals == %s\n====\n" % (
            pairs, batches, normals))
    res = ctx.tlc("RotGeomReplay", cfg("RPairs", "RBatches", "RNormals", "tr"), name="replayspec", workers=1,
                  extra_modules=[path])
    key = lambda inp: json.dumps(inp, sort_keys=True)
    table = {key(t["inp"]): t["out"] for t in res.records}
    if k in ("l2_pair", "l2_conv"):
        exp = [table[key({"a": a, "b": b})] for a, b in case["codes"]]
    elif k == "l2_batch":
        exp = table[key({"rots": case["codes"]})]["normals"]
    else:
        exp = [table[key({"v": v})]["zaxis"] for v in case["vecs"]]
    if json.dumps(exp, sort_keys=True) != json.dumps(case["expected"], sort_keys=True):
        raise core.MachineryError("replay file disagrees with the specification about the expected values")
    return exp


def replay(ctx, case):
    k = case["kind"]
    if k in ("l2_pair", "l2_batch", "l2_normal", "l2_conv"):
        case = dict(case)
        case["expected"] = spec_expected(ctx, case)
        {"l2_conv": run_l2_conv, "l2_pair": run_l2_pairs, "l2_batch": run_l2_batch, "l2_normal": run_l2_normals}[k](ctx, case)
    elif k in ("l3_pairs", "l3_normals", "l3_batch"):
        run_l3(ctx, [case], name="replay")
    else:
        raise core.MachineryError("unknown case kind %r" % k)


# ---- main ---------------------------------------------------------------------------------------------------
def run(ctx):
    ctx.rule = ("L2: every transition of MC_RotGeom - all 576 ordered pairs of cube rotations (each through several Euler "
                "representatives incl. +-360 shifts, ndarray and Rotation inputs, singly and as one 576-batch), batches of "
                "1..6 and 100..500 orientations, axis-aligned / +-z / rational normals of several lengths - replayed into "
                "cryocat.geom against the values TLC printed; L3: random real pairs/triples (random, near-identical, "
                "antipodal, gimbal lock, 45-degree lattice, equal by different triples) and real normals validated by "
                "RotGeomTrace. distinct = distinct concrete calls (inputs incl. representation)")
    ctx.assumptions += [
        "projection alpha: own Euler->matrix routine; relative-rotation angle and z-axis angle of the inputs from the "
        "driver's matrices (atan2 forms); angles compared at 2e-4 degree, vectors at 1e-9 (exact layer) / 1e-6 (real)",
        "the in-plane distance is only constrained as the property words it: in [0,180], 0 for equal orientations",
        "Euler conventions follow scipy's naming (lower case extrinsic, upper case intrinsic); the driver builds the matrices "
        "of every convention itself",
        "output_order='zzx' of normals_to_euler_angles lists the same orientation as (phi, psi, theta)",
        "normals_to_euler_angles draws phi from numpy's global generator; the driver seeds it per call",
    ]
    W = 4
    # ---- L1
    ctx.tlc("CubeLaws", "SPECIFICATION Spec\n", name="cubelaws", workers=W)
    ctx.tlc("RotGeomLaws", cfg("LawPairs", "Empty", "Empty", "none", invs=["TypeOK"]), name="laws", workers=W)
    res = ctx.tlc("MC_RotGeom", cfg("MCPairs", ctx.pick("MCBatchesQuick", "MCBatchesThorough"), "MCNormals", "tr"),
                  name="l2", workers=1)
    trs = res.records
    pairs = [t for t in trs if t["kind"] == "pair"]
    batches = [t for t in trs if t["kind"] == "batch"]
    normals = [t for t in trs if t["kind"] == "normal"]
    if len(pairs) != 576 or not batches or len(normals) < 100:
        raise core.MachineryError("MC_RotGeom emitted %d pairs, %d batches, %d normals" % (len(pairs), len(batches), len(normals)))
    ctx.exhaustive["L1_MC_RotGeom"] = True
    ctx.exhaustive["L2_pairs_576"] = True
    ctx.extra["transitions_emitted"] = len(trs)

    # ---- L2 pairs: each pair singly through `reps` random Euler representatives x both input forms
    reps = ctx.pick(2, 12)
    rng = ctx.rng
    for t in pairs:
        for r in range(reps):
            ea = geo.euler_for_code(t["inp"]["a"], rng if r else None)
            eb = geo.euler_for_code(t["inp"]["b"], rng if r else None)
            for form in ("array", "rot"):
                run_l2_pairs(ctx, {"kind": "l2_pair", "form": form, "disturb": pick_disturb(rng, 0.3),
                               "storage": rng.choice(inputforms.FORMS[:6]), "single": rng.choice(["1d", "batch1"]), "ea": [ea], "eb": [eb],
                                   "codes": [[t["inp"]["a"], t["inp"]["b"]]], "expected": [t["out"]]})
    # ... and all 576 in one call (batch semantics: one value per pair)
    for r in range(ctx.pick(2, 10)):
        order = list(range(len(pairs)))
        rng.shuffle(order)
        sel = [pairs[i] for i in order]
        for form in ("array", "rot"):
            run_l2_pairs(ctx, {"kind": "l2_pair", "form": form, "disturb": pick_disturb(rng, 0.3),
                               "storage": rng.choice(inputforms.FORMS[:6]), "single": rng.choice(["1d", "batch1"]),
                               "ea": [geo.euler_for_code(t["inp"]["a"], rng) for t in sel],
                               "eb": [geo.euler_for_code(t["inp"]["b"], rng) for t in sel],
                               "codes": [[t["inp"]["a"], t["inp"]["b"]] for t in sel],
                               "expected": [t["out"] for t in sel]})
    # ... and in batches of every small size (an (n,3) Euler array with n = 3 is a 3x3 array) and a few larger ones
    for n in [1, 2, 3, 4, 5, 6] * ctx.pick(3, 12) + [7, 9, 24] * ctx.pick(1, 4):
        sel = [pairs[rng.randrange(len(pairs))] for _ in range(n)]
        for form in ("array", "rot"):
            run_l2_pairs(ctx, {"kind": "l2_pair", "form": form, "disturb": pick_disturb(rng, 0.3),
                               "storage": rng.choice(inputforms.FORMS[:6]), "single": rng.choice(["1d", "batch1"]),
                               "ea": [geo.euler_for_code(t["inp"]["a"], rng) for t in sel],
                               "eb": [geo.euler_for_code(t["inp"]["b"], rng) for t in sel],
                               "codes": [[t["inp"]["a"], t["inp"]["b"]] for t in sel],
                               "expected": [t["out"] for t in sel]})
    # ... and the same cube pairs described in other Euler conventions (the `convention` option of the array entry points)
    for conv in CONVS:
        order = list(range(len(pairs)))
        rng.shuffle(order)
        step = 6
        for k in range(0, len(order), step):
            sel = [pairs[i] for i in order[k:k + step]]
            run_l2_conv(ctx, {"kind": "l2_conv", "conv": conv, "disturb": pick_disturb(rng, 0.3), "storage": rng.choice(inputforms.FORMS[:6]),
                              "ea": [conv_euler_for_code(conv, t["inp"]["a"], rng) for t in sel],
                              "eb": [conv_euler_for_code(conv, t["inp"]["b"], rng) for t in sel],
                              "codes": [[t["inp"]["a"], t["inp"]["b"]] for t in sel], "expected": [t["out"] for t in sel]})
    ctx.exhaustive["L2_conventions"] = True
    # ---- L2 batches
    for t in batches:
        for r in range(ctx.pick(1, 3)):
            eul = [geo.euler_for_code(c, rng if r else None) for c in t["inp"]["rots"]]
            n_ = len(eul)
            run_l2_batch(ctx, {"kind": "l2_batch", "euler": eul, "codes": t["inp"]["rots"],
                               "expected": t["out"]["normals"], "storage": inputforms.pick(rng, eul, containers=True),
                               "plot": n_ >= 100 or rng.random() < 0.04})
    # ---- L2 normals: singly (array / DataFrame), and all of them in one call
    for t in normals:
        for form in ("array", "frame", "int64", "int32", "frame_int"):
            for order in ("zxz", "zzx"):
                run_l2_normals(ctx, {"kind": "l2_normal", "form": form, "order": order, "vecs": [t["inp"]["v"]],
                                     "storage": inputforms.pick(rng, [[x / geo.U for x in t["inp"]["v"]]]),
                                     "frame_k": rng.randrange(1200),
                                     "expected": [t["out"]["zaxis"]], "npseed": rng.randrange(2 ** 31)})
    for r in range(ctx.pick(12, 36)):
        order = list(range(len(normals)))
        rng.shuffle(order)
        sel = [normals[i] for i in order[:rng.randint(2, len(order))]]
        run_l2_normals(ctx, {"kind": "l2_normal", "form": ["array", "frame", "int64", "frame_int", "frame", "frame"][r % 6], "order": ["zxz", "zzx"][(r // 2) % 2],
                             "storage": ["fortran", "noncontiguous", "readonly", "c_float64"][r % 4], "frame_k": rng.randrange(1200),
                             "vecs": [t["inp"]["v"] for t in sel], "expected": [t["out"]["zaxis"] for t in sel],
                             "npseed": rng.randrange(2 ** 31)})
    ctx.exhaustive["L2_batches_and_normals"] = True
    # ---- L3
    npairs = ctx.pick(400, 20000)
    nnorm = ctx.pick(60, 3000)
    cases = [gen_pair_case(rng, i + 1) for i in range(npairs)]
    # generic orientations whose z-axes / in-plane angles / relative rotations sit exactly at 0 or 180 degrees: rounding
    # events there are rare (~1 %), so the family is large
    nedge = ctx.pick(1500, 15000)
    cases += [gen_pair_case(rng, 0, family=EDGE_FAMILIES[i % len(EDGE_FAMILIES)]) for i in range(nedge)]
    cases += [gen_batch_case(rng, 0, not ctx.quick) for _ in range(ctx.pick(120, 3000))]
    cases += [gen_conv_case(rng, 0) for _ in range(ctx.pick(250, 6000))]
    for c in cases:
        c["disturb"] = pick_disturb(rng, 0.4)
        if c["kind"] == "l3_batch" and "conv" not in c:
            c["storage"] = rng.choice(["c_float64", "fortran", "noncontiguous", "readonly"])
            c["single"] = rng.choice(["1d", "batch1"])
    # call-history independence, measured explicitly: same pair before / after another public call with other options
    for i in range(ctx.pick(250, 5000)):
        c = gen_pair_case(rng, 0, family=rng.choice(["random", "random", "gimbal", "z_equal", "near", "lattice45"]))
        c["history"] = rng.randrange(10 ** 6)
        cases.append(c)
    for i, c in enumerate(cases):
        c["id"] = i + 1
    cases += [gen_normals_case(rng, len(cases) + i + 1, big=(not ctx.quick) or i % 10 == 0) for i in range(nnorm)]
    chunk = 4000
    for k in range(0, len(cases), chunk):
        run_l3(ctx, cases[k:k + chunk], name="trace%d" % (k // chunk))

"""C18 - nearest-neighbour analysis (nnana.get_nn_stats).

L1: MC_NearestNbr.tla - count / same tomogram / optimality / ascending order / payload as invariants of every state,
    invariance under rigid motion of a tomogram as an action property (all 24 cube rotations x translations).
L2: every state TLC explores (lattice clouds, cube orientations, moved states) is rebuilt as two Motl objects and run
    through get_nn_stats; the table TLC derived for that state is the expected value, compared row by row.
L3: random real-valued lists incl. rigid motions; brute-force distance relations and payload residuals are decided by
    NearestNbrTrace.tla."""
import json
import math
import os

import numpy as np

from .. import argguard, core, geo, motlutil

ANG_TOL = 2e-4
SNAP = 1e-9
CAP = 999999999

INVS = ["TypeOK", "C18_TiesStayExcluded", "C18_Count", "C18_SameTomogramOnly", "C18_Optimal", "C18_Ascending",
        "C18_Payload"]


def cfg(configs, rots, shifts, depth, mode, invs=INVS):
    lines = ["SPECIFICATION Spec", "CONSTANTS", " Configs <- %s" % configs, " MoveRots <- %s" % rots,
             " MoveShifts <- %s" % shifts, " MaxDepth = %d" % depth, ' EmitMode = "%s"' % mode]
    lines += ["INVARIANT %s" % i for i in invs]
    lines += ["PROPERTY C18_MotionInvariant"]
    if mode == "st":
        lines += ["CONSTRAINT EmitST"]
    return "\n".join(lines) + "\n"


# ---- interpretation: abstract list -> Motl ------------------------------------------------------------------
# identifier values (BUILDING.md dimension 10): what the abstract tomograms 1, 2, 3 of the specification are called in the
# concrete lists - any numbers will do, in particular 0 and large consecutive ones
TOMO_NAMES = [{1: 1, 2: 2, 3: 3}, {1: 0, 2: 3, 3: 5}, {1: 7, 2: 0, 3: 2}, {1: 100000, 2: 100001, 3: 99999},
              {1: 240116, 2: 240115, 3: 240117}, {1: 999999, 2: 1000000, 3: 1000001}, {1: 0, 2: 1, 3: 2}]


def build_motl(parts, rng, real=False, names=None):
    """parts: list of {sid, t, p, r} (lattice/cube, L2) or {sid, t, pos, ang} (real, L3).  The complete position is split
    into an integer-ish coordinate and a shift (non-zero shifts are part of the quantifier)."""
    from cryocat import cryomotl
    n = len(parts)
    cols = motlutil.empty_rows(n)
    for i, p in enumerate(parts):
        if real:
            pos = list(p["pos"])
            sh = list(p["shift"])
            ang = p["ang"]
        else:
            full = [v / geo.U for v in p["p"]]
            mode = rng.randrange(3)
            if mode == 0:       # integral coordinate, |shift| <= 0.5
                xs = [float(math.floor(v + 0.5)) for v in full]
            elif mode == 1:     # coordinate off by a few eighths / voxels in either direction
                xs = [v - rng.choice([-1.625, -0.5, 0.125, 0.75, 2.0]) for v in full]
            else:               # everything in the coordinate
                xs = list(full)
            pos, sh = xs, [full[j] - xs[j] for j in range(3)]
            ang = geo.euler_for_code(p["r"], rng)
        cols["x"][i], cols["y"][i], cols["z"][i] = pos
        cols["shift_x"][i], cols["shift_y"][i], cols["shift_z"][i] = sh
        cols["phi"][i], cols["theta"][i], cols["psi"][i] = ang
        cols["tomo_id"][i] = names[p["t"]] if names else p["t"]
        cols["subtomo_id"][i] = p["sid"]
        cols["object_id"][i] = i % 3                 # object and class numbers include 0
        cols["class"][i] = (i // 2) % 2
        cols["score"][i] = 0.1 * (i + 1)
    # row labels are not part of a particle list: default, permuted or gapped labels must give the same analysis
    # ... nor is the order of the 20 named columns, nor whether whole-numbered positions are stored as integers
    df = motlutil.df_from_cols(cols)
    if rng.random() < 0.3:
        df = motlutil.int_positions(df)
    return cryomotl.Motl(motlutil.vary_columns(motlutil.vary_index(df, rng.randrange(1000)), rng.randrange(1000)))


def disturb18(k, ma, mb):
    """Call-history independence: other public nnana calls on the same lists (other options) before the judged call."""
    if k is None:
        return
    from cryocat import nnana

    def quiet(fn, *a, **kw):
        try:
            fn(*a, **kw)
        except Exception:
            pass
    pick = k % 5
    if pick == 0:
        quiet(nnana.get_nn_within_distance, ma, 3.0, unique_only=False)
    elif pick == 1:
        quiet(nnana.get_feature_nn_indices, ma, mb, 2)
    elif pick == 2:
        quiet(nnana.get_nn_distances, mb, ma, pixel_size=2.5, nn_number=3, rotation_type="cone_distance")
    elif pick == 3:
        quiet(nnana.get_nn_rotations, mb, ma, nn_number=2)
    else:
        quiet(nnana.get_nn_stats, mb, ma, pixel_size=0.5, nn_number=4, rotation_type="in_plane_distance")


def rows_by_query(table):
    """table returned by get_nn_stats -> {query sid: [row dict, ...] in table order}"""
    out = {}
    cols = list(table.columns)
    arr = table[[c for c in cols if c != "type"]].to_numpy(dtype=float)
    names = [c for c in cols if c != "type"]
    for r in arr:
        row = dict(zip(names, r.tolist()))
        out.setdefault(row["subtomo_idx"], []).append(row)
    return out


# ---- L2 --------------------------------------------------------------------------------------------------
def run_state(ctx, case):
    """case: {kind: l2_state, scope, A, B, k, px, table, variant}"""
    import random
    from cryocat import nnana
    rng = random.Random(case["variant"])
    A, B, k, px = case["A"], case["B"], case["k"], case["px"]
    pxf = px[0] / px[1]
    sig0 = {"op": "get_nn_stats", "scope": case.get("scope", "")}

    names = TOMO_NAMES[(case["variant"] // 3) % len(TOMO_NAMES)]
    sig0["tomograms"] = "0" if 0 in names.values() else ("large" if max(names.values()) > 90000 else "small")
    ma = build_motl(A, rng, names=names)
    same = (A == B)
    mb = ma if (same and case["variant"] % 2 == 0) else build_motl(B, rng, names=names)
    guard = argguard.Guard(motl_a=ma.df, motl_nn=mb.df)
    arg_a, arg_b = ma, mb
    if case["variant"] % 6 == 5:
        # the lists handed over as file names (documented: Motl or str); EM files hold float32 - lattice positions,
        # quarter-turn angles and the identifiers are exact in it
        pa_, pb_ = os.path.join(ctx.workdir, "nn_a_%d.em" % case["variant"]), os.path.join(ctx.workdir, "nn_b_%d.em" % case["variant"])
        ma.write_out(pa_)
        mb.write_out(pb_)
        arg_a, arg_b = (pa_, pb_) if case["variant"] % 12 == 5 else (pa_, mb)
    spell = case["variant"] % 4

    def call():
        if k == 1 and pxf == 1.0 and spell == 0:
            return nnana.get_nn_stats(arg_a, arg_b)        # defaults
        if spell == 1:
            return nnana.get_nn_stats(arg_a, arg_b, pixel_size=(int(pxf) if pxf == int(pxf) else pxf), nn_number=np.int64(k),
                                      feature_id="tomo_id", rotation_type="angular_distance")
        if spell == 2:
            return nnana.get_nn_stats(arg_a, arg_b, pxf, "tomo_id", k)
        return nnana.get_nn_stats(arg_a, arg_b, pixel_size=pxf, nn_number=k)

    disturb18(case.get("disturb"), ma, mb)
    table, err = core.call_guarded(call)
    ctx.ran(case)
    if err is not None:
        ctx.fail("call_raises", err, case, dict(sig0, field="call"))
        return
    if guard.changed():
        ctx.fail("C18_InputsUntouched", guard.changed(), case, dict(sig0, field="arguments"))
    if case["variant"] % 5 == 0:
        # the same list objects once more: the same table; the first table is still what it was
        first = table.copy(deep=True)
        again, err2 = core.call_guarded(call)
        if err2 is not None:
            ctx.fail("call_raises", err2, case, dict(sig0, field="second call"))
        elif list(again.columns) != list(first.columns) or again.shape != first.shape or \
                not np.array_equal(again.drop(columns="type").to_numpy(dtype=float), first.drop(columns="type").to_numpy(dtype=float), equal_nan=True):
            ctx.fail("C18_SameArgumentsSameTable", "a second call with the same list objects returned another table", case,
                     dict(sig0, field="second call"))
        if not table.equals(first):
            ctx.fail("C18_ResultsPersist", "the table of the first call changed during the second call", case, dict(sig0, field="first table"))
        if guard.changed():
            ctx.fail("C18_InputsUntouched", guard.changed(), case, dict(sig0, field="arguments"))
    got = rows_by_query(table)
    sids_a = [p["sid"] for p in A]
    b_same = lambda nn, t: any(p["sid"] == nn and p["t"] == t for p in B)
    b_any = lambda nn: any(p["sid"] == nn for p in B)
    extra = set(got) - set(float(s) for s in sids_a)
    if extra:
        ctx.fail("C18_SameTomogramOnly", "rows for unknown query subtomogram numbers %s" % sorted(extra), case,
                 dict(sig0, field="subtomo_idx"))
        return
    # a subtomogram number may repeat across tomograms: the rows carrying that number are split among the particles that
    # share it by their world offset (positions are distinct); rows that fit nobody stay with the first one and fail there
    rows_for = {}
    for sid in set(sids_a):
        grp = [i for i, a in enumerate(A) if a["sid"] == sid]
        rows = got.get(float(sid), [])
        if len(grp) == 1:
            rows_for[grp[0]] = rows
            continue
        for i in grp:
            rows_for[i] = []
        for row in rows:
            off = np.array([row["coord_x"], row["coord_y"], row["coord_z"]])
            owner = grp[0]
            for i in grp:
                if any(row["subtomo_nn_idx"] == float(e["nn"]) and
                       np.max(np.abs(off - np.array(e["off"], dtype=float) / geo.U * pxf)) <= 1e-6 for e in case["table"][i]):
                    owner = i
                    break
            rows_for[owner].append(row)
    for i, a in enumerate(A):
        exp = case["table"][i]
        rows = rows_for.get(i, [])
        if len(rows) != len(exp):
            ctx.fail("C18_Count", "query %d: %d neighbours reported, the specification says %d" % (a["sid"], len(rows), len(exp)),
                     case, dict(sig0, field="count"))
            continue
        for r, (row, e) in enumerate(zip(rows, exp)):
            where = "query %d rank %d" % (a["sid"], r + 1)
            if row["subtomo_nn_idx"] != float(e["nn"]):
                nn = int(row["subtomo_nn_idx"]) if math.isfinite(row["subtomo_nn_idx"]) else None
                other = nn is not None and b_any(nn) and not b_same(nn, a["t"])
                clause = "C18_SameTomogramOnly" if (other or nn is None or not b_any(nn)) else ("C18_Optimal" if nn not in [x["nn"] for x in exp] else "C18_Ascending")
                ctx.fail(clause, "%s: neighbour %s, the specification says %d" % (where, row["subtomo_nn_idx"], e["nn"]), case,
                         dict(sig0, field="subtomo_nn_idx"))
                break
            want_d2 = e["d2"] / (geo.U * geo.U) * pxf * pxf
            if not math.isfinite(row["distance"]) or row["distance"] < 0 or \
                    abs(row["distance"] ** 2 - want_d2) > SNAP * max(1.0, want_d2):
                ctx.fail("C18_DistanceIsEuclidTimesPixel", "%s: distance %r, squared %r, the specification says squared %r" % (
                    where, row["distance"], row["distance"] ** 2, want_d2), case, dict(sig0, field="distance"))
            off = np.array([row["coord_x"], row["coord_y"], row["coord_z"]])
            want = np.array(e["off"], dtype=float) / geo.U * pxf
            if not np.all(np.isfinite(off)) or np.max(np.abs(off - want)) > SNAP * max(1.0, float(np.max(np.abs(want)))):
                ctx.fail("C18_Payload_offset", "%s: offset %s, the specification says %s" % (where, off.tolist(), want.tolist()),
                         case, dict(sig0, field="coord"))
            foff = np.array([row["coord_rx"], row["coord_ry"], row["coord_rz"]])
            want = np.array(e["foff"], dtype=float) / geo.U * pxf
            if not np.all(np.isfinite(foff)) or np.max(np.abs(foff - want)) > SNAP * max(1.0, float(np.max(np.abs(want)))):
                ctx.fail("C18_Payload_particle_frame", "%s: particle-frame offset %s, the specification says %s" % (
                    where, foff.tolist(), want.tolist()), case, dict(sig0, field="coord_r"))
            if not math.isfinite(row["angular_distance"]) or abs(row["angular_distance"] - e["ang"]) > ANG_TOL:
                ctx.fail("C18_Payload_angular_distance", "%s: angular distance %r, the specification says %d" % (
                    where, row["angular_distance"], e["ang"]), case, dict(sig0, field="angular_distance"))
            ang = [row["phi"], row["theta"], row["psi"]]
            code = geo.matrix_to_code(geo.zxz_matrix(*ang), SNAP) if all(math.isfinite(x) for x in ang) else None
            if code != list(e["rel"]):
                ctx.fail("C18_Payload_relative_orientation", "%s: relative orientation angles %s = cube element %s, the "
                         "specification says %s" % (where, ang, code, e["rel"]), case, dict(sig0, field="rel"))
            rz = np.array([row["rot_x"], row["rot_y"], row["rot_z"]])
            if not np.all(np.isfinite(rz)) or np.max(np.abs(rz - np.array(e["relz"], dtype=float))) > SNAP:
                ctx.fail("C18_Payload_relative_orientation", "%s: z-axis of the relative orientation %s, the specification "
                         "says %s" % (where, rz.tolist(), e["relz"]), case, dict(sig0, field="rot"))


def tla_tuple(v):
    return "<<" + ", ".join(str(int(x)) for x in v) + ">>"


def tla_list(parts):
    return "<<" + ", ".join("P(%d, %d, %s, FromCode(%s))" % (p["sid"], p["t"], tla_tuple(p["p"]), tla_tuple(p["r"]))
                            for p in parts) + ">>"


def spec_table(ctx, case):
    """Ask the specification again for the table of one state (used by --replay)."""
    path = os.path.join(ctx.sub("replaymod"), "NearestNbrReplay.tla")
    with open(path, "w") as fh:
        fh.write("---- MODULE NearestNbrReplay ----\nEXTENDS MC_NearestNbr\nRConfigs == { Cfg(%s, %s, %d, %s) }\n====\n" % (
            tla_list(case["A"]), tla_list(case["B"]), case["k"], tla_tuple(case["px"])))
    res = ctx.tlc("NearestNbrReplay", cfg("RConfigs", "Gens", "NoShift", 0, "st"), name="replayspec", workers=1,
                  extra_modules=[path])
    if len(res.records) != 1:
        raise core.MachineryError("replay: the specification does not admit this configuration (ties / no common tomogram)")
    return res.records[0]["table"]


def replay(ctx, case):
    if case["kind"] == "l2_state":
        case = dict(case)
        table = spec_table(ctx, case)
        if json.dumps(table, sort_keys=True) != json.dumps(case["table"], sort_keys=True):
            raise core.MachineryError("replay file disagrees with the specification about the expected table")
        run_state(ctx, case)
    elif case["kind"] == "l3_lists":
        run_l3(ctx, [case], name="replay")
    else:
        raise core.MachineryError("unknown case kind %r" % case["kind"])


# ---- L3 ---------------------------------------------------------------------------------------------------
def rand_euler(rng):
    f = rng.random()
    if f < 0.15:
        return [rng.uniform(-180, 180), rng.choice([0.0, 180.0]), rng.uniform(-180, 180)]
    if f < 0.3:
        return [rng.uniform(-360, 360), rng.uniform(-180, 180), rng.uniform(-360, 360)]
    return [rng.uniform(-180, 180), rng.uniform(0, 180), rng.uniform(-180, 180)]


def gen_case(rng, idx, big):
    ntomo = rng.randint(1, 4)
    pool = rng.choice([range(1, 40), range(1, 40), range(0, 4), range(99998, 100003), range(240114, 240119),
                       range(999998, 1000003), [0, 3, 5, 100000, 100001]])
    tomos = rng.sample(list(pool), ntomo)
    ta = rng.sample(tomos, rng.randint(1, ntomo))
    coincident = rng.random() < 0.2
    if coincident:
        tb = list(ta)
    else:
        tb = rng.sample(tomos, rng.randint(1, ntomo))
        if not set(ta) & set(tb):
            tb[0] = rng.choice(ta)          # at least one common tomogram (scope decision, DESIGN C18)
            tb = sorted(set(tb))
    hi = 200 if big else rng.choice([3, 8, 25, 25, 60])
    box = rng.choice([15.0, 60.0, 250.0])

    def mk(n, tlist, sid0):
        sids = rng.sample(range(sid0, sid0 + 5 * n + 5), n)
        parts = []
        for i in range(n):
            if rng.random() < 0.7:
                pos = [float(rng.randint(0, int(box))) for _ in range(3)]
                sh = [round(rng.uniform(-0.5, 0.5), 4) for _ in range(3)] if rng.random() < 0.8 else [0.0, 0.0, 0.0]
            else:
                pos = [rng.uniform(0, box) for _ in range(3)]
                sh = [rng.uniform(-3, 3) for _ in range(3)]
            parts.append({"sid": sids[i], "t": rng.choice(tlist), "pos": pos, "shift": sh, "ang": rand_euler(rng)})
        return parts

    A = mk(rng.randint(1, hi), ta, 1)
    B = None if coincident else mk(rng.randint(1, hi), tb, 5000)
    if B is not None and not ({p["t"] for p in A} & {p["t"] for p in B}):
        B[0]["t"] = A[0]["t"]
    samepos = B is not None and rng.random() < 0.35
    if samepos:
        # exactly coincident positions in two different lists (e.g. two classes picked at one centre, re-refined angles):
        # same complete position bit for bit, own orientation - the neighbour distance is exactly 0, the angle is not
        for p in rng.sample(B, max(1, len(B) // 3)):
            q = rng.choice(A)
            if any(o is not p and o["t"] == q["t"] and o["pos"] == q["pos"] and o["shift"] == q["shift"] for o in B):
                continue                      # a second copy at the same place would be a distance tie
            p["t"], p["pos"], p["shift"] = q["t"], list(q["pos"]), list(q["shift"])
            w = rng.random()
            if w < 0.45:
                # ... whose orientation differs from the query's by a tiny non-zero rotation (1e-3 .. 0.05 degree): the
                # angular distance is that angle, not 0
                ax = np.array([rng.gauss(0, 1) for _ in range(3)])
                ax = ax / np.linalg.norm(ax)
                th = math.radians(rng.choice([1e-3, 5e-3, 0.025, 0.05, rng.uniform(1e-3, 0.05)]))
                K = np.array([[0, -ax[2], ax[1]], [ax[2], 0, -ax[0]], [-ax[1], ax[0], 0]])
                dR = np.eye(3) + math.sin(th) * K + (1 - math.cos(th)) * (K @ K)
                p["ang"] = [float(x) for x in geo.zxz_from_matrix(geo.zxz_matrix(*q["ang"]) @ dR)]
            elif w < 0.55:
                p["ang"] = list(q["ang"])          # exactly the query's orientation: angular distance 0
    if B is not None and not samepos and rng.random() < 0.5:
        # (not together with coincident positions: zero-offset rows of equal numbers could not be told apart)
        # numbering restarts at 1 in every tomogram: numbers repeat across tomograms and are shared by the two lists
        # (not for coincident lists: their zero-offset self rows could not be told apart between tomograms)
        for lst in [A, B]:
            seen = {}
            for p in lst:
                seen[p["t"]] = seen.get(p["t"], 0) + 1
                p["sid"] = seen[p["t"]]
    motions = {str(t): {"q": [rng.uniform(-180, 180), rng.uniform(0, 180), rng.uniform(-180, 180)],
                        # mostly moderate translations, sometimes far from the origin (1e5 .. 1e7 voxels)
                        "v": [rng.uniform(-1, 1) * rng.choice([100.0, 100.0, 100.0, 1e5, 1e6, 1e7]) for _ in range(3)]} for t in tomos}
    return {"kind": "l3_lists", "id": idx, "A": A, "B": B, "k": rng.randint(1, 5),
            "px": rng.choice([1.0, 1.0, 0.5, 2.0, 1.35, 3.42, round(rng.uniform(0.2, 4.0), 3)]),
            "motions": motions, "judge_seed": rng.randrange(2 ** 31)}


def complete(parts):
    return np.array([[p["pos"][j] + p["shift"][j] for j in range(3)] for p in parts], dtype=float)


def moved(parts, motions):
    out = []
    for p in parts:
        m = motions[str(p["t"])]
        Q = geo.zxz_matrix(*m["q"])
        c = Q @ np.array([p["pos"][j] + p["shift"][j] for j in range(3)]) + np.array(m["v"])
        R = Q @ geo.zxz_matrix(*p["ang"])
        sh = [0.25, -0.5, 0.125]
        out.append({"sid": p["sid"], "t": p["t"], "pos": [float(c[j] - sh[j]) for j in range(3)], "shift": sh,
                    "ang": [float(x) for x in geo.zxz_from_matrix(R)]})
    return out


def qd(x):
    x = float(x)
    if not math.isfinite(x):
        return -CAP
    return int(max(-CAP, min(CAP, round(x * 1e4))))


def qr(x):
    x = float(x)
    if not math.isfinite(x):
        return -CAP
    return int(min(CAP, round(abs(x) * 1e7)))


def analyse(ctx, case):
    """Runs get_nn_stats before and after the rigid motion; returns the events of the judged queries."""
    import random
    from cryocat import nnana
    A = case["A"]
    B = case["B"] if case["B"] is not None else case["A"]
    k, px = case["k"], case["px"]
    rng = random.Random(case["judge_seed"])
    ma = build_motl(A, rng, real=True)
    mb = ma if case["B"] is None and case["judge_seed"] % 2 == 0 else build_motl(B, rng, real=True)
    guard = argguard.Guard(motl_a=ma.df, motl_nn=mb.df)
    raw1 = nnana.get_nn_stats(ma, mb, pixel_size=px, nn_number=k)
    keep1 = raw1.copy(deep=True)
    t1 = rows_by_query(raw1)
    if guard.changed():
        ctx.fail("C18_InputsUntouched", guard.changed(), case, {"op": "get_nn_stats", "scope": "real", "field": "arguments"})
    A2, B2 = moved(A, case["motions"]), moved(B, case["motions"])
    ma2 = build_motl(A2, rng, real=True)
    mb2 = build_motl(B2, rng, real=True)
    t2 = rows_by_query(nnana.get_nn_stats(ma2, mb2, pixel_size=px, nn_number=k))
    if not raw1.equals(keep1):
        ctx.fail("C18_ResultsPersist", "the table of the first analysis changed during the second one", case,
                 {"op": "get_nn_stats", "scope": "real", "field": "first table"})
    # ---- projection (brute force, all pairs)
    ca, cb = complete(A), complete(B)
    tb = np.array([p["t"] for p in B])
    sb = np.array([p["sid"] for p in B])
    ta_ = [p["t"] for p in A]

    def b_of(sid, t):
        """the particle of the second list with that number - in tomogram t when the number repeats"""
        js = [j for j, p in enumerate(B) if p["sid"] == sid]
        same = [j for j in js if B[j]["t"] == t]
        return (same or js or [None])[0]

    def rows_of(table, ia, pa, pb):
        """rows of the table that belong to query ia; when its number is shared with particles of other tomograms the
        rows carrying the number are split by their world offset (brute force over the sharing particles)"""
        rows = table.get(float(A[ia]["sid"]), [])
        grp = [i for i, p in enumerate(A) if p["sid"] == A[ia]["sid"]]
        if len(grp) == 1:
            return rows
        got_ = {i: [] for i in grp}
        for row in rows:
            s = row["subtomo_nn_idx"]
            res = {}
            for i in grp:
                j = b_of(int(s), ta_[i]) if math.isfinite(s) else None
                if j is None or B[j]["t"] != ta_[i]:
                    continue
                res[i] = float(np.max(np.abs(np.array([row["coord_x"], row["coord_y"], row["coord_z"]]) - (pb[j] - pa[i]) * px)))
            owner = grp[0]
            if res:
                lo = min(res.values())
                tied = [i for i in grp if i in res and res[i] <= lo + 1e-9]
                # equal offsets (e.g. every particle of coincident lists is its own neighbour at offset 0): a particle
                # has each neighbour at most once, rows are handed out in table order
                fresh = [i for i in tied if s not in [r["subtomo_nn_idx"] for r in got_[i]]]
                owner = (fresh or tied)[0]
            got_[owner].append(row)
        return got_[ia]

    ca2, cb2 = complete(A2), complete(B2)
    RA = [geo.zxz_matrix(*p["ang"]) for p in A]
    RB = {}
    judged = list(range(len(A)))
    rng.shuffle(judged)
    events = []
    known = {float(p["sid"]) for p in A}
    stray = sorted(set(t1) - known) + sorted(set(t2) - known)
    if stray:
        events.append({"kind": "query", "q": -1, "k": k, "ncand": 0, "cand": [],
                       "rep": [{"q": int(stray[0]), "nn": 0, "d": 0, "same_tomo": False, "off_res": 0, "foff_res": 0,
                                "ang": 0, "ang_gt": 0, "rel_res": 0, "relz_res": 0}]})
    for ia in judged[:12]:
        a = A[ia]
        cj = np.where(tb == a["t"])[0]
        dist = np.sqrt(np.sum((cb[cj] - ca[ia]) ** 2, axis=1)) * px if len(cj) else np.zeros(0)
        order = np.argsort(dist, kind="stable")
        ds = dist[order]
        m = min(k + 1, len(ds))
        if m > 1 and np.min(np.diff(ds[:m])) * 1e4 < 3.0 + 1e-2 * ds[m - 1]:
            ctx.discard("near_tie_query")
            continue
        rows = rows_of(t1, ia, ca, cb)
        rows2 = rows_of(t2, ia, ca2, cb2)
        same_sids = set(int(s) for s in sb[cj])
        keep = list(order[:8])
        for row in rows:
            s = row["subtomo_nn_idx"]
            if math.isfinite(s) and int(s) in same_sids:
                pos = int(np.where(sb[cj] == int(s))[0][0])
                if pos not in keep:
                    keep.append(pos)
        ev = {"kind": "query", "q": int(a["sid"]), "k": k, "ncand": int(len(cj)),
              "cand": [{"sid": int(sb[cj][p_]), "d": qd(dist[p_])} for p_ in keep], "rep": []}
        for row in rows:
            s = row["subtomo_nn_idx"]
            sid = int(s) if math.isfinite(s) else -1
            rec = {"q": int(row["subtomo_idx"]), "nn": sid, "d": qd(row["distance"]), "same_tomo": sid in same_sids,
                   "off_res": CAP, "foff_res": CAP, "ang": qd(row["angular_distance"]), "ang_gt": 0, "rel_res": CAP,
                   "relz_res": CAP}
            j = b_of(sid, a["t"])
            if j is not None:
                off = (cb[j] - ca[ia]) * px
                if j not in RB:
                    RB[j] = geo.zxz_matrix(*B[j]["ang"])
                rel = RA[ia].T @ RB[j]
                scale = max(1.0, float(np.max(np.abs(off))))
                rec["off_res"] = qr(np.max(np.abs(np.array([row["coord_x"], row["coord_y"], row["coord_z"]]) - off)) / scale)
                rec["foff_res"] = qr(np.max(np.abs(np.array([row["coord_rx"], row["coord_ry"], row["coord_rz"]]) - RA[ia].T @ off)) / scale)
                rec["ang_gt"] = qd(geo.rot_angle_deg(rel))
                ang = [row["phi"], row["theta"], row["psi"]]
                if all(math.isfinite(x) for x in ang):
                    rec["rel_res"] = qr(np.max(np.abs(geo.zxz_matrix(*ang) - rel)))
                rec["relz_res"] = qr(np.max(np.abs(np.array([row["rot_x"], row["rot_y"], row["rot_z"]]) - rel[:, 2])))
            ev["rep"].append(rec)
        events.append(ev)
        n = min(len(rows), len(rows2))
        mv = {"kind": "moved", "q": int(a["sid"]),
              "nn_before": [int(r["subtomo_nn_idx"]) if math.isfinite(r["subtomo_nn_idx"]) else -1 for r in rows],
              "nn_after": [int(r["subtomo_nn_idx"]) if math.isfinite(r["subtomo_nn_idx"]) else -1 for r in rows2],
              "dd": [], "df": [], "da": [], "dr": [], "dm": []}
        for r in range(n):
            x, y = rows[r], rows2[r]
            # the distance reported for the moved lists against the Euclidean distance of the moved positions as stored
            # (all pairs, plain differences), in 1e-9: far from the origin nothing but float64 rounding may be lost
            s2 = y["subtomo_nn_idx"]
            j2 = b_of(int(s2), a["t"]) if math.isfinite(s2) else None
            if j2 is None or not math.isfinite(y["distance"]):
                mv["dm"].append(-CAP)
            else:
                brute = math.sqrt(float(np.sum((cb2[j2] - ca2[ia]) ** 2))) * px
                mv["dm"].append(int(min(CAP, round(abs(y["distance"] - brute) / max(1.0, px) * 1e9))))
            scale = max(1.0, abs(x["distance"]))
            mv["dd"].append(abs(qd((y["distance"] - x["distance"]) / scale)))
            f1 = np.array([x["coord_rx"], x["coord_ry"], x["coord_rz"]])
            f2 = np.array([y["coord_rx"], y["coord_ry"], y["coord_rz"]])
            mv["df"].append(abs(qd(np.max(np.abs(f2 - f1)) / scale)))
            mv["da"].append(abs(qd(y["angular_distance"] - x["angular_distance"])))
            e1, e2 = [x["phi"], x["theta"], x["psi"]], [y["phi"], y["theta"], y["psi"]]
            if all(math.isfinite(v) for v in e1 + e2):
                mv["dr"].append(qr(np.max(np.abs(geo.zxz_matrix(*e1) - geo.zxz_matrix(*e2)))))
            else:
                mv["dr"].append(-CAP)
        events.append(mv)
    return events


def run_l3(ctx, cases, name="trace"):
    traces = []
    for case in cases:
        evs, err = core.call_guarded(analyse, ctx, case)
        if err is not None:
            ctx.fail("call_raises", err, case, {"op": "get_nn_stats", "scope": "real", "field": "call"})
            evs = []
        traces.append({"id": case["id"], "ev": evs})
        ctx.ran(case)
    wd = ctx.sub(name)
    path = os.path.join(wd, "traces.ndjson")
    with open(path, "w") as fh:
        for t in traces:
            fh.write(json.dumps(t) + "\n")
    cfgt = "SPECIFICATION TraceSpec\nCONSTANTS\n DistTol = 1\n ResTol = 10\n AngTol = 2\n MovedDistTol = 30\nCONSTRAINT Report\n"
    res = ctx.tlc("NearestNbrTrace", cfgt, name=name, env={"TRACE_FILE": path}, workers=1)
    verdicts = {v["tid"]: v for v in res.tagged.get("VERDICT", [])}
    if len(verdicts) != len(traces):
        raise core.MachineryError("NearestNbrTrace returned %d verdicts for %d traces\n%s" % (
            len(verdicts), len(traces), res.stdout[-2000:]))
    for i, case in enumerate(cases):
        v = verdicts[i + 1]
        if not v["ok"]:
            ev = traces[i]["ev"][v["step"] - 1]
            ctx.fail(v["clause"], "event %d (%s of query %s) rejected by NearestNbrTrace: %s" % (
                v["step"], ev["kind"], ev.get("q"), json.dumps(ev)[:700]), case,
                {"op": "get_nn_stats", "scope": "real", "field": ev["kind"]})
    return res


# ---- main --------------------------------------------------------------------------------------------------
def emitted_states(res, scope):
    seen, out = set(), []
    for rec in res.records:
        key = core.stable_hash(rec)
        if key in seen:
            continue
        seen.add(key)
        rec["scope"] = scope
        out.append(rec)
    return out


def run(ctx):
    ctx.rule = ("L2: every state TLC explores in MC_NearestNbr - selection scope (<=2 queries x <=3 candidates from position "
                "pools, tomograms 1..3, k/pixel-size combinations), orientation scope (all 24x24 orientations of query and "
                "neighbour), coincident lists, motion scope (every cube rotation x 2 translations x each tomogram) - rebuilt "
                "as Motl pairs (random coordinate/shift split, random Euler representative) and compared with the table TLC "
                "derived; states sub-sampled by hash of (seed, state) to the tier budget; L3: random real lists incl. rigid "
                "motions validated by NearestNbrTrace. distinct = distinct (lists, k, pixel size) cases")
    ctx.assumptions += [
        "projection alpha: own Euler->matrix routine, brute-force all-pairs distances in numpy, lattice snap 1e-9",
        "list pairs without any common tomogram are not generated (get_nn_stats raises on them; DESIGN C18 scope decision)",
        "when a tomogram holds fewer than k candidates the analysis must report all of them (min(k, #candidates))",
        "queries with a near-tie among their k+1 closest candidates are not judged (ties excluded by the property)",
    ]
    W = 4
    seed = ctx.seed
    states = []
    res = ctx.tlc("MC_NearestNbr", cfg("StaticConfigs", "Gens", "NoShift", 0, "st", invs=INVS + ["C18_TableIsDerived"]),
                  name="static", workers=1)
    for st in emitted_states(res, "orient"):
        # orientation scope / coincident lists / coincident positions in different lists, told apart by their structure
        if st["A"] == st["B"]:
            st["scope"] = "self"
        elif any(a["p"] == b["p"] and a["t"] == b["t"] for a in st["A"] for b in st["B"]):
            st["scope"] = "samepos"
        states.append(st)
    res = ctx.tlc("MC_NearestNbr", cfg("SelectConfigs", "Gens", "NoShift", 0, "st"), name="select", workers=1)
    states += emitted_states(res, "select")
    res = ctx.tlc("MC_NearestNbr", cfg(ctx.pick("RestartConfigsQuick", "RestartConfigs"), "Gens", "NoShift", 0, "st"), name="restart", workers=1)
    states += emitted_states(res, "restart")
    res = ctx.tlc("MC_NearestNbr", cfg(ctx.pick("MotionConfigsQuick", "MotionConfigsThorough"), "All", "MCShifts", 1, "st"), name="motion", workers=1)
    states += emitted_states(res, "motion")
    ctx.exhaustive["L1_scopes"] = True
    ctx.extra["states_emitted"] = len(states)
    by_scope = {}
    for s in states:
        by_scope.setdefault(s["scope"], []).append(s)
    budget = {"samepos": ctx.pick(110, 1300), "restart": ctx.pick(110, 3000), "orient": ctx.pick(100, 576), "self": ctx.pick(40, 2000), "select": ctx.pick(240, 9000),
              "motion": ctx.pick(140, 5000)}
    chosen = []
    for scope, lst in sorted(by_scope.items()):
        keyed = sorted(lst, key=lambda t: core.stable_hash([seed, t]))
        if scope == "motion":
            # keep moved states in the majority but always some initial ones
            keyed = [t for t in keyed if t["d"] == 0][:budget[scope] // 10] + [t for t in keyed if t["d"] > 0]
        chosen += keyed[:budget[scope]]
        ctx.exhaustive["L2_" + scope] = len(lst) <= budget[scope]
    ctx.extra["states_replayed"] = len(chosen)
    for i, s in enumerate(chosen):
        run_state(ctx, {"kind": "l2_state", "scope": s["scope"], "A": s["A"], "B": s["B"], "k": s["k"], "px": s["px"],
                        "op": s["op"], "table": s["table"], "variant": (seed * 7919 + i) % 100003,
                        "disturb": (i * 13 + seed) if i % 5 == 0 else None})
    # ---- L3
    n = ctx.pick(100, 3000)
    cases = [gen_case(ctx.rng, i + 1, big=(i % (8 if ctx.quick else 4) == 0)) for i in range(n)]
    chunk = 600
    for c in range(0, len(cases), chunk):
        run_l3(ctx, cases[c:c + chunk], name="trace%d" % (c // chunk))

"""C08 - particle-list set algebra and identifier discipline.

L1  MotlSet.tla (operations of MotlSetOps.tla as actions, clauses C08_* as action properties) is model-checked
    exhaustively in a small scope.
L2  every transition TLC explores (sub-sampled by seed) is replayed statelessly into Motl objects, and simulated
    histories of 10 operations (initial tables of 0..200 rows handed to TLC by the driver) are stepped through two
    live Motl objects; after every call both tables are projected and compared with the state TLC computed.
L3  observed (before, call, after) triples - every step that differs from TLC's state and a sample of all steps -
    are judged by TLC with the clause predicates themselves (MotlSetTrace.tla); a result that differs from the
    specification's but satisfies the clause (other tie-break, other row order where none is promised) conforms.
"""
import json
import os
import random

import numpy as np

from .. import argguard, core, motlsys, motlutil

FIELDS = motlutil.FIELDS
KEYCOL = {"sid": "subtomo_id", "tomo": "tomo_id", "obj": "object_id", "cls": "class", "score": "score"}
TAGGED = [f for f in FIELDS if f not in KEYCOL.values()]          # the 15 fields a tag stands for
assert len(TAGGED) == 15 and TAGGED[0] == "geom1"
NSCORE_SIM = 40
SCORES = [None] + [round(-0.4 + 0.0171 * k, 6) for k in range(1, 64)]   # token -> score, strictly increasing
SCORE_INV = {v: k for k, v in enumerate(SCORES) if v is not None}

CLAUSES = ["C08_TagsIntact", "C08_SubsetExact", "C08_SplitPartitions", "C08_RemoveComplementsSubset",
           "C08_IntersectionExact", "C08_DropDupOneBest", "C08_MergeNumbers", "C08_MergeDropDupOneBest",
           "C08_ParticlesRenumbered", "C08_ObjectsSequential"]
ACTIONS = ["Subset", "RemoveRows", "Split", "Intersect", "DropDup", "MergeRenumber", "MergeDropDup",
           "RenumberParticles", "RenumberObjects", "Fork"]


def cfg(init, depth, mode, *, valseqs="MCValSeqs", dyn=False, sched=False, third=False, orders="MCOrders", nscore=2, minrows=0, maxrows=8, clauses=True, emit="EmitTRSel"):
    lines = ["SPECIFICATION Spec", "CONSTANTS", " InitPairs <- %s" % init, " ValSeqs <- %s" % valseqs,
             " DynVals = %s" % ("TRUE" if dyn else "FALSE"), " SplitFields <- MCSplitFields", " Starts <- MCStarts", " Orders <- %s" % orders,
             " NScore = %d" % nscore, " MinRows = %d" % minrows, " ThirdGuard = %s" % ("TRUE" if third else "FALSE"), " MaxRows = %d" % maxrows, " MaxDepth = %d" % depth, " Sched = %s" % ("TRUE" if sched else "FALSE"),
             ' EmitMode = "%s"' % mode, "INVARIANT TypeOK", "INVARIANT C08_Schema"]
    if clauses:
        lines += ["PROPERTY %s" % c for c in CLAUSES]
    if mode == "tr":
        lines += ["ACTION_CONSTRAINT %s" % emit, "VIEW View"]
    elif mode == "hist":
        lines += ["CONSTRAINT EmitHist"]
    else:
        lines += ["VIEW View"]
    return "\n".join(lines) + "\n"


# ---- interpretation gamma: abstract rows -> 20-field table ------------------------------------------------
def tag_values(tag):
    """The 15 concrete values a tag stands for (geom1 carries the tag itself; the rest are fixed functions of it,
    not float32-representable, of either sign)."""
    out = [float(tag)]
    for j in range(1, 15):
        out.append(((tag * (j + 3) * 7919 + j * 104729) % 20011) / 16.0 - 600.0 + 0.1 * j)
    return out


# Interpretation of the abstract key values: concrete = base + abstract, per key column.  The specification is about
# which values are equal, not about their magnitude; large consecutive identifiers (tomo*10000+n numbering, date-coded
# tomogram numbers) are inside the property's quantifier.  Non-zero bases are only used where the operation does not
# write absolute numbers into that column (set per history by run_history).
BASES = {"sid": 0, "tomo": 0, "obj": 0, "cls": 0}
BASE_CHOICES = [0, 100000, 250000, 240115, 999998, -1]      # -1: the smallest value of the column is 0


def set_bases(**kw):
    for f in BASES:
        BASES[f] = kw.get(f, 0)


def rows_to_df(rows):
    n = len(rows)
    cols = motlutil.empty_rows(n)
    for k, r in enumerate(rows):
        sid, tomo, obj, score, cls, tag = r
        cols["subtomo_id"][k] = sid + BASES["sid"]
        cols["tomo_id"][k] = tomo + BASES["tomo"]
        cols["object_id"][k] = obj + BASES["obj"]
        cols["score"][k] = SCORES[score]
        cols["class"][k] = cls + BASES["cls"]
        for f, v in zip(TAGGED, tag_values(tag)):
            cols[f][k] = v
    return motlutil.df_from_cols(cols)


# ---- projection alpha: table -> abstract rows -----------------------------------------------------------
def _int_or(v, bad=-1, base=0):
    if v != v or abs(v) > 1e9 or v != int(v):
        return bad
    return int(v) - base


def project(df):
    """-> (rows [[sid, tomo, obj, score, cls, tag]], column names).  tag = 0 when the 15 other fields are not
    bit-identical to those of the tag in geom1; -1 for key values that are not integers / score tokens."""
    cols = [str(c) for c in df.columns]
    n = df.shape[0]
    data = {}
    for f in FIELDS:
        if f in df.columns and cols.count(f) == 1:
            try:
                data[f] = df[f].to_numpy(dtype=float)
            except Exception:
                data[f] = np.full(n, np.nan)
        else:
            data[f] = np.full(n, np.nan)
    rows = []
    for k in range(n):
        tag = _int_or(data["geom1"][k], 0)
        if tag > 0:
            exp = tag_values(tag)
            for f, v in zip(TAGGED, exp):
                if not data[f][k] == v:
                    tag = 0
                    break
        else:
            tag = 0
        sc = SCORE_INV.get(float(data["score"][k]), -1)
        rows.append([_int_or(data["subtomo_id"][k], -1, BASES["sid"]), _int_or(data["tomo_id"][k], -1, BASES["tomo"]),
                     _int_or(data["object_id"][k], -1, BASES["obj"]), sc, _int_or(data["class"][k], -1, BASES["cls"]), tag])
    return rows, cols


def cols_ok(cols):
    return len(cols) == 20 and sorted(cols) == sorted(FIELDS)


# ---- the calls under test ------------------------------------------------------------------------------
# accepted storage forms of a request ("array-like or int": list, tuple, ndarray of any dtype / writeability, pandas
# Series, integer lists, Python and numpy scalars)
FORMS_SUBSET = ["list", "scalar", "intlist", "npscalar", "intscalar", "ndarray", "tuple", "series", "intndarray", "roarray"]
FORMS_REMOVE = ["list", "ndarray", "scalar", "intndarray", "npscalar", "roarray", "tuple", "series", "intlist", "intscalar"]
FUNCTIONAL = {"subset", "split", "intersect", "merge_renumber", "merge_dropdup"}     # return a new list, self untouched


def concrete_values(op):
    """The requested abstract values of a call as the numbers the table holds (score tokens -> fractional scores)."""
    if op["f"] == "score":
        return [SCORES[v] for v in op["vals"]]
    return [float(v + BASES[op["f"]]) for v in op["vals"]]


def value_arg(vals, form):
    if any(float(v) != int(v) for v in vals) and form in ("intlist", "intscalar", "intndarray"):
        form = "list"                       # real-valued fields: no integer forms
    if not vals or (len(vals) > 1 and form in ("scalar", "npscalar", "intscalar")):
        form = "list" if not vals else {"scalar": "list", "npscalar": "list", "intscalar": "intlist"}[form]
    if form == "list":
        return list(vals)
    if form == "intlist":
        return [int(v) for v in vals]
    if form == "scalar":
        return float(vals[0])
    if form == "intscalar":
        return int(vals[0])
    if form == "npscalar":
        return np.int64(vals[0]) if (float(vals[0]) == int(vals[0]) and int(vals[0]) % 2 == 0) else np.float64(vals[0])
    if form == "intndarray":
        return np.array(vals, dtype=np.int64)
    if form == "tuple":
        return tuple(vals)
    if form == "series":
        import pandas as pd
        return pd.Series(list(vals), index=[3 + 2 * i for i in range(len(vals))])
    arr = np.array(vals, dtype=float)
    if form == "roarray":
        arr.setflags(write=False)
    return arr


def apply_op(cm, A, B, op, variant, io=None):
    """Performs the cryoCAT call named by op on the live objects.  Returns (A', parts or None).  io["guard"] is the
    snapshot of every argument object of the call, io["again"] repeats the call with the very same argument objects."""
    Motl = cm.Motl
    name = op["name"]
    io = io if io is not None else {}
    args = {"B": B.df}
    if name in FUNCTIONAL:
        args["this"] = A.df

    def call(fn):
        io["guard"] = argguard.Guard(**args)
        io["again"] = fn if name in FUNCTIONAL else None
        return fn()

    if name == "subset":
        vals = concrete_values(op)
        arg = value_arg(vals, FORMS_SUBSET[variant % len(FORMS_SUBSET)])
        args["values"] = arg
        f = KEYCOL[op["f"]]
        v = variant % 6
        if v == 0:
            return call(lambda: Motl(A.get_motl_subset(arg, feature_id=f, return_df=True))), None
        if v == 1:
            return call(lambda: A.get_motl_subset(arg, feature_id=f, reset_index=False)), None
        if v == 2:
            return call(lambda: Motl(A.get_motl_subset(arg, f, True, False))), None          # return_df and no reset
        if f == "tomo_id" and v == 3:
            return call(lambda: A.get_motl_subset(arg)), None
        if v == 4:
            return call(lambda: A.get_motl_subset(feature_values=arg, feature_id=f, return_df=False, reset_index=True)), None
        return call(lambda: A.get_motl_subset(arg, f)), None
    if name == "remove":
        vals = concrete_values(op)
        arg = value_arg(vals, FORMS_REMOVE[variant % len(FORMS_REMOVE)])
        args["values"] = arg
        if variant % 4 == 3:
            call(lambda: A.remove_feature(feature_id=KEYCOL[op["f"]], feature_values=arg))
        else:
            call(lambda: A.remove_feature(KEYCOL[op["f"]], arg))
        return A, None
    if name == "split":
        parts = call(lambda: A.split_by_feature(KEYCOL[op["f"]]) if variant % 2 else
                     A.split_by_feature(KEYCOL[op["f"]], write_out=False, output_prefix=""))
        k = op["k"] - 1
        return (parts[k] if k < len(parts) else Motl()), parts
    if name == "intersect":
        f = op.get("f", "sid")
        if f == "sid" and variant % 2 == 0:
            return call(lambda: Motl.get_motl_intersection(A, B)), None
        if variant % 3 == 0:
            return call(lambda: Motl.get_motl_intersection(A, B, KEYCOL[f])), None
        return call(lambda: Motl.get_motl_intersection(A, B, feature_id=KEYCOL[f])), None
    if name == "dropdup":
        if op["f"] == "sid" and not op["asc"] and variant % 2 == 0:
            call(lambda: A.drop_duplicates())
        elif variant % 3 == 0:
            call(lambda: A.drop_duplicates(KEYCOL[op["f"]], "score", bool(op["asc"])))
        else:
            call(lambda: A.drop_duplicates(duplicates_column=KEYCOL[op["f"]], decision_column="score",
                                           decision_sort_ascending=bool(op["asc"])))
        return A, None
    if name in ("merge_renumber", "merge_dropdup"):
        # "a2" / "b2": re-tagged copies of the registers, built from the rows the specification logged with the call;
        # an input is handed over as a Motl or (variant) as its DataFrame
        pool = {"a": A, "b": B}
        for j, nm in enumerate(("a2", "b2")):
            if nm in op["order"]:
                pool[nm] = Motl(motlutil.vary_columns(motlutil.vary_index(rows_to_df(op[nm]), variant + j), variant // 2 + j))
        lst = [pool[nm] for nm in op["order"]]
        if variant % 4 == 2:
            lst = [m if j % 2 == 0 else m.df for j, m in enumerate(lst)]
        args["inputs"] = [m.df if hasattr(m, "df") else m for m in lst]
        args["input_list"] = lst
        if name == "merge_renumber":
            return call(lambda: Motl.merge_and_renumber(lst)), None
        return call(lambda: Motl.merge_and_drop_duplicates(lst)), None
    if name == "renumber_particles":
        call(lambda: A.renumber_particles())
        return A, None
    if name == "renumber_objects":
        start = op["start"]
        if start == 1 and variant % 2 == 0:
            call(lambda: A.renumber_objects_sequentially())
        elif variant % 3 == 0:
            call(lambda: A.renumber_objects_sequentially(starting_number=start))
        else:
            call(lambda: A.renumber_objects_sequentially(start))
        return A, None
    raise core.MachineryError("unknown op %r" % (op,))


def first_seen(values):
    out = []
    for v in values:
        if v not in out:
            out.append(v)
    return out


def queries(A):
    """get_unique_values of the four key columns and get_feature("subtomo_id") on the live object, as abstract values."""
    uniq = []
    for f in ("sid", "tomo", "obj", "cls"):
        vals = np.asarray(A.get_unique_values(KEYCOL[f]), dtype=float).ravel()
        uniq.append([_int_or(float(v), -1, BASES[f]) for v in vals])
    uniq.append([SCORE_INV.get(float(v), -1) for v in np.asarray(A.get_unique_values("score"), dtype=float).ravel()])
    feat = np.asarray(A.get_feature("subtomo_id"), dtype=float).ravel()
    return uniq, [_int_or(float(v), -1, BASES["sid"]) for v in feat]


def read_only_calls(cm, A, B, variant):
    """Public calls that only read: made between the operations of a history; nothing may leak from them."""
    col = list(KEYCOL.values())[variant % 5]
    A.get_unique_values(col)
    A.get_feature(col)
    A.get_coordinates()
    if A.df.shape[0]:
        A.get_rotations()
        A.get_angles()
    str(A)
    cm.Motl.check_df_correct_format(A.df)
    cm.Motl.create_empty_motl_df()
    cm.Motl.load(B)
    B.get_motl_subset(float(BASES["tomo"] + 1), reset_index=False, return_df=True)


def sig_of(op):
    s = {"op": op["name"]}
    if "f" in op:
        s["f"] = op["f"]
    if "order" in op:
        s["inputs"] = len(op["order"])
    return s


class Judge:
    """Collects observed steps for MotlSetTrace.tla and turns its verdicts into failures."""

    def __init__(self, ctx):
        self.ctx = ctx
        self.recs = []       # (record, case, must_judge)
        self.sampled = 0

    def add(self, rec, case, mismatch):
        rec = dict(rec)
        rec["id"] = len(self.recs) + 1
        self.recs.append((rec, case, mismatch))

    def flush(self):
        ctx = self.ctx
        if not self.recs:
            raise core.MachineryError("no observed step was handed to MotlSetTrace")
        # binding self-test: a corrupted copy of the first conforming sampled record must be rejected
        canary = None
        for rec, _, mism in self.recs:
            if not mism and rec["a"]:
                canary = json.loads(json.dumps(rec))
                canary["a"][0][3] = canary["a"][0][3] % 50 + 1      # another score token in the first row
                canary["id"] = 0
                break
        wd = ctx.sub("judge")
        path = os.path.join(wd, "steps.ndjson")
        with open(path, "w") as fh:
            for rec, _, _ in self.recs:
                fh.write(json.dumps(rec) + "\n")
            if canary is not None:
                fh.write(json.dumps(canary) + "\n")
        res = ctx.tlc("MotlSetTrace", "SPECIFICATION TraceSpec\nCONSTRAINT Report\n", name="judge",
                      env={"TRACE_FILE": path}, workers=1)
        verdicts = {v["tid"]: v for v in res.tagged.get("VERDICT", [])}
        total = len(self.recs) + (1 if canary is not None else 0)
        if len(verdicts) != total:
            raise core.MachineryError("MotlSetTrace returned %d verdicts for %d records\n%s" % (
                len(verdicts), total, res.stdout[-2000:]))
        if canary is not None and verdicts[total]["ok"]:
            raise core.MachineryError("MotlSetTrace accepted a corrupted record (binding self-test)")
        diverged = 0
        for i, (rec, case, mism) in enumerate(self.recs):
            v = verdicts[i + 1]
            if v["ok"]:
                diverged += 1 if mism else 0
                continue
            ctx.fail(v["clause"], "step %s: observed table(s) rejected by MotlSetTrace (%s): observed %s" % (
                json.dumps(rec["op"])[:200], "differs from the specification's state" if mism else "sampled step",
                json.dumps(rec["a"])[:300]), case, sig_of(rec["op"]))
        ctx.extra["steps_judged_by_tlc"] = len(self.recs)
        ctx.extra["steps_differing_but_conforming"] = diverged
        self.recs = []


def run_history(ctx, judge, a0, b0, steps, variant, kind, sample_all=False):
    """Steps two live Motl objects through the history; steps: [{op, a, bch, b}] as computed by TLC."""
    from cryocat import cryomotl as cm
    case = {"kind": kind, "a0": a0, "b0": b0, "steps": steps, "variant": variant}
    try:
        _set_history_bases(steps, variant)
        _run_history(ctx, judge, a0, b0, steps, variant, kind, sample_all, case)
    finally:
        set_bases()


REWRITES = {"merge_renumber": {"sid", "obj"}, "merge_dropdup": {"obj"}, "renumber_particles": {"sid"},
            "renumber_objects": {"obj"}}


def _set_history_bases(steps, variant):
    """Large bases for the key columns no operation of this history writes absolute numbers into."""
    written = set()
    for st in steps:
        written |= REWRITES.get(st["op"]["name"], set())
    if variant % 3 == 0:
        set_bases()
        return
    pick = lambda j: BASE_CHOICES[(variant // 3 + j) % len(BASE_CHOICES)]
    set_bases(**{f: pick(j) for j, f in enumerate(["sid", "tomo", "obj", "cls"]) if f not in written})


def _run_history(ctx, judge, a0, b0, steps, variant, kind, sample_all, case):
    from cryocat import cryomotl as cm

    def table(rows, k):
        # row labels (default / permuted / gapped / repeated), integer id columns and column order of the input tables
        # vary: a list handed to cryoCAT may be any DataFrame with the 20 named columns
        return cm.Motl(motlutil.repeat_labels(motlutil.vary_columns(motlutil.vary_index(rows_to_df(rows), k), k // 2), k // 5))

    A = table(a0, variant // 3)
    B = table(b0, variant // 7)
    exp_a, exp_b = a0, b0
    earlier = []                       # guards of tables earlier calls returned / left behind
    for i, st in enumerate(steps):
        op = st["op"]
        if op["name"] == "fork":
            exp_b = st["b"]
            exp_a = st["a"]
            B = table(exp_b, variant // 7 + i)          # harness operation: a fresh table from the specification's state
            continue
        if (variant + i) % 4 == 1:
            g = argguard.Guard(A=A.df, B=B.df)
            _, err = core.call_guarded(read_only_calls, cm, A, B, variant + i)
            why = g.changed() if err is None else None
            if err is not None or why:
                ctx.fail("call_raises" if err else "C08_ArgumentsUntouched",
                         "read-only calls before step %d: %s" % (i, err or why), case, {"op": "read_only"})
                break
        io = {}
        old_A = A
        (res, err) = core.call_guarded(apply_op, cm, A, B, op, variant + i, io)
        if err is not None:
            ctx.fail("call_raises", "step %d %s: %s" % (i, json.dumps(op)[:200], err), case, sig_of(op))
            break
        A, parts = res
        st_ops = ctx.extra.setdefault("steps_by_op", {})
        st_ops[op["name"]] = st_ops.get(op["name"], 0) + 1
        st_rows = ctx.extra.setdefault("rows_after_step", {"0": 0, "1-3": 0, "4-20": 0, "21-100": 0, "101+": 0})
        nr = len(st["a"])
        st_rows["0" if nr == 0 else "1-3" if nr <= 3 else "4-20" if nr <= 20 else "21-100" if nr <= 100 else "101+"] += 1
        argchg = io["guard"].changed() if io.get("guard") is not None else None
        gone = None
        for label, g in earlier:
            gone = g.changed()
            if gone:
                gone = "%s: %s" % (label, gone)
                break
        got_a, cols_a = project(A.df)
        if not argchg and not gone and io.get("again") is not None and (variant + i) % 4 == 0:
            # the same call once more with the very same argument objects: it must give the same list again
            again, err = core.call_guarded(io["again"])
            if err is not None:
                ctx.fail("call_raises", "step %d %s repeated with the same argument objects: %s" % (i, json.dumps(op)[:200], err),
                         case, sig_of(op))
                break
            again = again[op["k"] - 1] if isinstance(again, list) and op["name"] == "split" and op["k"] <= len(again) else again
            if hasattr(again, "df"):
                got_2, cols_2 = project(again.df)
                if got_2 != got_a or cols_2 != cols_a:
                    got_a, cols_a = got_2, cols_2          # judged below: the repeated call's list
            argchg = io["guard"].changed()
        got_b, cols_b = project(B.df)
        cols = [cols_a]
        # the same read-only queries after every operation (in-place ones and rebinding ones alike): they must describe
        # the table as it is now
        q, qerr = core.call_guarded(queries, A)
        # (a query that raises is recorded as an impossible answer: MotlSetTrace names the clause - a broken table is a
        # C08_Schema / C08_TagsIntact failure first)
        uniq, featsid = q if qerr is None else ([[-2]] * 5, [-2])
        rec = {"op": {k: v for k, v in op.items() if k != "parts"}, "a0": exp_a, "b0": exp_b, "a": got_a, "b": got_b,
               "argchg": argchg or "", "earlier": gone or "", "uniq": uniq, "featsid": featsid}
        same = got_a == st["a"] and got_b == exp_b and cols_ok(cols_a) and not argchg and not gone
        same = same and featsid == [r[0] for r in got_a] and all(uniq[m] == first_seen([r[j] for r in got_a])
                                                                   for m, j in enumerate((0, 1, 2, 4, 3)))
        if parts is not None:
            pp = [project(p.df) for p in parts]
            rec["parts"] = [p[0] for p in pp]
            cols += [p[1] for p in pp]
            same = same and rec["parts"] == op["parts"] and all(cols_ok(p[1]) for p in pp)
        rec["cols"] = cols
        if not same:
            judge.add(rec, case, True)
            break
        if sample_all:
            judge.add(rec, case, False)
            judge.sampled += 1
        # what this call returned / left behind is re-inspected after the later calls of the history
        if op["name"] in FUNCTIONAL:
            earlier.append(("list before step %d" % i, argguard.Guard(df=old_A.df)))
            if parts is not None:
                earlier.append(("parts of step %d" % i, argguard.Guard(parts=[p.df for j, p in enumerate(parts) if j != op["k"] - 1])))
        earlier = earlier[-4:]
        exp_a = st["a"]
        if st.get("bch"):
            exp_b = st["b"]
    ctx.ran(case)


def replay(ctx, case):
    if case["kind"] == "mixed":
        motlsys.run_mixed(ctx, "set", [case])
        return
    judge = Judge(ctx)
    run_history(ctx, judge, case["a0"], case["b0"], case["steps"], case.get("variant", 0), case["kind"], sample_all=True)
    if judge.recs:
        judge.flush()


# ---- initial tables for the simulation scope ---------------------------------------------------------------
def gen_table(rng, n, tag0, like=None, bases=(0, 0, 0, 0)):
    """Random abstract table: unsorted, repeated subtomogram numbers, few tomograms / objects / classes, score ties;
    bases: offsets of the sid / tomo / obj / cls values (large consecutive identifiers)."""
    ntomo, nobj, ncls = rng.randint(1, 4), rng.randint(1, 5), rng.randint(1, 3)
    top = max(2, int(n * rng.choice([0.4, 0.8, 1.5])))
    rows = []
    for i in range(n):
        if like and rng.random() < 0.6:
            src = like[rng.randrange(len(like))]
            sid, tomo, obj = src[0], src[1], rng.choice([src[2], num(bases[2]) + rng.randint(1, nobj)])
            score = rng.choice([src[3], rng.randint(1, NSCORE_SIM)])
        else:
            sid, tomo, obj, score = bases[0] + rng.randint(1, top), num(bases[1]) + rng.randint(1, ntomo), \
                num(bases[2]) + rng.randint(1, nobj), rng.randint(1, NSCORE_SIM if rng.random() < 0.8 else 3)
        rows.append([sid, tomo, obj, score, num(bases[3]) + rng.randint(1, ncls), tag0 + i + 1])
    return zero_columns(rows, bases)


def zero_columns(rows, bases):
    """Identifier columns that were never assigned: bases[j] == "zero" makes column j (tomo / obj / cls) all 0."""
    for j, col in ((1, 1), (2, 2), (3, 4)):
        if bases[j] == "zero":
            for r in rows:
                r[col] = 0
    return rows


# tomogram / object numbers whose decimal digit strings collide when concatenated: (1, 12) ~ (11, 2), (2, 13) ~ (21, 3),
# (1, 11) ~ (11, 1) - operations that group by the PAIR (tomogram, object) must keep such groups apart
DIGIT_TOMOS = [1, 11, 2, 21]
DIGIT_OBJS = [12, 2, 13, 3, 11, 1]


def digit_collisions(rows):
    for r in rows:
        r[1] = DIGIT_TOMOS[r[1] % 4]
        r[2] = DIGIT_OBJS[r[2] % 6]
    return rows


def pick_bases(rng):
    """Offsets of the sid / tomo / obj / cls values of a table pair; "zero" = the column is all 0 in both tables."""
    if rng.random() < 0.4:
        return (0, 0, 0, 0)
    b = [rng.choice(BASE_CHOICES) for _ in range(4)]
    for j in (1, 2, 3):
        if rng.random() < 0.25:
            b[j] = "zero"
    return tuple(b)


def num(b):
    return 0 if b == "zero" else b


def write_inits(ctx, name, sizes):
    rng = random.Random(ctx.seed * 7907 + len(name) + sum(sizes))
    path = os.path.join(ctx.sub(name), "inits.ndjson")
    with open(path, "w") as fh:
        for n in sizes:
            bases = pick_bases(rng)
            a = gen_table(rng, n, 0, bases=bases)
            nb = rng.choice([0, 1, max(1, n // 2), n]) if n else rng.randint(0, 3)
            b = gen_table(rng, min(nb, 200), 500, like=a or None, bases=bases)
            if rng.random() < 0.2:
                a, b = digit_collisions(a), digit_collisions(b)
            fh.write(json.dumps({"a": a, "b": b}) + "\n")
    return path


def gen_overlap_pair(rng):
    """A pair for single-call tests on medium tables: the first table repeats values of every key column, the second
    one has many (20..60) distinct values per identifier column and lacks some of the values the first one repeats."""
    zb = pick_bases(rng)
    bases = tuple(num(b) for b in zb)
    na, nb = rng.randint(8, 60), rng.randint(20, 60)
    pool_s = max(3, int(na * rng.choice([0.3, 0.5, 0.8])))            # sid values of A (repeated)
    pool_o = max(3, int(na * rng.choice([0.2, 0.5])))
    ntomo, ncls = rng.randint(1, 4), rng.randint(1, 3)
    a = [[bases[0] + rng.randint(1, pool_s), bases[1] + rng.randint(1, ntomo), bases[2] + rng.randint(1, pool_o),
          rng.randint(1, NSCORE_SIM), bases[3] + rng.randint(1, ncls), i + 1] for i in range(na)]
    # B: distinct values drawn from a range that covers A's pool only partly
    span_s = list(range(1, pool_s + nb + 10))
    span_o = list(range(1, pool_o + nb + 10))
    drop_s = set(rng.sample(range(1, pool_s + 1), max(1, pool_s // 3)))
    drop_o = set(rng.sample(range(1, pool_o + 1), max(1, pool_o // 3)))
    cand_s = [v for v in span_s if v not in drop_s]
    cand_o = [v for v in span_o if v not in drop_o]
    rng.shuffle(cand_s)
    rng.shuffle(cand_o)
    b = []
    for i in range(nb):
        sid = cand_s[i % len(cand_s)] if rng.random() < 0.9 else rng.choice(cand_s)
        obj = cand_o[i % len(cand_o)] if rng.random() < 0.9 else rng.choice(cand_o)
        b.append([bases[0] + sid, bases[1] + rng.randint(1, ntomo + 1), bases[2] + obj, rng.randint(1, NSCORE_SIM),
                  bases[3] + rng.randint(1, ncls + 1), 500 + i + 1])
    if rng.random() < 0.35:
        return {"a": digit_collisions(a), "b": digit_collisions(b)}
    return {"a": zero_columns(a, zb), "b": zero_columns(b, zb)}


def medium_transitions(ctx, judge, npairs, budget):
    """Depth-1 transitions (every operation and parameter choice) from driver-written medium tables."""
    rng = random.Random(ctx.seed * 6151 + 5)
    path = os.path.join(ctx.sub("tr_medium"), "inits.ndjson")
    with open(path, "w") as fh:
        for _ in range(npairs):
            fh.write(json.dumps(gen_overlap_pair(rng)) + "\n")
    res = ctx.tlc("MC_MotlSet", cfg("FileInits", 1, "tr", valseqs="SimValSeqs", dyn=True, third=True, nscore=NSCORE_SIM,
                                    minrows=2, maxrows=200, emit="EmitTR", clauses=False),
                  name="tr_medium", workers=1, env={"INIT_FILE": path, "MC_SEED": ctx.seed, "MC_EMITMOD": 1})
    trs = res.records
    if not trs:
        raise core.MachineryError("no medium-table transition emitted\n%s" % res.stdout[-1500:])
    keyed = sorted(trs, key=lambda t: core.stable_hash([ctx.seed, t]))
    by_kind = {}
    for t in keyed:
        by_kind.setdefault(t["op"]["name"] + t["op"].get("f", ""), []).append(t)
    if not any(k.startswith("intersect") for k in by_kind):
        raise core.MachineryError("coverage hole: no intersection among the medium-table transitions")
    share = max(1, budget // len(by_kind))
    chosen = [t for k in sorted(by_kind) for t in by_kind[k][:(4 * share if k.startswith(("intersect", "merge", "renumber_objects", "split")) else share)]]
    ctx.extra["medium_transitions_emitted"] = len(trs)
    ctx.extra["medium_transitions_replayed"] = len(chosen)
    for i, t in enumerate(chosen):
        run_history(ctx, judge, t["a0"], t["b0"], [{"op": t["op"], "a": t["a"], "bch": t["b"] != t["b0"], "b": t["b"]}],
                    variant=(ctx.seed * 104729 + i) % 100003, kind="transition", sample_all=(i % 20 == 0))


def simulate(ctx, judge, name, sizes, nsim, maxrows, minrows, clauses, sample_all, cap, third=False):
    path = write_inits(ctx, name, sizes)
    res = ctx.tlc("MC_MotlSet", cfg("FileInits", 10, "hist", valseqs="SimValSeqs", dyn=True, sched=True, nscore=NSCORE_SIM,
                                    minrows=minrows, maxrows=maxrows, clauses=clauses, third=third),
                  name=name, simulate=nsim, depth=60, seed=ctx.seed + 1, workers=1,
                  env={"INIT_FILE": path, "MC_SEED": ctx.seed})
    seen = set()
    nb = 0
    for rec in res.records:
        h = rec["hist"]
        key = core.stable_hash(h)
        if key in seen:
            continue
        seen.add(key)
        nb += 1
        if nb > cap:
            break
        run_history(ctx, judge, h[0]["a"], h[0]["b"], h[1:], variant=(ctx.seed * 31 + nb) % 100003, kind="behaviour",
                    sample_all=sample_all and judge.sampled < ctx.pick(3000, 15000))
    if nb == 0:
        raise core.MachineryError("simulation %s produced no behaviour\n%s" % (name, res.stdout[-1500:]))
    ctx.extra["behaviours_" + name] = nb
    return nb


# ---- main ----------------------------------------------------------------------------------------------------
def run(ctx):
    ctx.rule = ("L2: every transition of MC_MotlSet (tables of <=2 (quick) / <=3 (thorough) rows over values 1..2 x 3 second "
                "operands x all operations and parameters) sub-sampled by seed and replayed into Motl; 10-operation "
                "histories simulated by TLC from random initial tables (0..200 rows, repeated / unsorted ids, score ties) "
                "stepped through two live Motl objects with both tables compared after every call; L3: observed steps "
                "judged by MotlSetTrace with the clause predicates.  distinct = distinct (initial tables, operation "
                "sequence) cases")
    ctx.assumptions += [
        "projection alpha (key columns as integers / score tokens, tag recovered only if all 15 other fields are "
        "bit-identical) is trusted",
        "NaN is not generated in any column (the property does not say how missing values compare; Motl.load fills them)",
        "values requested from subset / remove are pairwise distinct (repeated requests repeat rows; not claimed)",
        "drop_duplicates 'best' = highest score, or lowest when decision_sort_ascending=True (documented flag)",
    ]
    only = getattr(ctx, "only", None)
    judge = Judge(ctx)

    def want(x):
        return not only or x in only

    if want("l1") and not ctx.quick:
        r = ctx.tlc("MC_MotlSet", cfg("Pairs3", 1, "none"), name="l1_rows3", workers=4, env={"MC_SEED": ctx.seed})
        ctx.exhaustive["L1_rows3_depth1"] = True
        r = ctx.tlc("MC_MotlSet", cfg("Pairs2", 2, "none"), name="l1_depth2", workers=4, env={"MC_SEED": ctx.seed})
        ctx.exhaustive["L1_rows2_depth2"] = True
    if want("tr"):
        init = ctx.pick("Pairs2", "Pairs3Sample")
        res = ctx.tlc("MC_MotlSet", cfg(init, 1, "tr"), name="transitions", workers=1, env={"MC_SEED": ctx.seed, "MC_EMITMOD": ctx.pick(3, 2)},
                      )
        trs = res.records
        if len(trs) < 1000:
            raise core.MachineryError("only %d transitions emitted" % len(trs))
        ctx.exhaustive["L1_%s_depth1" % init] = True
        names = set(t["op"]["name"] for t in trs)
        if len(names) != 10:
            raise core.MachineryError("coverage hole: operations emitted = %s" % sorted(names))
        budget = ctx.pick(750, 22000)
        # deterministic sub-sample by hash of (seed, transition), the budget shared evenly by the operation kinds
        keyed = sorted(trs, key=lambda t: core.stable_hash([ctx.seed, t]))
        by_kind = {}
        for t in keyed:
            k = t["op"]["name"] + (str(len(t["op"]["order"])) if "order" in t["op"] else "")
            by_kind.setdefault(k, []).append(t)
        share = max(1, budget // len(by_kind))
        chosen = [t for k in sorted(by_kind) for t in by_kind[k][:share]]
        ctx.exhaustive["L2_transitions"] = len(chosen) == len(trs)
        ctx.extra["transitions_emitted"] = len(trs)
        ctx.extra["transitions_replayed"] = len(chosen)
        for i, t in enumerate(chosen):
            run_history(ctx, judge, t["a0"], t["b0"], [{"op": t["op"], "a": t["a"], "bch": t["b"] != t["b0"], "b": t["b"]}],
                        variant=(ctx.seed * 7919 + i) % 100003, kind="transition", sample_all=(i % 10 == 0))
    if want("trm"):
        medium_transitions(ctx, judge, ctx.pick(14, 240), ctx.pick(200, 8000))
    if want("sim"):
        rng = random.Random(ctx.seed + 17)
        small = [rng.randint(0, 8) for _ in range(ctx.pick(40, 300))]
        simulate(ctx, judge, "sim_small", small, ctx.pick(80, 2500), 30, 1, True, True, ctx.pick(80, 2500))
        simulate(ctx, judge, "sim_empty", [rng.randint(0, 4) for _ in range(20)], ctx.pick(30, 400), 12, 0, True, True,
                 ctx.pick(30, 400))
        med = [rng.randint(9, 40) for _ in range(ctx.pick(10, 60))]
        simulate(ctx, judge, "sim_medium", med, ctx.pick(15, 600), 120, 4, False, False, ctx.pick(15, 600), third=True)
        if not ctx.quick:
            big = [rng.choice([100, 150, 200, rng.randint(41, 200)]) for _ in range(12)]
            simulate(ctx, judge, "sim_large", big, 60, 200, 20, False, False, 60, third=True)
    if judge.recs or not only or (only & {"tr", "trm", "sim"}):
        judge.flush()
    if want("mixed"):
        # composition: set operations interleaved with pose operations and EM round trips on one live list
        # (MotlSysTrace.tla, Scope = "set": only the set steps are judged, pose steps re-synchronise)
        motlsys.run(ctx, "set", ctx.pick(150, 3000))

"""C19 - chain tracing (ribana.trace_chains).

L1  Chains.tla: the reference builder (start / extend along a link) is model-checked against ValidTrace; the
    ALGORITHM MODEL of trace_chains (forward tracing, add_chain_suffix / add_chain_prefix with their table-row
    bookkeeping) is explored over abstract distance ranks - exhaustively for small scopes, over the neighbourhood of
    the Appendix-C configuration, and by random simulation - and its final tables are judged by ValidTrace: a search for
    design-level counter-examples.
L2  the instances TLC emits (every counter-example of the current model, the counter-examples of the earlier,
    defective designs kept as negative controls, and a sample of conforming instances) are realised as point sets (mbt/chainsgeo.py, verified by brute force), run through the real trace_chains and judged by
    ChainsTrace.tla.  Whether the real table equals the model's table is recorded as information only.
L3  random paired entry / exit lists (2..60 particles, 1..3 tomograms, uniform / clustered / shuffled polysome-like
    walks): the driver logs the brute-force link relation with distances and the returned table; ChainsTrace.tla
    evaluates ValidTrace and names the failing clause.
"""
import contextlib
import io
import json
import math
import os
import random

import numpy as np

from .. import argguard, chainsgeo, core, motlutil, parsers

REL = 1e-6
RAN_IDS = set()        # ids of the cases handed to trace_chains in this process (coverage accounting)
SCALE = 1e5
OP = "trace_chains"


# ---- the call under test --------------------------------------------------------------------------------------
FORMS = ["motl", "frame", "em_str", "em_path", "frame", "motl"]


def case_form(case):
    return case.get("form") or ("frame" if case.get("variant", 0) & 2 else "motl")


def f32(a):
    return np.asarray(a, dtype=np.float32).astype(np.float64)


def build_motls(case, wd=None):
    """Entry and exit lists in the case's input form: Motl objects, DataFrames (row labels varied by variant // 8, column
    order by variant // 3), or EM files named by str / pathlib.Path (values are float32 there).  variant bit 0: part of
    every position is carried by the shift columns; bits 2 and 3 both set: trace_chains is called twice on the same
    list objects."""
    import pathlib
    from cryocat import cryomotl
    n = len(case["entry"])
    variant = case.get("variant", 0)
    out = []
    for which, pts in (("entry", case["entry"]), ("exit", case["exit"])):
        # form and row labels are chosen independently for the two lists (the lists are paired by position and by
        # particle id, never by row label): "form_x" / "kx" describe the exit list when they are given
        form = case_form(case) if which == "entry" else case.get("form_x", case_form(case))
        klab = variant // 8 if which == "entry" else case.get("kx", variant // 8)
        cols = motlutil.empty_rows(n)
        for k in range(n):
            p = [float(v) for v in pts[k]]
            if variant & 1:
                base = [math.floor(v) for v in p]
                sh = [p[i] - base[i] for i in range(3)]
            else:
                base, sh = p, [0.0, 0.0, 0.0]
            cols["x"][k], cols["y"][k], cols["z"][k] = base
            cols["shift_x"][k], cols["shift_y"][k], cols["shift_z"][k] = sh
            cols["tomo_id"][k] = case["tomo"][k]
            cols["subtomo_id"][k] = case["sid"][k]
            cols["class"][k] = 1
        df = motlutil.df_from_cols(cols)
        if form == "frame":
            # lists handed over as DataFrames may carry any row labels and any column order
            out.append(motlutil.vary_columns(motlutil.vary_index(df, klab), variant // 3))
        elif form in ("em_str", "em_path"):
            # half of the file inputs live at ONE path per process that is rewritten before every call (contents cached
            # by file name would be stale), the others get a path of their own
            path = os.path.join(wd, "%s_shared.em" % which if variant & 32 else "%s_%d_%s.em" % (which, os.getpid(), case.get("id", 0)))
            vals = [float(v) for row in df[motlutil.FIELDS].to_numpy(dtype=float) for v in row]
            parsers.write_em(path, (20, n, 1), "float32", vals)
            out.append(path if form == "em_str" else pathlib.Path(path))
        else:
            # a Motl keeps the row labels of the frame it was built from (sorted / filtered / subset tables)
            out.append(cryomotl.Motl(motlutil.vary_columns(motlutil.vary_index(df, klab), variant // 3)))
    return out


def guard_of(me, mx):
    frames = {}
    for name, obj in (("motl_entry", me), ("motl_exit", mx)):
        if hasattr(obj, "df"):
            frames[name] = obj.df
        elif not isinstance(obj, (str, os.PathLike)):
            frames[name] = obj
    return argguard.Guard(**frames)


def call_trace(case, wd=None):
    """Returns (tables, why): the projected tables [first call (looked at again after the second), second call on the SAME
    list objects] when variant bits 2 and 3 are set, else [the one call]; why = how an argument was changed, or None."""
    from cryocat import ribana
    me, mx = build_motls(case, wd)
    guard = guard_of(me, mx)
    dmax, dmin = case["max"], case["min"]
    if case.get("variant", 0) & 16 and float(dmax).is_integer() and float(dmin).is_integer():
        dmax, dmin = int(dmax), int(dmin)                       # thresholds as Python ints
    with contextlib.redirect_stdout(io.StringIO()):
        first = ribana.trace_chains(me, mx, dmax, dmin)
        why = guard.changed()
        if case.get("variant", 0) & 12 != 12 or why:
            return [project(first.df)], why
        # the caller's own list objects are re-used: an implementation that modifies its arguments or keeps state
        # between calls shows up in the second table, or in the first one when it is inspected afterwards
        second = ribana.trace_chains(me, mx, dmax, dmin)
        return [project(first.df), project(second.df)], guard.changed()


def em_side(case, which):
    f = case_form(case) if which == "entry" else case.get("form_x", case_form(case))
    return f.startswith("em")


def coords(case):
    """The positions the library works with: with variant bit 0 the float sum base + shift (not the decimal input); for
    EM file inputs every stored number is single precision."""
    E = np.array(case["entry"], dtype=float)
    X = np.array(case["exit"], dtype=float)
    def side(A, em):
        if case.get("variant", 0) & 1:
            return f32(np.floor(A)) + f32(A - np.floor(A)) if em else np.floor(A) + (A - np.floor(A))
        return f32(A) if em else A
    E, X = side(E, em_side(case, "entry")), side(X, em_side(case, "exit"))
    return E, X


def relation(case):
    """Brute-force link relation: [[sid_a, sid_b, d x1e5]] for a != b in one tomogram with min < d <= max.
    None when some distance is a near tie with a threshold."""
    E, X = coords(case)
    tomo = np.array(case["tomo"])
    n = len(E)
    D = np.sqrt(((X[:, None, :] - E[None, :, :]) ** 2).sum(axis=2))
    dmax, dmin = case["max"], case["min"]
    links = []
    if case.get("exact"):
        # integer lattice sites, integer thresholds: distances may sit exactly on a threshold; decided in integers
        # (open at min_distance, closed at max_distance) - ChainsTrace.tla recomputes this relation itself
        Ei, Xi = np.array(case["entry"], dtype=np.int64), np.array(case["exit"], dtype=np.int64)
        for a in range(n):
            for b in range(n):
                if a != b and tomo[a] == tomo[b]:
                    d2 = int(((Xi[a] - Ei[b]) ** 2).sum())
                    if int(dmin) ** 2 < d2 <= int(dmax) ** 2:
                        links.append([a + 1, b + 1, int(round(math.sqrt(d2) * SCALE))])
        return links
    for a in range(n):
        for b in range(n):
            if a == b or tomo[a] != tomo[b]:
                continue
            d = float(D[a, b])
            if abs(d - dmax) < REL * dmax or abs(d - dmin) < REL * max(dmin, 1.0) or d < 1e-9:
                return None
            if dmin < d <= dmax:
                links.append([a + 1, b + 1, int(round(d * SCALE))])
    return links


def project(df):
    """Returned table -> rows [sid, tomo, object label, order, recorded x1e5].  Object numbers are labels: distinct
    values are numbered; a non-integral order number is mapped to -999 (never among 1..k)."""
    labels = {}
    rows = []
    for r in df[["subtomo_id", "tomo_id", "object_id", "geom2", "geom4"]].to_numpy(dtype=float):
        sid, tomo, obj, ordn, rec = [float(v) for v in r]
        if obj not in labels:
            labels[obj] = len(labels) + 1
        o = int(round(ordn)) if (math.isfinite(ordn) and abs(ordn - round(ordn)) < 1e-9) else -999
        rc = int(round(min(max(rec, -2e4), 2e4) * SCALE)) if math.isfinite(rec) else -1
        s = int(round(sid)) if math.isfinite(sid) and abs(sid - round(sid)) < 1e-9 else -1
        t = int(round(tomo)) if math.isfinite(tomo) and abs(tomo - round(tomo)) < 1e-9 else -1
        rows.append([s, t, labels[obj], o, rc])
    return rows


def cause_of(how):
    """Branch class of a run of the algorithm model (its branch log)."""
    steps = [tuple(h[-2:]) for h in how]                       # (dispatch,) suffix outcome, prefix outcome
    if ("suffix-tailcut", "both-headcut") in steps:
        return "tailcut+headcut_in_one_join"
    if any("suffix-tailcut" in st for st in steps):
        return "tailcut"
    return "no_tailcut"


CUTS = {"suffix-tailcut", "prefix-headcut", "both-headcut"}
# dispatch branch families of trace_chains' connection step that must occur among the replayed point sets
REQUIRED_FAMILIES = [(d, c) for d in ("suffix-only", "prefix-only", "single-same-target", "multi-same-target",
                                      "single-same-target+orphan", "multi-same-target+orphan", "same-chain", "two-sided")
                     for c in ("nocut",)] + \
                    [("suffix-only", "cut"), ("prefix-only", "cut"), ("single-same-target", "cut"), ("same-chain", "cut"),
                     ("two-sided", "cut")]


def families(how):
    """The (dispatch branch, with / without a cut) families a run of the algorithm model goes through."""
    out = set()
    for st in how:
        if len(st) == 3 and st[0] != "no-neighbour":
            out.add((st[0], "cut" if CUTS & set(st[1:]) else "nocut"))
    return out


def canon(tab):
    """(particle, object, order[, recorded rank]) rows -> the partition into chains with order numbers (and recorded
    ranks); object labels are arbitrary."""
    groups = {}
    for row in tab:
        groups.setdefault(row[1], []).append((row[2], row[0]) + tuple(row[3:]))
    return sorted(tuple(sorted(g)) for g in groups.values())


def rec_rank(rec, dists):
    """The rank (1-based position in the ascending list of linked distances) a recorded value x1e5 stands for;
    0 for a recorded 0, -1 when it is none of the linked distances."""
    if rec == 0:
        return 0
    for k, d in enumerate(dists):
        if abs(rec - d * SCALE) <= 2 + d * SCALE * 1e-6:
            return k + 1
    return -1


def tomo_instances(case):
    """The abstract instance of every tomogram of a point case: particles numbered in list order, linked pairs by
    increasing brute-force distance.  [(tomogram, [sid...], instance | None)], None when two distances tie."""
    E, X = coords(case)
    out = []
    for t in sorted(set(case["tomo"])):
        idx = [k for k in range(len(E)) if case["tomo"][k] == t]
        links = []
        for a, ka in enumerate(idx):
            for b, kb in enumerate(idx):
                if a != b:
                    d = float(np.sqrt(((X[ka] - E[kb]) ** 2).sum()))
                    if case["min"] < d <= case["max"]:
                        links.append((d, a + 1, b + 1))
        links.sort()
        tie = any(links[k + 1][0] - links[k][0] < 1e-9 * links[k + 1][0] for k in range(len(links) - 1))
        inst = None if tie else {"n": len(idx), "links": [[a, b] for _, a, b in links]}
        out.append((t, [int(case["sid"][k]) for k in idx], inst, [d for d, _, _ in links]))
    return out


def classify(ctx, pending):
    """pending: [(clause, detail, case, kind, rows | None)].  Runs the algorithm model of Chains.tla on the abstract
    instance of every failing case and names the cause: the table is exactly what the algorithm model of the current
    design computes (and through which cut branches) or it differs from it.  Only used to build narrow failure
    signatures (clause / kind / cause); the verdict is ValidTrace's."""
    if not pending:
        return
    insts, per_case = {}, []
    for clause, detail, case, kind, rows in pending:
        ti = tomo_instances(case)
        per_case.append(ti)
        for _, _, inst, _ in ti:
            if inst is not None:
                insts[core.stable_hash([inst["n"], inst["links"]])] = inst
    model = {}
    if insts:
        wd = ctx.sub("classify")
        path = os.path.join(wd, "instances_%d.ndjson" % len(os.listdir(wd)))
        with open(path, "w") as fh:
            for inst in insts.values():
                fh.write(json.dumps(inst) + "\n")
        res = ctx.tlc("MC_Chains", cfg_chains("AlgoSpec", 1, 1, "file", ["CONSTRAINT EmitAlgo"]), name="classify",
                      env={"INSTANCE_FILE": path}, workers=1)
        for r in res.tagged.get("ALGO", []):
            if isinstance(r, dict):
                model[core.stable_hash([r["n"], r["links"]])] = r
    for (clause, detail, case, kind, rows), ti in zip(pending, per_case):
        causes, agree = [], True
        for t, sids, inst, dists in ti:
            if inst is None:
                agree = None
                break
            m = model.get(core.stable_hash([inst["n"], inst["links"]]))
            if m is None:
                raise core.MachineryError("the algorithm model returned no run for an instance of case %s" % case.get("id"))
            causes.append(cause_of(m["how"]))
            if rows is None:                                   # the call raised: does the model raise as well?
                agree = agree and m["err"] != ""
                continue
            local = {sid: k + 1 for k, sid in enumerate(sids)}
            real = [(local.get(r[0], -1), r[2], r[3], rec_rank(r[4], dists)) for r in rows if r[1] == t]
            agree = agree and m["err"] == "" and canon(real) == canon([tuple(x) for x in m["table"]])
        if agree is None:
            cause = "unclassified:equal_distances"
        elif agree:
            order = ["tailcut+headcut_in_one_join", "tailcut", "no_tailcut"]
            cause = "as-algorithm-model:" + min(causes, key=order.index)
        else:
            cause = "differs-from-algorithm-model"
        ctx.fail(clause, detail + "; cause: " + cause, case, {"op": OP, "kind": kind, "cause": cause})


def run_cases(ctx, cases, corrupt=None):
    """Run trace_chains on every case, write the traces, let ChainsTrace.tla decide.  Returns per kept case the
    projected table (for the informational model-conformance count)."""
    traces, kept, tables, pending = [], [], [], []
    for case in cases:
        links = relation(case)
        if links is None:
            ctx.discard("near tie (a distance within 1e-6 of max_distance / min_distance)")
            continue
        res, err = core.call_guarded(call_trace, case, ctx.sub("em"))
        RAN_IDS.add(case.get("id", 0))
        ctx.ran(case, nontrivial=len(links) > 0)
        if err is not None:
            pending.append(("call_raises", err, case, "-", None))
            continue
        res, why = res
        if why:
            # the tracing is about the lists the caller holds; a call that rewrites them answers about other lists
            ctx.fail("C19_ArgumentsUnchanged", "trace_chains changed its argument (%s)" % why, case,
                     {"op": OP, "kind": "-", "cause": "argument modified"})
            continue
        for j, rows in enumerate(res):
            if corrupt == "field" and not traces and len(rows) > 1:
                rows[0][0], rows[0][1] = rows[1][0], rows[1][1]   # binding demonstration: a particle reported twice
            if corrupt == "links" and not traces and links:
                links = links[1:]                              # binding demonstration: a link missing from the relation
            # a particle is identified by (tomogram, subtomogram number) - the numbering may restart in every tomogram;
            # in the trace it is named by its position in the input lists (an unknown pair gets a negative name)
            pid = {(int(t), int(sd)): k + 1 for k, (sd, t) in enumerate(zip(case["sid"], case["tomo"]))}
            named = [[pid.get((r[1], r[0]), -1 - i)] + r[1:] for i, r in enumerate(rows)]
            tr = {"id": case.get("id", 0), "parts": [[k + 1, int(t)] for k, t in enumerate(case["tomo"])],
                  "link": links, "out": named}
            if case.get("exact"):
                tr["lat"] = {"E": case["entry"], "X": case["exit"], "max2": int(case["max"]) ** 2, "min2": int(case["min"]) ** 2}
            traces.append(tr)
            kept.append(case)
            tables.append(rows)
    if not traces:
        classify(ctx, pending)
        return kept, tables
    wd = ctx.sub("trace")
    path = os.path.join(wd, "traces_%d.ndjson" % len(os.listdir(wd)))
    with open(path, "w") as fh:
        for t in traces:
            fh.write(json.dumps(t) + "\n")
    res = ctx.tlc("ChainsTrace", "SPECIFICATION TraceSpec\nCONSTRAINT Report\n", name="trace",
                  env={"TRACE_FILE": path}, workers=1)
    verdicts = {v["tid"]: v for v in res.tagged.get("VERDICT", [])}
    if len(verdicts) != len(traces):
        raise core.MachineryError("ChainsTrace returned %d verdicts for %d traces\n%s" % (
            len(verdicts), len(traces), res.stdout[-2000:]))
    for i, case in enumerate(kept):
        v = verdicts[i + 1]
        if v["ok"]:
            continue
        if v["clause"] == "TRACE_INCONSISTENT":
            raise core.MachineryError("driver logged an inconsistent trace for case %s" % json.dumps(case)[:500])
        pending.append((v["clause"], "table returned by trace_chains rejected by ChainsTrace (ValidTrace clause %s, %s)" % (
            v["clause"], v["kind"]), case, v["kind"], tables[i]))
    classify(ctx, pending)
    return kept, tables


def replay(ctx, case):
    if case.get("kind") != "points":
        raise core.MachineryError("unknown case kind %r" % case.get("kind"))
    run_cases(ctx, [case])


# ---- L3 generators ------------------------------------------------------------------------------------------------
def rand_unit(rng):
    while True:
        v = [rng.gauss(0, 1) for _ in range(3)]
        nv = math.sqrt(sum(x * x for x in v))
        if nv > 1e-6:
            return [x / nv for x in v]


def tomo_values(rng, nt):
    """The nt tomogram numbers of a case: the usual 1.., a set containing 0, large consecutive numbers, a number equal to
    the number of particles is produced by chance (identifier values are data, never flags or counts)."""
    kind = rng.randrange(4)
    if kind == 0:
        return list(range(1, nt + 1))
    if kind == 1:
        return list(range(0, nt))
    if kind == 2:
        start = rng.choice([100000, 100001, 123455])
        return list(range(start, start + nt))
    return sorted(rng.sample(range(0, 500), nt))


def gen_case(rng, idx, nforce=0):
    n = rng.randint(2, 60) if rng.random() < 0.7 else rng.randint(2, 14)
    if nforce:
        n = nforce
    nt = rng.randint(1, 3)
    mode = rng.choice(["uniform", "clusters", "walk", "walk"])
    dmax = round(rng.uniform(1.5, 7.0), 2)
    dmin = rng.choice([0, 0, round(rng.uniform(0.2, 0.6) * dmax, 2)])
    disp = rng.choice([0.5, 1.0, 2.0]) * dmax
    entry, exit_ = [], []
    if mode == "uniform":
        L = rng.choice([1.0, 1.5, 2.5, 4.0]) * dmax * (n ** (1 / 3.0)) / 1.5
        for _ in range(n):
            entry.append([rng.uniform(0, L) for _ in range(3)])
    elif mode == "clusters":
        k = rng.randint(1, 4)
        cent = [[rng.uniform(0, 12 * dmax) for _ in range(3)] for _ in range(k)]
        rad = rng.choice([0.8, 1.5, 2.5]) * dmax
        for _ in range(n):
            c = rng.choice(cent)
            entry.append([c[i] + rng.gauss(0, rad / 1.7) for i in range(3)])
    if mode in ("uniform", "clusters"):
        for e in entry:
            u = rand_unit(rng)
            r = rng.uniform(0.3, 1.0) * disp
            exit_.append([e[i] + u[i] * r for i in range(3)])
    else:
        # polysome-like walks: the next entry lies near the previous exit; several walks, plus loose particles
        while len(entry) < n:
            ln = rng.randint(1, 8)
            pos = [rng.uniform(0, 6 * dmax) for _ in range(3)]
            for _ in range(ln):
                if len(entry) >= n:
                    break
                entry.append(list(pos))
                u = rand_unit(rng)
                r = rng.uniform(0.3, 1.0) * disp
                ex = [pos[i] + u[i] * r for i in range(3)]
                exit_.append(ex)
                u = rand_unit(rng)
                step = rng.uniform(max(dmin, 0.05 * dmax) * 1.05, dmax * rng.choice([0.6, 0.95, 1.2]))
                pos = [ex[i] + u[i] * step for i in range(3)]
        perm = list(range(n))
        rng.shuffle(perm)                                      # chains get started "in the middle"
        entry = [entry[p] for p in perm]
        exit_ = [exit_[p] for p in perm]
    entry = [[round(v, 3) for v in p] for p in entry]
    exit_ = [[round(v, 3) for v in p] for p in exit_]
    tv = tomo_values(rng, nt)
    tomo = [tv[rng.randrange(nt)] for _ in range(n)]
    if rng.random() < 0.5:
        tomo = sorted(tomo)
    base = rng.choice([1, 1, 0, 100, 5000, 100000, 16777217])
    sid = list(range(base, base + n))
    if rng.random() < 0.3:
        rng.shuffle(sid)
    if rng.random() < 0.3:
        # numbering restarts in every tomogram: (tomogram, number) identifies a particle, the number alone does not
        seen = {}
        sid = []
        for t in tomo:
            seen[t] = seen.get(t, base - 1) + 1
            sid.append(seen[t])
    form = FORMS[idx % len(FORMS)]
    form_x = rng.choice(["motl", "frame", "em_str", "em_path", form, form])
    if base == 16777217:                                       # ids beyond 2^24 are not float32 numbers
        form = "frame" if form.startswith("em") else form
        form_x = "motl" if form_x.startswith("em") else form_x
    return {"kind": "points", "id": idx, "entry": entry, "exit": exit_, "tomo": tomo, "sid": sid,
            "max": dmax, "min": dmin, "variant": rng.randrange(64), "mode": mode, "form": form, "form_x": form_x,
            "kx": rng.randrange(8)}


def gen_exact_case(rng, idx):
    """See gen_exact_case0.  A case in which an exit site coincides with the entry site of another particle of the same
    tomogram while min_distance = 0 is re-drawn: distance 0 is an exact tie at the open end of (0, max] (the pinned tree
    links such a pair with recorded distance 0 - reported to the lead, not claimed here)."""
    while True:
        c = gen_exact_case0(rng, idx)
        E, X, t = np.array(c["entry"]), np.array(c["exit"]), np.array(c["tomo"])
        d2 = ((X[:, None, :] - E[None, :, :]) ** 2).sum(axis=2)
        same = (t[:, None] == t[None, :]) & ~np.eye(len(t), dtype=bool)
        if c["min"] > 0 or not np.any((d2 == 0) & same):
            return c


def gen_exact_case0(rng, idx):
    """Integer lattice sites and integer thresholds: many exit -> entry distances are exactly max_distance (3-4-5,
    6-8-10, axis steps) or exactly min_distance - the interval is (min, max]."""
    n = rng.randint(2, 14)
    dmax = rng.choice([5, 5, 10, 13, 3])
    dmin = rng.choice([0, 0, 1, 2, 3, 4]) if dmax > 4 else rng.choice([0, 1, 2])
    steps = [v for v in ([dmax, 0, 0], [0, dmax, 0], [3, 4, 0], [0, 3, 4], [4, 0, 3], [6, 8, 0], [5, 12, 0], [0, dmin, 0], [dmin, 0, 0],
                         [1, 2, 2], [2, 3, 6], [1, 1, 1], [2, 0, 1]) if any(v)]
    entry, exit_ = [], []
    pos = [rng.randint(0, 20) for _ in range(3)]
    for k in range(n):
        if rng.random() < 0.25:
            pos = [rng.randint(0, 30) for _ in range(3)]
        entry.append(list(pos))
        st = rng.choice(steps)
        ex = [pos[i] + rng.choice([-1, 1]) * st[i] for i in range(3)]
        exit_.append(ex)
        st = rng.choice(steps)
        pos = [ex[i] + rng.choice([-1, 1]) * st[i] for i in range(3)]
    perm = list(range(n))
    rng.shuffle(perm)
    nt = rng.randint(1, 2)
    return {"kind": "points", "id": idx, "entry": [entry[p] for p in perm], "exit": [exit_[p] for p in perm],
            "tomo": sorted(rng.choice([[1, 2], [0, 1], [100001, 100002]][idx % 3][:nt]) for _ in range(n)),
            "sid": list(range([1, 0, 100000][idx % 3], [1, 0, 100000][idx % 3] + n)), "max": dmax, "min": dmin,
            "variant": rng.randrange(64) & ~1, "mode": "lattice-exact", "form": FORMS[idx % len(FORMS)],
            "form_x": FORMS[(idx * 5 + 1) % len(FORMS)], "kx": rng.randrange(8), "exact": True}


# ---- L1 / L2: the algorithm model -----------------------------------------------------------------------------------
def cfg_chains(spec, npart, maxlinks, family, extra, variant="Current"):
    """variant: "Current" (the algorithm as it is in the tree: both repairs of 1437bd7 / 00e911b), or one of the
    negative controls "NoRepair", "OnlyTailcutOrder", "OnlyFreshHeadId" (the earlier, defective designs)."""
    lines = ["SPECIFICATION %s" % spec, "CONSTANTS", " NPart = %d" % npart, " MaxLinks = %d" % maxlinks,
             ' Family = "%s"' % family, " Instances <- FamilyInstances", " Repair <- %s" % variant] + list(extra)
    return "\n".join(lines) + "\n"


def instance_case(ctx, rec, rng, idx):
    """Realise one abstract instance emitted by TLC as a replayable point case (None when not realisable)."""
    real = chainsgeo.realise(rec["n"], rec["links"], rng)
    if real is None:
        ctx.discard("abstract instance not realisable as points in R^3 by the solver")
        return None
    entry, exit_ = real
    n = rec["n"]
    return {"kind": "points", "id": idx, "entry": entry, "exit": exit_, "tomo": [[1, 0, 100001][idx % 3]] * n,
            "sid": list(range([1, 0, 100000][(idx // 3) % 3], [1, 0, 100000][(idx // 3) % 3] + n)),
            "max": chainsgeo.DMAX, "min": chainsgeo.DMIN, "variant": (idx * 7) % 64, "form": FORMS[idx % len(FORMS)],
            "form_x": FORMS[(idx * 5 + 1) % len(FORMS)], "kx": (idx * 3 + 2) % 8,
            "mode": "model-instance",
            "instance": {"n": n, "links": rec["links"]}}


def dedupe(recs):
    seen, out = set(), []
    for r in recs:
        if not isinstance(r, dict):
            continue
        k = core.stable_hash([r["n"], r["links"]])
        if k not in seen:
            seen.add(k)
            out.append(r)
    return out


def run(ctx):
    ctx.rule = ("L2: instances of the trace_chains algorithm model (every counter-example TLC finds + a seed-selected "
                "sample of conforming instances of the skeleton family), realised as point sets and replayed; L3: random "
                "paired lists (2..60 particles, 1..3 tomograms; uniform, clustered, shuffled polysome-like walks), one "
                "trace_chains call each, validated by ChainsTrace.  non-trivial = at least one linked pair")
    ctx.assumptions += [
        "the link relation and its distances are computed by brute force in the driver; cases with a distance within "
        "1e-6 (relative) of max_distance or min_distance are discarded",
        "object numbers are compared as labels; chains are identified by (tomogram, object number)",
        "the recorded value of the last member of a chain is not constrained by the property",
        "the algorithm model mirrors the pinned code; agreement of its tables with the real ones is reported as "
        "information (model_agreement), never as a verdict"]
    only = getattr(ctx, "only", None)
    workers = int(os.environ.get("VERIF_TLC_WORKERS", "4"))

    def want(x):
        return not only or x in only

    bad, sample, controls, cover = [], [], [], []
    if want("l1"):
        # reference builder: every reachable table is a valid trace (all link sets / orders of the scope)
        ctx.tlc("MC_Chains", cfg_chains("RefSpec", 3, 4, "all", ["INVARIANT C19_RefValid"]), name="ref_3",
                workers=workers)
        ctx.exhaustive["L1_reference_builder_3_particles_4_links"] = True
        # algorithm model (current design), exhaustive small scopes: all link sets and distance orders
        scopes = ctx.pick([(4, 4)], [(3, 6), (4, 4), (4, 6), (5, 4)])
        for n, k in scopes:
            # small scopes also emit the runs through the rarer dispatch branches (branch-coverage replays)
            emit = "EmitAlgoCover" if (n, k) in ((3, 6), (4, 4)) else "EmitAlgoBad"
            res = ctx.tlc("MC_Chains", cfg_chains("BuildSpec", n, k, "none", ["CONSTRAINT " + emit]),
                          name="algo_%d_%d" % (n, k), workers=workers)
            recs = dedupe(res.tagged.get("ALGO", []))
            bad += [r for r in recs if r["clause"] != "none"]
            cover += [r for r in recs if r["clause"] == "none"]
            ctx.exhaustive["L1_algorithm_%d_particles_%d_links" % (n, k)] = True
        # the neighbourhoods of the two six-particle configurations on which the earlier designs fail (found by TLC's
        # simulation of this model): every link subset / distance order over their candidate pairs
        for fam, k in (("skeleton", ctx.pick(5, 7)), ("skeleton2", 6), ("skeleton3", 6)):
            res = ctx.tlc("MC_Chains", cfg_chains("AlgoSpec", 5 if fam == "skeleton3" else 6, k, fam, ["CONSTRAINT EmitAlgo"]),
                          name="algo_" + fam, workers=1)
            recs = dedupe(res.tagged.get("ALGO", []))
            bad += [r for r in recs if r["clause"] != "none"]
            sample += [r for r in recs if r["clause"] == "none" and r["links"]]
            cover += [r for r in recs if r["clause"] == "none" and r["links"]]
            ctx.exhaustive["L1_algorithm_" + fam] = True
        # negative controls: the earlier designs must still be found violating (the clauses are not vacuous); their
        # counter-examples are the sharpest inputs for the code, so they are replayed too (L2)
        if ctx.quick:      # the two six-particle configurations themselves
            ctrl = [("NoRepair", "appendixC6", 5, "C19_ConsecutiveLinked"), ("OnlyTailcutOrder", "doublejoin6", 6, "C19_OrdersConsecutive")]
        else:              # ... and their whole neighbourhoods
            ctrl = [("NoRepair", "skeleton", 5, "C19_ConsecutiveLinked"), ("OnlyTailcutOrder", "skeleton2", 6, "C19_OrdersConsecutive"),
                    ("OnlyFreshHeadId", "skeleton", 7, "C19_ConsecutiveLinked")]
        for variant, fam, k, clause in ctrl:
            res = ctx.tlc("MC_Chains", cfg_chains("AlgoSpec", 6, k, fam, ["CONSTRAINT EmitAlgoBad"], variant=variant),
                          name="control_%s_%s" % (variant, fam), workers=1)
            recs = dedupe(res.tagged.get("ALGO", []))
            if not any(r["clause"] == clause for r in recs):
                raise core.MachineryError("negative control %s on %s: TLC found no run violating %s - the algorithm "
                                          "model or the predicate lost its teeth" % (variant, fam, clause))
            controls += recs
            ctx.extra["control_%s_counterexamples" % variant] = len(recs)
        if not ctx.quick:
            # random simulation of the model: six particles with six links, seven with seven
            nsim = int(os.environ.get("VERIF_C19_SIM", "40000"))
            for n in (6, 7):
                res = ctx.tlc("MC_Chains", cfg_chains("SimSpec", n, n, "none", ["CONSTRAINT EmitAlgoBad"]),
                              name="algo_sim%d" % n, workers=workers, simulate=nsim, depth=2 * n + 4, seed=ctx.seed + n)
                bad += res.tagged.get("ALGO", [])
            # ... and of the unrepaired design, as a source of hard inputs
            res = ctx.tlc("MC_Chains", cfg_chains("SimSpec", 7, 7, "none", ["CONSTRAINT EmitAlgoBad"], variant="NoRepair"),
                          name="control_sim7", workers=workers, simulate=nsim, depth=18, seed=ctx.seed + 77)
            controls += res.tagged.get("ALGO", [])
        bad = dedupe(bad)
        controls = dedupe(controls)
        ctx.extra["model_counterexamples"] = len(bad)
        ctx.extra["model_counterexample_classes"] = sorted({"%s/%s" % (r["clause"], cause_of(r["how"])) for r in bad})
    if want("l2") and (bad or sample or controls):
        rng = random.Random(ctx.seed * 7919 + 19)
        chosen = sorted(sample, key=lambda r: core.stable_hash([ctx.seed, r["links"]]))[:ctx.pick(12, 500)]
        hard = controls[:ctx.pick(25, 200)]
        # branch coverage: seed-selected representatives of every dispatch family TLC found reachable
        per_family = {}
        for r in sorted(cover, key=lambda r: core.stable_hash([ctx.seed, "cover", r["links"]])):
            for fam in families(r["how"]):
                lst = per_family.setdefault(fam, [])
                if len(lst) < ctx.pick(4, 40):
                    lst.append(r)
        reps = dedupe([r for lst in per_family.values() for r in lst])
        missing = [f for f in REQUIRED_FAMILIES if f not in per_family]
        if want("l1") and missing:
            raise core.MachineryError("the algorithm model never went through the dispatch families %s in the explored "
                                      "scopes" % missing)
        todo = bad[:ctx.pick(25, 150)] + chosen + reps
        cases, recs = [], []
        for i, r in enumerate(todo + hard):
            c = instance_case(ctx, r, rng, 100000 + i)
            if c is not None:
                cases.append(c)
                recs.append(r if i < len(todo) else None)
        agree = nmodel = 0
        kept, tables = run_cases(ctx, cases)
        by_id = {c["id"]: r for c, r in zip(cases, recs)}
        for c, rows in zip(kept, tables):
            if by_id[c["id"]] is None:
                continue                                        # a control instance: its table is the old design's
            nmodel += 1
            loc = {sid: k + 1 for k, sid in enumerate(c["sid"])}          # the model numbers the particles 1..n in list order
            real = canon([(loc.get(r[0], -1), r[2], r[3]) for r in rows])
            agree += int(real == canon([tuple(x[:3]) for x in by_id[c["id"]]["table"]]))
        realised = set()
        for c in cases:                                       # replayed = handed to the code, whatever the verdict
            if c["id"] in RAN_IDS and by_id[c["id"]] is not None:
                realised |= families(by_id[c["id"]]["how"])
        lost = [f for f in per_family if f not in realised]
        ctx.extra["dispatch_families_replayed"] = sorted("%s/%s" % f for f in realised)
        if lost:
            raise core.MachineryError("dispatch families %s were found by TLC but none of their instances could be realised "
                                      "as a point set and replayed" % lost)
        ctx.extra["model_instances_replayed"] = len(kept)
        ctx.extra["model_agreement"] = "%d of %d real tables equal the current model's table" % (agree, nmodel)
    if want("reg"):
        # regression replays: the two committed configurations on which the tree failed before 1437bd7 / 00e911b
        reg = []
        for name in ("c19_appendixC.json", "c19_doublejoin.json"):
            with open(os.path.join(core.CASES, name)) as fh:
                reg.append(json.load(fh)["case"])
        run_cases(ctx, reg)
    if want("l3"):
        total = ctx.pick(70, 1500)
        batch = 250
        done = 0
        while done < total:
            k = min(batch, total - done)
            # every particle count 1..12 is present in every run (sizes are not only sampled); a fifth of the cases are
            # lattice cases with distances exactly on the thresholds
            cases = [gen_case(ctx.rng, done + i + 1, nforce=(done + i + 1) if done + i < 12 else 0) if (done + i) % 5 != 4
                     else gen_exact_case(ctx.rng, done + i + 1) for i in range(k)]
            run_cases(ctx, cases, corrupt=(os.environ.get("VERIF_C19_CORRUPT") or None) if done == 0 else None)
            done += k

"""C17 - tilt-series metadata: mdoc machine, loaders, wedge lists.

L1  TiltMeta.tla: the mdoc machine (read / sort / remove / keep / reset / write / reload and the module-level helpers)
    is model-checked on small documents that cover every token class; the clauses are action properties; the loader
    and wedge-list laws are ASSUMEs on a small scope.
L2  TLC emits every depth-2 history of the small scope and simulated longer behaviours; the driver renders the abstract
    document to mdoc text, steps one live Mdoc object (and the files) through the history and compares, after every
    step, the object (projected to values) and the written file (parsed by an own splitter) with what TLC computed.
L3  random documents from the grammar (1..80 images, up to 25 columns, negative / float / text values, titles) with
    random operation sequences, and random loader / wedge-list inputs (1..80 rows, 1..5 tomograms, file and array
    inputs): the driver records the calls, TiltMetaTrace.tla recomputes every step / table with the operators of
    TiltMeta.tla and names the failing clause.
"""
import contextlib
import io
import json
import os

import numpy as np

from .. import core, parsers, tiltmeta as tm

PROPS = ["C17_MdocRoundTrip", "C17_SortOnlyReorders", "C17_RemoveOnlyFlags", "C17_WriteOmitsExactlyRemoved"]
INVS = ["TypeOK", "C17_ValuesRoundTrip"]


def cfg(depth, mode):
    lines = ["SPECIFICATION Spec", "CONSTANTS", " Docs <- MCDocs", " MaxDepth = %d" % depth, ' EmitMode = "%s"' % mode]
    lines += ["INVARIANT %s" % i for i in INVS]
    lines += ["PROPERTY %s" % p for p in PROPS]
    if mode == "hist":
        lines += ["CONSTRAINT EmitHist"]
    return "\n".join(lines) + "\n"


# ---- stepping a live Mdoc through a history -----------------------------------------------------------------------
class Live:
    """One live Mdoc object plus the file it was read from / last written to."""

    def __init__(self, workdir, tag):
        self.dir = workdir
        self.tag = tag
        self.n = 0
        self.m = None
        self.path = None

    def newpath(self):
        self.n += 1
        return os.path.join(self.dir, "%s_%d.mdoc" % (self.tag, self.n))

    def start(self, doc, layout):
        self.path = self.newpath()
        with open(self.path, "w", newline="") as fh:
            fh.write(tm.render_doc(doc, layout))

    def apply(self, op, variant):
        from cryocat import mdoc
        name = op["name"]
        with contextlib.redirect_stdout(io.StringIO()):
            if name in ("read", "reload"):
                self.m = mdoc.Mdoc(self.path)
            elif name == "sort":
                self.m.sort_by_tilt(reset_z_value=op["reset"])
            elif name == "remove":
                idx = sorted(op["idx"], reverse=bool(variant & 1))
                self.m.remove_images(np.array(idx) if variant & 2 else idx, kept_only=op["kept_only"])
            elif name == "keep":
                self.m.keep_images(sorted(op["labels"]))
            elif name == "reset":
                self.m.reset_images()
            elif name == "write":
                out = self.newpath()
                self.m.write(out, overwrite=bool(variant & 1), removed=op["removed"])
                self.path = out
            elif name == "fn_remove":
                out = self.newpath()
                idx = sorted(op["idx"])
                self.m = mdoc.remove_images(self.path, np.array(idx) if variant & 1 else idx,
                                            numbered_from_1=(op["base"] == 1), output_file=out)
                self.path = out
            elif name == "fn_sort":
                out = self.newpath()
                self.m = mdoc.sort_mdoc_by_tilt_angles(self.path, reset_z_value=op["reset"], output_file=out)
                self.path = out
            else:
                raise core.MachineryError("unknown mdoc operation %r" % (op,))

    def observe(self):
        with open(self.path) as fh:
            disk = tm.parse_doc(fh.read())
        return tm.project_mdoc(self.m), disk


def norm_op(op):
    """Operation record as TLC printed it (sets are arrays) -> plain JSON."""
    o = dict(op)
    for k in ("idx", "labels"):
        if k in o:
            o[k] = sorted(o[k])
    return o


def first_diff(got, exp, path=""):
    if type(got) != type(exp):
        return "%s: %r != %r" % (path, got, exp)
    if isinstance(got, dict):
        for k in sorted(set(got) | set(exp)):
            if k not in got or k not in exp:
                return "%s.%s: only on one side (%r / %r)" % (path, k, got.get(k), exp.get(k))
            dd = first_diff(got[k], exp[k], path + "." + k)
            if dd:
                return dd
        return None
    if isinstance(got, list):
        if len(got) != len(exp):
            return "%s: length %d != %d" % (path, len(got), len(exp))
        for i, (a, b) in enumerate(zip(got, exp)):
            dd = first_diff(a, b, "%s[%d]" % (path, i))
            if dd:
                return dd
        return None
    return None if got == exp else "%s: %r != %r" % (path, got, exp)


CLAUSE_OF = {"sort": "C17_SortOnlyReorders", "remove": "C17_RemoveOnlyFlags", "write": "C17_MdocRoundTrip",
             "reload": "C17_MdocRoundTrip", "read": "C17_MdocRoundTrip", "fn_remove": "C17_RemoveOnlyFlags",
             "fn_sort": "C17_SortOnlyReorders", "keep": "C17_RemoveOnlyFlags", "reset": "C17_RemoveOnlyFlags"}


def run_history(ctx, hist, variant, kind):
    """hist: [{op, post, disk}] as TLC printed it (first entry = the initial read)."""
    steps = [{"op": norm_op(h["op"]), "post": h["post"], "disk": h["disk"]} for h in hist]
    case = {"kind": kind, "doc": hist[0]["disk"], "steps": steps, "variant": variant}
    live = Live(ctx.sub("mdoc"), "h%d_%d" % (os.getpid(), ctx.traces))
    live.start(hist[0]["disk"], variant)
    for i, st in enumerate(steps):
        op = st["op"]
        sig = {"op": "mdoc." + op["name"], "layer": "L2"}
        _, err = core.call_guarded(live.apply, op, variant + i)
        if err is not None:
            ctx.fail("call_raises", "step %d %s: %s" % (i, op, err), case, sig)
            break
        got_m, got_d = live.observe()
        dm = first_diff(got_m, st["post"], "mdoc")
        dd = first_diff(got_d, st["disk"], "file")
        if dm or dd:
            clause = CLAUSE_OF[op["name"]]
            if dd and op["name"] in ("write", "fn_remove", "fn_sort"):
                clause = "C17_WriteOmitsExactlyRemoved" if len(got_d["secs"]) != len(st["disk"]["secs"]) else "C17_MdocRoundTrip"
            ctx.fail(clause, "step %d %s: %s" % (i, op, dm or dd), case, sig)
            break
    ctx.ran(case)


def replay(ctx, case):
    if case["kind"] in ("mdoc-history", "mdoc-behaviour"):
        hist = [{"op": s["op"], "post": s["post"], "disk": s["disk"]} for s in case["steps"]]
        run_history(ctx, hist, case.get("variant", 0), case["kind"])
    elif case["kind"] == "mdoc-random":
        run_random_mdocs(ctx, [case])
    elif case["kind"] in ("loader", "wedge"):
        run_tables(ctx, [case])
    else:
        raise core.MachineryError("unknown case kind %r" % case.get("kind"))


# ---- L3: random documents from the grammar -------------------------------------------------------------------------
KEYS = ["MinMaxMean", "StagePosition", "StageZ", "Magnification", "Intensity", "ExposureDose", "DoseRate", "PixelSpacing",
        "SpotSize", "Defocus", "ImageShift", "RotationAngle", "ExposureTime", "Binning", "CameraIndex", "DividedBy2",
        "OperatingMode", "MagIndex", "LowDoseConSet", "CountsPerElectron", "TargetDefocus", "PriorRecordDose",
        "SubFramePath", "NumSubFrames", "FrameDosesAndNumber", "DateTime", "NavigatorLabel", "FilterSlitAndLoss",
        "UncroppedSize", "Key_with_underscore", "K"]
HKEYS = ["PixelSpacing", "Voltage", "Version", "ImageFile", "ImageSize", "DataMode", "Offset", "Pad", "Scale", "T2"]


def rand_dig(rng):
    n = rng.choice([0, 1, 7, 10, 300, 4096, 64000, rng.randrange(10 ** rng.randint(1, 9))])
    return {"c": "dig", "n": n, "pad": rng.choice([0, 0, 0, 1, 2])}


def rand_dec(rng):
    """Decimal with |v| in [1e-3, 1e6), at most six fraction digits, at most ~12 significant digits."""
    ip = rng.choice([0, 0, 1, 2, 17, 300, rng.randrange(10 ** rng.randint(1, 6))])
    nf = rng.randint(0, 6)
    fd = [rng.randrange(10) for _ in range(nf)]
    if ip == 0:
        if nf == 0:
            fd = [rng.randrange(1, 10)]
        if all(x == 0 for x in fd[:3]):
            fd[rng.randrange(min(3, len(fd)))] = rng.randrange(1, 10)       # not below 1e-3
    noip = ip == 0 and rng.random() < 0.2
    return {"c": "dec", "ip": ip, "fd": fd, "noip": noip}


def rand_raw(rng):
    r = rng.random()
    if r < 0.25:
        return rand_dig(rng)
    if r < 0.55:
        return rand_dec(rng)
    if r < 0.7:
        return {"c": "neg", "b": rand_dec(rng) if rng.random() < 0.7 else rand_dig(rng)}
    return {"c": "txt", "id": rng.choice(sorted(tm.TXT))}


def micro(tok):
    if tok["c"] == "neg":
        return -micro(tok["b"])
    if tok["c"] == "dig":
        return tok["n"] * 10 ** 6
    fd = tok["fd"] + [0] * (6 - len(tok["fd"]))
    return tok["ip"] * 10 ** 6 + int("".join(str(x) for x in fd) or "0")


def rand_tilt(rng, used):
    for _ in range(200):
        r = rng.random()
        mag = rng.choice([rng.randint(0, 70), rng.randint(0, 70), rng.randint(0, 180)])
        if r < 0.2:
            b = {"c": "dig", "n": mag, "pad": rng.choice([0, 0, 1])}
        else:
            nf = rng.randint(0, 4)
            b = {"c": "dec", "ip": mag, "fd": [rng.randrange(10) for _ in range(nf)], "noip": False}
        tok = {"c": "neg", "b": b} if rng.random() < 0.5 else b
        v = micro(tok)
        if v == 0 and tok["c"] == "neg":
            continue                                       # "-0.0": sorts as 0, prints as -0.0 - not generated
        if v not in used:
            used.add(v)
            return tok
    raise core.MachineryError("could not draw a fresh tilt angle")


def gen_mdoc_case(rng, idx, nmax):
    n = rng.choice([1, 2, 3, rng.randint(1, nmax), rng.randint(1, nmax), nmax])
    ncol = rng.randint(1, 25)
    keys = rng.sample(KEYS, min(ncol, len(KEYS)))
    tpos = rng.randrange(len(keys) + 1)
    cols = keys[:tpos] + ["TiltAngle"] + keys[tpos:]
    hkeys = rng.sample(HKEYS, rng.randint(0, 8))
    doc = {"hdr": [[k, rand_raw(rng)] for k in hkeys],
           "titles": rng.sample(sorted(tm.TITLES), rng.randint(0, 3)), "secs": []}
    used = set()
    zs = list(range(n))
    if rng.random() < 0.3:
        rng.shuffle(zs)
    for k in range(n):
        kv = [[c, rand_tilt(rng, used) if c == "TiltAngle" else rand_raw(rng)] for c in cols]
        doc["secs"].append({"z": {"c": "dig", "n": zs[k], "pad": 0}, "kv": kv})
    # a random operation sequence that stays inside the quantifier (the specification re-checks Enabled); the
    # bookkeeping below only tracks which rows exist, their order, labels and flags - never any value
    obj = [{"tilt": micro(doc["secs"][k]["kv"][tpos][1]), "lab": k, "rm": False} for k in range(n)]
    disk = [dict(o) for o in obj]
    ops = [{"name": "reload"}]

    def reread(rows):
        return [{"tilt": r["tilt"], "lab": k, "rm": False} for k, r in enumerate(rows)]

    for _ in range(rng.randint(2, 8)):
        kind = rng.choice(["sort", "remove", "remove", "write", "write", "reload", "reset", "keep", "fn_remove", "fn_sort"])
        kept = [o for o in obj if not o["rm"]]
        if kind == "sort":
            ops.append({"name": "sort", "reset": rng.random() < 0.5})
            obj.sort(key=lambda o: o["tilt"])
        elif kind == "remove":
            kept_only = rng.random() < 0.6
            pool = kept if kept_only else obj
            if not pool:
                continue
            P = sorted(rng.sample(range(len(pool)), rng.randint(1, len(pool))))
            ops.append({"name": "remove", "idx": P, "kept_only": kept_only})
            for q in P:
                pool[q]["rm"] = True
        elif kind == "write":
            inc = rng.random() < 0.3
            if not inc and not kept:
                continue
            ops.append({"name": "write", "removed": inc})
            disk = [dict(o) for o in (obj if inc else kept)]
        elif kind == "reload":
            ops.append({"name": "reload"})
            obj = reread(disk)
        elif kind == "reset":
            ops.append({"name": "reset"})
            for o in obj:
                o["rm"] = False
        elif kind == "keep":
            labs = sorted(rng.sample([o["lab"] for o in obj], rng.randint(1, len(obj))))
            ops.append({"name": "keep", "labels": labs})
            for o in obj:
                if o["lab"] in labs:
                    o["rm"] = False
        elif kind == "fn_remove":
            if len(disk) < 2:
                continue
            base = rng.choice([0, 1])
            P = sorted(rng.sample(range(len(disk)), rng.randint(1, len(disk) - 1)))
            ops.append({"name": "fn_remove", "idx": [p + base for p in P], "base": base})
            obj = reread(disk)
            for q in P:
                obj[q]["rm"] = True
            disk = [dict(o) for o in obj if not o["rm"]]
        else:
            ops.append({"name": "fn_sort", "reset": rng.random() < 0.5})
            obj = reread(disk)
            obj.sort(key=lambda o: o["tilt"])
            disk = [dict(o) for o in obj]
    return {"kind": "mdoc-random", "id": idx, "doc": doc, "ops": ops, "variant": rng.randrange(144)}


def run_random_mdocs(ctx, cases, corrupt=None):
    traces, kept = [], []
    for case in cases:
        live = Live(ctx.sub("mdoc"), "r%d_%d" % (os.getpid(), ctx.traces))
        live.start(case["doc"], case["variant"])
        steps, failed = [], False
        for i, op in enumerate(case["ops"]):
            if corrupt == "swap_call" and op["name"] == "remove" and not traces:
                op = dict(op, kept_only=not op["kept_only"])       # binding demonstration: another call than logged
                _, err = core.call_guarded(live.apply, op, case["variant"] + i)
                op = case["ops"][i]
            else:
                _, err = core.call_guarded(live.apply, op, case["variant"] + i)
            if err is not None:
                ctx.fail("call_raises", "step %d %s: %s" % (i, op, err), case, {"op": "mdoc." + op["name"], "layer": "L3"})
                failed = True
                break
            post, disk = live.observe()
            steps.append({"op": op, "post": post, "disk": disk})
        ctx.ran(case)
        if failed or not steps:
            continue
        if corrupt == "field" and not traces:
            steps[-1]["post"]["imgs"][0]["rm"] = not steps[-1]["post"]["imgs"][0]["rm"]    # binding demonstration
        traces.append({"kind": "mdoc", "id": case["id"], "doc": case["doc"], "steps": steps})
        kept.append(case)
    validate(ctx, traces, kept, lambda case, v: {"op": "mdoc." + case["ops"][max(0, v["step"] - 1)]["name"], "layer": "L3"})


def validate(ctx, traces, kept, sig_of):
    if not traces:
        return
    wd = ctx.sub("trace")
    path = os.path.join(wd, "traces_%d.ndjson" % len(os.listdir(wd)))
    with open(path, "w") as fh:
        for t in traces:
            fh.write(json.dumps(t) + "\n")
    res = ctx.tlc("TiltMetaTrace", "SPECIFICATION TraceSpec\nCONSTRAINT Report\n", name="trace",
                  env={"TRACE_FILE": path}, workers=1)
    verdicts = {v["tid"]: v for v in res.tagged.get("VERDICT", [])}
    if len(verdicts) != len(traces):
        raise core.MachineryError("TiltMetaTrace returned %d verdicts for %d traces\n%s" % (
            len(verdicts), len(traces), res.stdout[-3000:]))
    for i, case in enumerate(kept):
        v = verdicts[i + 1]
        if v["ok"]:
            continue
        if v["clause"] == "TRACE_INCONSISTENT":
            raise core.MachineryError("driver generated an operation outside the specification's Enabled: %s" % json.dumps(case)[:600])
        ctx.fail(v["clause"], "recorded call rejected by TiltMetaTrace at step %d" % v["step"], case, sig_of(case, v))


def run_tables(ctx, cases, corrupt=None):
    raise core.MachineryError("loader / wedge layer not built yet")


# ---- main -----------------------------------------------------------------------------------------------------------
def run(ctx):
    ctx.rule = ("L2: every depth-2 history of the mdoc machine over the six small documents of MC_TiltMeta (seed-selected "
                "sub-sample) and simulated 6-step behaviours, replayed on one live Mdoc object + files; L3: random "
                "documents from the grammar (1..80 images) with random operation sequences and random loader / wedge-list "
                "inputs validated by TiltMetaTrace.  distinct = distinct (document, operation sequence, layout)")
    ctx.assumptions += [
        "floats are decimals with at most six fraction digits, 1e-3 <= |v| < 1e6, no exponent form (repr prints them "
        "as the normalised decimal); values whose repr uses an exponent are outside the generated class",
        "tilt angles of one document are pairwise different (sort_values is not stable) and never -0",
        "free text contains no '=' and is ASCII; titles neither start with '[' nor end with ']'",
        "index subsets are handed over as lists / arrays"]
    only = getattr(ctx, "only", None)

    def want(x):
        return not only or x in only

    if want("l1"):
        ctx.tlc("MC_TiltMeta", cfg(2, "none"), name="mdoc_small", workers=4)
        ctx.exhaustive["L1_mdoc_machine_depth2"] = True
    if want("l2"):
        res = ctx.tlc("MC_TiltMeta", cfg(2, "hist"), name="mdoc_hist", workers=1)
        hists = [r["hist"] for r in res.records if "hist" in r]
        seen, uniq = set(), []
        for h in hists:
            k = core.stable_hash(h)
            if k not in seen:
                seen.add(k)
                uniq.append(h)
        budget = ctx.pick(500, 20000)
        chosen = sorted(uniq, key=lambda h: core.stable_hash([ctx.seed, h]))[:budget]
        ctx.exhaustive["L2_mdoc_histories"] = len(chosen) == len(uniq)
        ctx.extra["histories_emitted"] = len(uniq)
        ctx.extra["histories_replayed"] = len(chosen)
        for i, h in enumerate(chosen):
            run_history(ctx, h, (ctx.seed * 7919 + i) % 144, "mdoc-history")
        nsim = ctx.pick(60, 1500)
        res = ctx.tlc("MC_TiltMeta", cfg(6, "hist"), name="mdoc_sim", simulate=nsim, depth=8, seed=ctx.seed + 1, workers=1)
        seen, nb = set(), 0
        for r in res.records:
            if "hist" not in r:
                continue
            k = core.stable_hash(r["hist"])
            if k in seen:
                continue
            seen.add(k)
            nb += 1
            if nb > ctx.pick(120, 3000):
                break
            run_history(ctx, r["hist"], (ctx.seed * 31 + nb) % 144, "mdoc-behaviour")
        ctx.extra["behaviours_replayed"] = nb
    if want("l3"):
        total = ctx.pick(60, 600)
        nmax = 80
        cases = [gen_mdoc_case(ctx.rng, i + 1, nmax) for i in range(total)]
        for b in range(0, total, 100):
            run_random_mdocs(ctx, cases[b:b + 100],
                             corrupt=(os.environ.get("VERIF_C17_CORRUPT") or None) if b == 0 else None)

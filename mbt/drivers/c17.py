"""C17 - tilt-series metadata: mdoc machine, loaders, wedge lists.

L1  TiltMeta.tla: the mdoc machine (read / sort / remove / keep / reset / write / reload and the module-level helpers)
    is model-checked on small documents that cover every token class; the clauses are action properties; the loader
    and wedge-list laws are ASSUMEs on a small scope.
L2  TLC emits every depth-2 history of the small scope and simulated longer behaviours; the driver renders the abstract
    document to mdoc text, steps one live Mdoc object (and the files) through the history and compares, after every
    step, the object (projected to values) and the written file (parsed by an own splitter) with what TLC computed.
L3  random documents from the grammar (1..80 images, up to 25 columns, negative / float / text values, titles) with
    random operation sequences, and random loader / wedge-list inputs (1..80 rows, 1..5 tomograms, file and array
    inputs), and call SEQUENCES on one set of files and caller-owned objects in one process (loaders with both flag
    values in varying order, then the builders; every earlier result is looked at again after the later calls):
    the driver records the calls, TiltMetaTrace.tla recomputes every step / table with the operators of TiltMeta.tla
    and names the failing clause.
"""
import contextlib
import io
import json
import os

import numpy as np

from .. import argguard, core, parsers, tiltmeta as tm

PROPS = ["C17_MdocRoundTrip", "C17_SortOnlyReorders", "C17_RemoveOnlyFlags", "C17_WriteOmitsExactlyRemoved"]
INVS = ["TypeOK", "C17_ValuesRoundTrip"]


def cfg(depth, mode, docs="MCDocs"):
    lines = ["SPECIFICATION Spec", "CONSTANTS", " Docs <- %s" % docs, " MaxDepth = %d" % depth, ' EmitMode = "%s"' % mode]
    lines += ["INVARIANT %s" % i for i in INVS]
    lines += ["PROPERTY %s" % p for p in PROPS]
    if mode == "hist":
        lines += ["CONSTRAINT EmitHist"]
    return "\n".join(lines) + "\n"


class Watch:
    """Registers the caller-owned objects (arrays, lists, DataFrames) handed to the library in one case; after the calls
    every one of them must be what it was (argguard)."""

    def __init__(self):
        self.guards = []

    def __call__(self, obj, name="argument"):
        self.guards.append(argguard.Guard(**{name: obj}))
        return obj

    def changed(self):
        for g in self.guards:
            why = g.changed()
            if why:
                return why
        return None


def as_path(p, on):
    import pathlib
    return pathlib.Path(p) if on else p


# ---- stepping a live Mdoc through a history -----------------------------------------------------------------------
class Live:
    """One live Mdoc object plus the file it was read from / last written to."""

    def __init__(self, workdir, tag):
        self.dir = workdir
        self.tag = tag
        self.n = 0
        self.m = None
        self.path = None
        self.shared = {}          # index arrays owned by the caller, re-used by every call that removes the same indices

    def newpath(self):
        self.n += 1
        return os.path.join(self.dir, "%s_%d.mdoc" % (self.tag, self.n))

    def start(self, doc, layout):
        self.path = self.newpath()
        with open(self.path, "w", newline="", encoding="utf-8") as fh:
            fh.write(tm.render_doc(doc, layout))
        tm.restyle(self.path, (layout // 7) % 4)               # CRLF line ends / trailing blank lines
        self.use_path = bool((layout // 5) % 2)                 # file names as pathlib.Path instead of str
        self.watch = Watch()

    def apply(self, op, variant):
        from cryocat import mdoc
        name = op["name"]
        with contextlib.redirect_stdout(io.StringIO()):
            up = getattr(self, "use_path", False)
            if name in ("read", "reload"):
                self.m = mdoc.Mdoc(as_path(self.path, up))
            elif name == "sort":
                self.m.sort_by_tilt(reset_z_value=op["reset"])
            elif name == "remove":
                idx = sorted(op["idx"], reverse=bool(variant & 1))
                if variant & 4:
                    idx = idx + idx[:1]                         # an index named twice is still one image
                if op.get("shared"):
                    self.m.remove_images(self.watch(self.shared_array(op["idx"]), "indices"), kept_only=op["kept_only"])
                else:
                    self.m.remove_images(self.watch(np.array(idx) if variant & 2 else idx, "indices"), kept_only=op["kept_only"])
            elif name == "keep":
                self.m.keep_images(sorted(op["labels"]))
            elif name == "reset":
                self.m.reset_images()
            elif name == "write":
                out = self.newpath()
                if os.path.exists(out) and not variant & 1:
                    os.remove(out)                              # shared file names: without overwrite the target must not exist
                self.m.write(as_path(out, up), overwrite=bool(variant & 1), removed=op["removed"])
                self.path = out
            elif name in ("fn_remove", "fn_remove_keep"):
                out = self.newpath() if name == "fn_remove" else None
                idx = sorted(op["idx"])
                arg = self.shared_array(op["idx"]) if op.get("shared") else (np.array(idx) if variant & 1 else idx)
                self.watch(arg, "idx_to_remove")
                self.m = mdoc.remove_images(as_path(self.path, up), arg, numbered_from_1=(op["base"] == 1), output_file=out)
                if out is not None:
                    self.path = out
            elif name == "fn_sort":
                out = self.newpath()
                self.m = mdoc.sort_mdoc_by_tilt_angles(as_path(self.path, up), reset_z_value=op["reset"], output_file=out)
                self.path = out
            else:
                raise core.MachineryError("unknown mdoc operation %r" % (op,))

    def shared_array(self, idx):
        """One ndarray object per set of index values: the caller keeps it and hands the very same object to every call
        (a callee that converts 1-based indices in place ruins the later calls)."""
        key = tuple(sorted(idx))
        if key not in self.shared:
            self.shared[key] = np.array(sorted(idx))
        return self.shared[key]

    def observe(self):
        with open(self.path, encoding="utf-8") as fh:
            disk = tm.parse_doc(fh.read())
        return tm.project_mdoc(self.m), disk


def norm_op(op):
    """Operation record as TLC printed it (sets are arrays) -> plain JSON."""
    o = dict(op)
    for k in ("idx", "labels"):
        if k in o:
            o[k] = sorted(o[k])
    return o


def first_diff(got, exp, path=""):
    if type(got) != type(exp):
        return "%s: %r != %r" % (path, got, exp)
    if isinstance(got, dict):
        for k in sorted(set(got) | set(exp)):
            if k not in got or k not in exp:
                return "%s.%s: only on one side (%r / %r)" % (path, k, got.get(k), exp.get(k))
            dd = first_diff(got[k], exp[k], path + "." + k)
            if dd:
                return dd
        return None
    if isinstance(got, list):
        if len(got) != len(exp):
            return "%s: length %d != %d" % (path, len(got), len(exp))
        for i, (a, b) in enumerate(zip(got, exp)):
            dd = first_diff(a, b, "%s[%d]" % (path, i))
            if dd:
                return dd
        return None
    return None if got == exp else "%s: %r != %r" % (path, got, exp)


CLAUSE_OF = {"sort": "C17_SortOnlyReorders", "remove": "C17_RemoveOnlyFlags", "write": "C17_MdocRoundTrip",
             "reload": "C17_MdocRoundTrip", "read": "C17_MdocRoundTrip", "fn_remove": "C17_RemoveOnlyFlags",
             "fn_sort": "C17_SortOnlyReorders", "keep": "C17_RemoveOnlyFlags", "reset": "C17_RemoveOnlyFlags",
             "fn_remove_keep": "C17_RemoveOnlyFlags"}


def run_history(ctx, hist, variant, kind):
    """hist: [{op, post, disk}] as TLC printed it (first entry = the initial read)."""
    steps = [{"op": norm_op(h["op"]), "post": h["post"], "disk": h["disk"]} for h in hist]
    case = {"kind": kind, "doc": hist[0]["disk"], "steps": steps, "variant": variant}
    live = Live(ctx.sub("mdoc"), "shared_h" if ctx.traces % 2 else "h%d_%d" % (os.getpid(), ctx.traces))
    live.start(hist[0]["disk"], variant)
    for i, st in enumerate(steps):
        op = st["op"]
        sig = {"op": "mdoc." + op["name"], "layer": "L2"}
        _, err = core.call_guarded(live.apply, op, variant + i)
        if err is not None:
            ctx.fail("call_raises", "step %d %s: %s" % (i, op, err), case, sig)
            break
        why = live.watch.changed()
        if why:
            ctx.fail("C17_ArgumentsUnchanged", "step %d %s changed its argument (%s)" % (i, op, why), case, sig)
            break
        got_m, got_d = live.observe()
        dm = first_diff(got_m, st["post"], "mdoc")
        dd = first_diff(got_d, st["disk"], "file")
        if dm or dd:
            clause = CLAUSE_OF[op["name"]]
            if dd and not dm and op["name"] in ("write", "fn_remove", "fn_sort"):
                clause = "C17_WriteOmitsExactlyRemoved" if len(got_d["secs"]) != len(st["disk"]["secs"]) else "C17_MdocRoundTrip"
            ctx.fail(clause, "step %d %s: %s" % (i, op, dm or dd), case, sig)
            break
    ctx.ran(case)


def replay(ctx, case):
    if case["kind"] in ("mdoc-history", "mdoc-behaviour"):
        hist = [{"op": s["op"], "post": s["post"], "disk": s["disk"]} for s in case["steps"]]
        run_history(ctx, hist, case.get("variant", 0), case["kind"])
    elif case["kind"] == "mdoc-random":
        run_random_mdocs(ctx, [case])
    elif case["kind"] in ("loader", "wedge"):
        run_tables(ctx, [case])
    elif case["kind"] == "session":
        run_sessions(ctx, [case])
    else:
        raise core.MachineryError("unknown case kind %r" % case.get("kind"))


# ---- L3: random documents from the grammar -------------------------------------------------------------------------
KEYS = ["MinMaxMean", "StagePosition", "StageZ", "Magnification", "Intensity", "ExposureDose", "DoseRate", "PixelSpacing",
        "SpotSize", "Defocus", "ImageShift", "RotationAngle", "ExposureTime", "Binning", "CameraIndex", "DividedBy2",
        "OperatingMode", "MagIndex", "LowDoseConSet", "CountsPerElectron", "TargetDefocus", "PriorRecordDose",
        "SubFramePath", "NumSubFrames", "FrameDosesAndNumber", "DateTime", "NavigatorLabel", "FilterSlitAndLoss",
        "UncroppedSize", "Key_with_underscore", "K"]
HKEYS = ["PixelSpacing", "Voltage", "Version", "ImageFile", "ImageSize", "DataMode", "Offset", "Pad", "Scale", "T2"]


def rand_dig(rng):
    n = rng.choice([0, 1, 7, 10, 300, 4096, 64000, rng.randrange(10 ** rng.randint(1, 9))])
    return {"c": "dig", "n": n, "pad": rng.choice([0, 0, 0, 1, 2])}


def rand_dec(rng):
    """Decimal with |v| in [1e-3, 1e6), at most six fraction digits, at most ~12 significant digits."""
    ip = rng.choice([0, 0, 1, 2, 17, 300, rng.randrange(10 ** rng.randint(1, 6))])
    nf = rng.randint(0, 6)
    fd = [rng.randrange(10) for _ in range(nf)]
    if ip == 0:
        if nf == 0:
            fd = [rng.randrange(1, 10)]
        if all(x == 0 for x in fd[:3]):
            fd[rng.randrange(min(3, len(fd)))] = rng.randrange(1, 10)       # not below 1e-3
    noip = ip == 0 and rng.random() < 0.2
    return {"c": "dec", "ip": ip, "fd": fd, "noip": noip}


def rand_raw(rng):
    r = rng.random()
    if r < 0.25:
        return rand_dig(rng)
    if r < 0.55:
        return rand_dec(rng)
    if r < 0.7:
        return {"c": "neg", "b": rand_dec(rng) if rng.random() < 0.7 else rand_dig(rng)}
    return {"c": "txt", "id": rng.choice(sorted(tm.TXT))}


def micro(tok):
    if tok["c"] == "neg":
        return -micro(tok["b"])
    if tok["c"] == "dig":
        return tok["n"] * 10 ** 6
    fd = tok["fd"] + [0] * (6 - len(tok["fd"]))
    return tok["ip"] * 10 ** 6 + int("".join(str(x) for x in fd) or "0")


def rand_tilt(rng, used):
    for _ in range(200):
        r = rng.random()
        mag = rng.choice([rng.randint(0, 70), rng.randint(0, 70), rng.randint(0, 180)])
        if r < 0.2:
            b = {"c": "dig", "n": mag, "pad": rng.choice([0, 0, 1])}
        else:
            nf = rng.randint(0, 4)
            b = {"c": "dec", "ip": mag, "fd": [rng.randrange(10) for _ in range(nf)], "noip": False}
        tok = {"c": "neg", "b": b} if rng.random() < 0.5 else b
        v = micro(tok)
        if v == 0 and tok["c"] == "neg":
            continue                                       # "-0.0": sorts as 0, prints as -0.0 - not generated
        if v not in used:
            used.add(v)
            return tok
    raise core.MachineryError("could not draw a fresh tilt angle")


def gen_mdoc_case(rng, idx, nmax, nforce=0):
    n = rng.choice([1, 2, 3, rng.randint(1, nmax), rng.randint(1, nmax), nmax])
    if nforce:
        n = nforce                                             # every image count 1..12 in every run
    ncol = rng.randint(1, 25)
    keys = rng.sample(KEYS, min(ncol, len(KEYS)))
    tpos = rng.randrange(len(keys) + 1)
    cols = keys[:tpos] + ["TiltAngle"] + keys[tpos:]
    hkeys = rng.sample(HKEYS, rng.randint(0, 8))
    doc = {"hdr": [[k, rand_raw(rng)] for k in hkeys],
           "titles": rng.sample(sorted(tm.TITLES), rng.randint(0, 3)), "secs": []}
    used = set()
    # section numbers: 0.., 1.., large consecutive, all zero (never assigned)
    zmode = rng.choice(["zero-based", "zero-based", "one-based", "large", "all-zero"])
    zs = {"zero-based": list(range(n)), "one-based": list(range(1, n + 1)), "large": list(range(100000, 100000 + n)),
          "all-zero": [0] * n}[zmode]
    if rng.random() < 0.3:
        rng.shuffle(zs)
    for k in range(n):
        kv = [[c, rand_tilt(rng, used) if c == "TiltAngle" else rand_raw(rng)] for c in cols]
        doc["secs"].append({"z": {"c": "dig", "n": zs[k], "pad": 0}, "kv": kv})
    # a random operation sequence that stays inside the quantifier (the specification re-checks Enabled); the
    # bookkeeping below only tracks which rows exist, their order, labels and flags - never any value
    obj = [{"tilt": micro(doc["secs"][k]["kv"][tpos][1]), "lab": k, "rm": False} for k in range(n)]
    disk = [dict(o) for o in obj]
    ops = [{"name": "reload"}]

    def reread(rows):
        return [{"tilt": r["tilt"], "lab": k, "rm": False} for k, r in enumerate(rows)]

    for _ in range(rng.randint(2, 8)):
        kind = rng.choice(["sort", "remove", "remove", "write", "write", "reload", "reset", "keep", "fn_remove", "fn_sort",
                           "burst", "burst"])
        kept = [o for o in obj if not o["rm"]]
        if kind == "burst":
            # two or three removing calls that are handed the SAME 1-based index array object: the module-level function
            # without / with output file (same mdoc again, then the shortened one) and the Mdoc method
            b = len(disk)
            size = rng.choice([1, 1, 2])
            if b <= 3 * size + 1:
                continue
            I = sorted(rng.sample(range(1, b - 2 * size), size))
            for step in rng.choice([["keep", "keep"], ["keep", "out"], ["out", "out"], ["keep", "out", "keep"],
                                    ["out", "keep", "method"], ["keep", "method"], ["keep", "keep", "out"]]):
                if step == "method":
                    ops.append({"name": "remove", "idx": I, "kept_only": True, "shared": True})
                    pool = [o for o in obj if not o["rm"]]
                    for q in I:
                        pool[q]["rm"] = True
                    continue
                ops.append({"name": "fn_remove" if step == "out" else "fn_remove_keep", "idx": I, "base": 1, "shared": True})
                obj = reread(disk)
                for q in I:
                    obj[q - 1]["rm"] = True
                if step == "out":
                    disk = [dict(o) for o in obj if not o["rm"]]
            continue
        if kind == "sort":
            ops.append({"name": "sort", "reset": rng.random() < 0.5})
            obj.sort(key=lambda o: o["tilt"])
        elif kind == "remove":
            kept_only = rng.random() < 0.6
            pool = kept if kept_only else obj
            if not pool:
                continue
            P = sorted(rng.sample(range(len(pool)), rng.randint(1, len(pool))))
            ops.append({"name": "remove", "idx": P, "kept_only": kept_only})
            for q in P:
                pool[q]["rm"] = True
        elif kind == "write":
            inc = rng.random() < 0.3
            if not inc and not kept:
                continue
            ops.append({"name": "write", "removed": inc})
            disk = [dict(o) for o in (obj if inc else kept)]
        elif kind == "reload":
            ops.append({"name": "reload"})
            obj = reread(disk)
        elif kind == "reset":
            ops.append({"name": "reset"})
            for o in obj:
                o["rm"] = False
        elif kind == "keep":
            labs = sorted(rng.sample([o["lab"] for o in obj], rng.randint(1, len(obj))))
            ops.append({"name": "keep", "labels": labs})
            for o in obj:
                if o["lab"] in labs:
                    o["rm"] = False
        elif kind == "fn_remove":
            if len(disk) < 2:
                continue
            base = rng.choice([0, 1])
            P = sorted(rng.sample(range(len(disk)), rng.randint(1, len(disk) - 1)))
            ops.append({"name": "fn_remove", "idx": [p + base for p in P], "base": base})
            obj = reread(disk)
            for q in P:
                obj[q]["rm"] = True
            disk = [dict(o) for o in obj if not o["rm"]]
        else:
            ops.append({"name": "fn_sort", "reset": rng.random() < 0.5})
            obj = reread(disk)
            obj.sort(key=lambda o: o["tilt"])
            disk = [dict(o) for o in obj]
    return {"kind": "mdoc-random", "id": idx, "doc": doc, "ops": ops, "variant": rng.randrange(144)}


def run_random_mdocs(ctx, cases, corrupt=None):
    traces, kept = [], []
    for case in cases:
        live = Live(ctx.sub("mdoc"), "shared_r" if ctx.traces % 2 else "r%d_%d" % (os.getpid(), ctx.traces))
        live.start(case["doc"], case["variant"])
        steps, failed = [], False
        for i, op in enumerate(case["ops"]):
            if corrupt == "swap_call" and op["name"] == "remove" and not traces:
                op = dict(op, kept_only=not op["kept_only"])       # binding demonstration: another call than logged
                _, err = core.call_guarded(live.apply, op, case["variant"] + i)
                op = case["ops"][i]
            else:
                _, err = core.call_guarded(live.apply, op, case["variant"] + i)
            if err is not None:
                ctx.fail("call_raises", "step %d %s: %s" % (i, op, err), case, {"op": "mdoc." + op["name"], "layer": "L3"})
                failed = True
                break
            why = live.watch.changed()
            if why:
                ctx.fail("C17_ArgumentsUnchanged", "step %d %s changed its argument (%s)" % (i, op, why), case,
                         {"op": "mdoc." + op["name"], "layer": "L3"})
                failed = True
                break
            post, disk = live.observe()
            steps.append({"op": op, "post": post, "disk": disk})
        ctx.ran(case)
        if failed or not steps:
            continue
        if corrupt == "field" and not traces:
            steps[-1]["post"]["imgs"][0]["rm"] = not steps[-1]["post"]["imgs"][0]["rm"]    # binding demonstration
        traces.append({"kind": "mdoc", "id": case["id"], "doc": case["doc"], "steps": steps})
        kept.append(case)
    validate(ctx, traces, kept, lambda case, v: {"op": "mdoc." + case["ops"][max(0, v["step"] - 1)]["name"], "layer": "L3"})


def validate(ctx, traces, kept, sig_of):
    if not traces:
        return
    wd = ctx.sub("trace")
    path = os.path.join(wd, "traces_%d.ndjson" % len(os.listdir(wd)))
    with open(path, "w") as fh:
        for t in traces:
            fh.write(json.dumps(t) + "\n")
    res = ctx.tlc("TiltMetaTrace", "SPECIFICATION TraceSpec\nCONSTRAINT Report\n", name="trace",
                  env={"TRACE_FILE": path}, workers=1)
    verdicts = {v["tid"]: v for v in res.tagged.get("VERDICT", [])}
    if len(verdicts) != len(traces):
        raise core.MachineryError("TiltMetaTrace returned %d verdicts for %d traces\n%s" % (
            len(verdicts), len(traces), res.stdout[-3000:]))
    for i, case in enumerate(kept):
        v = verdicts[i + 1]
        if v["ok"]:
            continue
        if v["clause"] == "TRACE_INCONSISTENT":
            raise core.MachineryError("driver generated an operation outside the specification's Enabled: %s" % json.dumps(case)[:600])
        ctx.fail(v["clause"], "recorded call rejected by TiltMetaTrace at step %d" % v["step"], case, sig_of(case, v))


# ---- L3: loaders and wedge lists -----------------------------------------------------------------------------------
# scales: tilt x100, dose x100, defocus Angstrom x10 (= micrometre x1e5), astigmatism angle x100, phase shift x1000,
#         pixel size x1000, z-shift x10, voltage x10, amplitude contrast x1000, cs x100
def gen_tilts(rng, n, repeats=True):
    """Ascending tilt angles (x100).  With repeats a tilt may be recorded twice (step 0: e.g. 0 degrees taken again at the
    end of a dose-symmetric series) - a loader returns ALL the numbers of its file, one wedge-list row per image.  Without
    repeats (mdoc sorted by tilt: sort_values is not stable) the angles are pairwise different."""
    lo = rng.randint(-7000, 0)
    out, v = [], lo
    rep = repeats and rng.random() < 0.5
    for _ in range(n):
        out.append(v)
        v += rng.choice([100, 200, 300, 150, 201, 17, 5, 1] + ([0, 0] if rep else []))
    return out


def gen_ctf(rng, n, phase):
    rows = [{"u": rng.randint(5000, 80000) * 10 + rng.randrange(10), "v": rng.randint(5000, 80000) * 10 + rng.randrange(10),
             "ang": rng.randint(-9000, 9000), "ps": (rng.randint(0, 3141) if phase else 0)} for _ in range(n)]
    if n > 1 and rng.random() < 0.4:
        for _ in range(1 + n // 8):                            # repeated defocus rows (two images fitted alike)
            a, b = rng.randrange(n), rng.randrange(n)
            rows[a] = dict(rows[b])
    return rows


def gen_consts(rng):
    """Pass-through scalars: exact zeros, the documented defaults and arbitrary values (zeros and values equal to a
    default are what truthiness / `or` fallbacks get wrong).  Pixel size 0 is meaningless and not drawn."""
    return {"px": rng.choice([1000, 1327, 2400, rng.randint(500, 20000)]),
            "voltage": rng.choice([3000, 3000, 0, 2000, 1200, rng.randint(1, 4000)]),
            "amp": rng.choice([70, 70, 0, 100, 85, rng.randint(1, 999)]),
            "cs": rng.choice([270, 270, 0, 0, 200, 1, rng.randint(1, 500)])}


def gen_zshift(rng):
    return rng.choice([0, 0, rng.randint(-2000, 2000), rng.randint(-2000, 2000), -rng.randint(1, 50)])


def gen_dose(rng):
    return rng.choice([0, 0, rng.randint(0, 30000), rng.randint(0, 30000), rng.randint(0, 30000)])


def gen_tomo_ids(rng, nt, k=None):
    """Tomogram numbers: arbitrary three-digit numbers, a list containing 0, large consecutive numbers, numbers equal to
    the length of the list (identifier values are data: 0 is a number like any other, 100001 and 100002 differ)."""
    kind = (k if k is not None else rng.randrange(8)) % 4
    if kind == 1:
        ids = [0] + rng.sample(range(1, 999), nt - 1)
    elif kind == 2:
        start = rng.choice([100000, 100001, 999990])
        ids = list(range(start, start + nt))
    elif kind == 3:
        ids = list(dict.fromkeys([nt] + rng.sample(range(1, 999), nt - 1)))
    else:
        ids = rng.sample(range(1, 999), nt)
    rng.shuffle(ids)
    return ids


def reorder_tilts(case, rng, k):
    """Single-tomogram builder with a tilt ARRAY: arrays are taken as they are, so every order is a valid input
    (ascending, descending, dose-symmetric acquisition order, random); the list then goes on to wedge_list_sg_to_em."""
    if case.get("what") != "single" or case.get("tlt_input") != "array":
        return case
    t = case["tomos"][0]
    n = len(t["tilts"])
    asc = sorted(t["tilts"])
    mode = ["asc", "desc", "dose-symmetric", "random"][k % 4]
    if mode == "desc":
        order = asc[::-1]
    elif mode == "dose-symmetric":
        mid = n // 2
        order = [asc[mid]]
        for d in range(1, n):
            for j in (mid + d, mid - d):
                if 0 <= j < n:
                    order.append(asc[j])
    elif mode == "random":
        order = list(asc)
        rng.shuffle(order)
    else:
        order = asc
    t["tilts"] = order
    t["asis"] = True
    case["order"] = mode
    case["to_em"] = True
    return case


def gen_table_case(rng, idx):
    case = gen_table_case0(rng, idx)
    case.setdefault("style", rng.randrange(16))
    return reorder_tilts(case, rng, idx)


def gen_table_case0(rng, idx):
    r = rng.random()
    n = rng.choice([1, 2, rng.randint(1, 80), rng.randint(1, 80), 80])
    if r < 0.12:
        inp = rng.choice(["file", "file", "array", "list", "mdoc", "mdoc"])
        vals = gen_tilts(rng, n)
        if inp == "mdoc":
            rng.shuffle(vals)                                 # an mdoc lists the images in acquisition order
        return {"kind": "loader", "id": idx, "what": "tlt", "vals": vals, "sort": rng.random() < 0.7 or inp != "mdoc",
                "input": inp}
    if r < 0.22:
        return {"kind": "loader", "id": idx, "what": "dose", "vals": [gen_dose(rng) for _ in range(n)],
                "input": rng.choice(["file", "file", "array", "list"])}
    if r < 0.32:
        tl = gen_tilts(rng, n, repeats=False)
        rng.shuffle(tl)                                       # acquisition order, not tilt order
        return {"kind": "loader", "id": idx, "what": "mdocdose", "sort": rng.random() < 0.7,
                "imgs": [{"tilt": t, "prior": rng.choice([0, rng.randint(0, 20000), rng.randint(0, 20000)]), "expo": rng.choice([0, rng.randint(1, 500), rng.randint(1, 500), rng.randint(1, 500)])} for t in tl]}
    if r < 0.5:
        fmt = rng.choice(["gctf", "gctf_nophase", "ctffind4", "array", "frame"])
        return {"kind": "loader", "id": idx, "what": "defocus", "fmt": fmt, "via": rng.choice(["read", "defocus_load"]),
                "rows": gen_ctf(rng, n, fmt != "gctf_nophase")}
    # wedge lists
    nt = rng.randint(1, 5)
    ids = gen_tomo_ids(rng, nt)
    mode = rng.choice(["single", "batch", "batch", "em", "sg2em"])
    if mode == "single":
        ids, nt = ids[:1], 1
    tomo_input = rng.choice(["array", "file"])
    if tomo_input == "file" or mode == "sg2em":
        ids.sort()                                            # a tomogram list file is loaded sorted
    with_ctf = rng.choice(["none", "gctf", "gctf_nophase", "ctffind4", "array"])
    with_dose = rng.choice(["none", "file", "array" if mode == "single" else "file"])
    same_dims = rng.random() < 0.25
    dim0 = [rng.randint(100, 5000), rng.randint(100, 5000), rng.randint(50, 3000)]
    zs0 = gen_zshift(rng)
    same_z = rng.random() < 0.3
    tomos = []
    for t in ids:
        k = rng.choice([1, 2, rng.randint(1, 80), rng.randint(1, 41)])
        tomos.append({"id": t, "tilts": gen_tilts(rng, k),
                      "ctf": gen_ctf(rng, k, with_ctf != "gctf_nophase") if with_ctf != "none" else [],
                      "dose": [gen_dose(rng) for _ in range(k)] if with_dose != "none" else [],
                      "dim": list(dim0) if same_dims else [rng.randint(100, 5000), rng.randint(100, 5000), rng.randint(50, 3000)],
                      "zshift": zs0 if same_z else gen_zshift(rng)})
    consts = gen_consts(rng)
    return {"kind": "wedge", "id": idx, "what": mode, "tomos": tomos, "consts": consts, "tomo_input": tomo_input,
            "ctf": with_ctf, "dose": with_dose, "tlt_input": rng.choice(["file", "array"]) if mode == "single" else "file",
            "dims_input": rng.choice(["same"] if same_dims else ["table", "table_file", "per_tomo_files"]),
            "z_input": rng.choice(["scalar"] if same_z else ["table", "table_file", "frame", "per_tomo_files"]),
            "shuffle": rng.randrange(1000), "variant": rng.randrange(8), "style": rng.randrange(16)}


def sweep_cases(rng, first_id, nhi):
    """Every number of tilts 1..nhi for every input form of every loader and of the single-tomogram builder (shape
    dependent behaviour hides at particular small N, e.g. N equal to the number of columns)."""
    out = []
    idx = first_id
    for n in range(1, nhi + 1):
        for fmt in ("gctf", "gctf_nophase", "ctffind4", "array", "frame"):
            out.append({"kind": "loader", "id": idx, "what": "defocus", "fmt": fmt, "via": ["read", "defocus_load"][(n + len(fmt)) % 2],
                        "rows": gen_ctf(rng, n, fmt != "gctf_nophase")})
            idx += 1
        for inp in ("file", "array", "list", "mdoc"):
            vals = gen_tilts(rng, n)
            if inp == "mdoc":
                rng.shuffle(vals)
            out.append({"kind": "loader", "id": idx, "what": "tlt", "vals": vals, "sort": True, "input": inp})
            idx += 1
        for inp in ("file", "array", "list"):
            out.append({"kind": "loader", "id": idx, "what": "dose", "vals": [gen_dose(rng) for _ in range(n)], "input": inp})
            idx += 1
        for ctf in ("array", "gctf", "ctffind4"):
            tomo = {"id": [0, 100000 + n, n, rng.randint(1, 998)][n % 4], "tilts": gen_tilts(rng, n), "ctf": gen_ctf(rng, n, True),
                    "dose": [gen_dose(rng) for _ in range(n)], "dim": [rng.randint(100, 5000), rng.randint(100, 5000), rng.randint(50, 3000)],
                    "zshift": gen_zshift(rng)}
            out.append({"kind": "wedge", "id": idx, "what": "single", "tomos": [tomo], "consts": gen_consts(rng), "tomo_input": "array",
                        "ctf": ctf, "dose": ["file", "array"][n % 2], "tlt_input": ["file", "array"][(n // 2) % 2],
                        "dims_input": "same", "z_input": "scalar", "shuffle": 0, "variant": n % 6})
            idx += 1
    # every combination of the accepted forms of the per-tomogram inputs of the batch builder (sampling the forms
    # leaves some of them out of a short run)
    k = 0
    for dims_input in ("same", "table", "table_file", "per_tomo_files"):
        for z_input in ("scalar", "table", "table_file", "frame", "per_tomo_files"):
            nt = 2 + k % 3
            ids = gen_tomo_ids(rng, nt, k)
            tomo_input = ["array", "file"][k % 2]
            mode = ["batch", "batch", "sg2em"][k % 3]
            if tomo_input == "file" or mode == "sg2em":
                ids.sort()
            ctf = ["none", "gctf", "ctffind4", "gctf_nophase"][k % 4]
            dose = ["none", "file"][(k // 2) % 2]
            dim0 = [rng.randint(100, 5000), rng.randint(100, 5000), rng.randint(50, 3000)]
            zs0 = gen_zshift(rng)
            tomos = []
            for t in ids:
                n = rng.randint(1, 9)
                tomos.append({"id": t, "tilts": gen_tilts(rng, n), "ctf": gen_ctf(rng, n, ctf != "gctf_nophase") if ctf != "none" else [],
                              "dose": [gen_dose(rng) for _ in range(n)] if dose != "none" else [],
                              "dim": list(dim0) if dims_input == "same" else [rng.randint(100, 5000), rng.randint(100, 5000), rng.randint(50, 3000)],
                              "zshift": zs0 if z_input == "scalar" else gen_zshift(rng)})
            out.append({"kind": "wedge", "id": idx, "what": mode, "tomos": tomos, "consts": gen_consts(rng), "tomo_input": tomo_input,
                        "ctf": ctf, "dose": dose, "tlt_input": "file", "dims_input": dims_input, "z_input": z_input,
                        "shuffle": rng.randrange(1000), "variant": k})
            idx += 1
            k += 1
    for k2, c in enumerate(out):
        c["style"] = k2 % 16                                   # line ends / trailing blanks / Path / float32 rotate
        reorder_tilts(c, rng, k2 // 3)
    for tomo_input in ("array", "file"):
        ids = sorted(rng.sample(range(1, 999), 3))
        out.append({"kind": "wedge", "id": idx, "what": "em", "tomo_input": tomo_input, "consts": gen_consts(rng), "ctf": "none",
                    "dose": "none", "tlt_input": "file", "dims_input": "same", "z_input": "scalar", "shuffle": 0, "variant": 0,
                    "tomos": [{"id": t, "tilts": gen_tilts(rng, rng.randint(1, 9)), "ctf": [], "dose": [], "dim": [100, 100, 50],
                               "zshift": 0} for t in ids]})
        idx += 1
    return out


GCTF_NAMES = ["unpadded", "padded", "reversed", "random", "absent"]


def gctf_style(case, salt=0):
    """(names style, optional-column bits) of the gctf files of a case - derived from its id so that replays agree."""
    k = int(case.get("id", 0)) + salt
    return GCTF_NAMES[k % len(GCTF_NAMES)], (k // 5) % 8


def mdoc_text(imgs, with_dose=True):
    lines = ["PixelSpacing = 1.971\n", "Voltage = 300\n", "\n", "[T = SerialEM: generated]\n", "\n"]
    for k, im in enumerate(imgs):
        lines.append("[ZValue = %d]\n" % k)
        lines.append("TiltAngle = %s\n" % tm.dec(im["tilt"], 100, 2))
        if with_dose:
            lines.append("ExposureDose = %s\n" % tm.dec(im["expo"], 100, 2))
            lines.append("PriorRecordDose = %s\n" % tm.dec(im["prior"], 100, 2))
        lines.append("SubFramePath = f_%03d.mrc\n\n" % k)
    return "".join(lines)


def ints(vals, scale):
    out = []
    for v in np.asarray(vals, dtype=object).ravel():
        r = tm.sround(v, scale)
        out.append(-99999999 if r is None else r)
    return out


def wedge_rows_of_frame(df):
    """Returned / re-read STOPGAP wedge list -> rows of scaled integers (missing column: -1)."""
    rows = []
    for _, r in df.iterrows():
        def g(name, scale):
            if name not in df.columns:
                return -1
            v = tm.sround(r[name], scale)
            if v is None:
                # an unset (all-NaN) defocus / exposure column is the same as an absent one
                return -1 if name in ("defocus", "exposure") and df[name].isna().all() else -99999999
            return v
        rows.append({"tomo": g("tomo_num", 1), "px": g("pixelsize", 1000),
                     "dim": [g("tomo_x", 1), g("tomo_y", 1), g("tomo_z", 1)], "zshift": g("z_shift", 10),
                     "tilt": g("tilt_angle", 100), "mean2": g("defocus", 200000), "dose": g("exposure", 100),
                     "voltage": g("voltage", 10), "amp": g("amp_contrast", 1000), "cs": g("cs", 100)})
    return rows


def frame_of_star(path):
    import pandas as pd
    labels, rows = tm.read_star_table(path)
    return pd.DataFrame([[float(c) for c in r] for r in rows], columns=labels)


def em_rows(path):
    em = parsers.read_em(path)
    d = em["data"]
    if em["nx"] != 3 or em["nz"] != 1 or len(d) != 3 * em["ny"]:
        return [{"tomo": -1, "lo": em["nx"], "hi": em["ny"]}]
    return [{"tomo": tm.sround(d[3 * k], 1), "lo": tm.sround(d[3 * k + 1], 100), "hi": tm.sround(d[3 * k + 2], 100)}
            for k in range(em["ny"])]


def exec_table_case(case, wd):
    """Performs the calls of one loader / wedge case.  Returns [(what, got)] observations (one trace each)."""
    import pandas as pd
    from cryocat import ioutils, wedgeutils
    os.makedirs(wd, exist_ok=True)
    what = case["what"]
    out = []
    W = Watch()
    style = case.get("style", 0)        # bit 0 CRLF, bit 1 trailing blank lines, bit 2 pathlib.Path where a path is documented
    # as accepted (STAR / ctffind4 readers, output files), bit 3 single-precision arrays
    up = bool(style & 4)
    fdt = np.float32 if style & 8 else float

    def styled(path):
        tm.restyle(path, style)
        return path
    with contextlib.redirect_stdout(io.StringIO()):
        if case["kind"] == "loader":
            if what == "tlt":
                vals = case["vals"]
                if case["input"] == "file":
                    path = os.path.join(wd, "a.tlt")
                    tm.write_values(path, vals, 100, 2, pad="  ")
                    got = ioutils.tlt_load(styled(path), sort_angles=case["sort"])
                elif case["input"] == "mdoc":
                    path = os.path.join(wd, "a.mdoc")
                    with open(path, "w") as fh:
                        fh.write(mdoc_text([{"tilt": v} for v in vals], with_dose=False))
                    got = ioutils.tlt_load(styled(path), sort_angles=case["sort"])
                elif case["input"] == "array":
                    got = ioutils.tlt_load(W((np.array(vals, dtype=float) / 100.0).astype(fdt), "input_tlt"), sort_angles=case["sort"])
                else:
                    got = ioutils.tlt_load(W([v / 100.0 for v in vals], "input_tlt"), sort_angles=case["sort"])
                out.append(("tlt", ints(got, 100)))
            elif what == "dose":
                vals = case["vals"]
                if case["input"] == "file":
                    path = os.path.join(wd, "dose.txt")
                    tm.write_values(path, vals, 100, 2)
                    got = ioutils.total_dose_load(styled(path))
                elif case["input"] == "array":
                    got = ioutils.total_dose_load(W((np.array(vals, dtype=float) / 100.0).astype(fdt), "input_dose"))
                else:
                    got = ioutils.total_dose_load(W([v / 100.0 for v in vals], "input_dose"))
                out.append(("dose", ints(got, 100)))
            elif what == "mdocdose":
                path = os.path.join(wd, "d.mdoc")
                with open(path, "w") as fh:
                    fh.write(mdoc_text(case["imgs"]))
                got = ioutils.total_dose_load(styled(path), sort_mdoc=case["sort"])
                out.append(("mdocdose", ints(got, 100)))
            else:
                rows = case["rows"]
                if case["fmt"] in ("array", "frame"):
                    arr = np.array([[r["u"] / 1e5, r["v"] / 1e5, r["ang"] / 100.0, r["ps"] / 1000.0,
                                     (r["u"] / 1e5 + r["v"] / 1e5) / 2.0] for r in rows])
                    if case["fmt"] == "frame":
                        from .. import motlutil
                        arr = motlutil.vary_index(pd.DataFrame(arr, columns=["defocus1", "defocus2", "astigmatism",
                                                                             "phase_shift", "defocus_mean"]), case["id"])
                    df = ioutils.defocus_load(W(arr, "input_data"))
                elif case["fmt"] == "ctffind4":
                    path = os.path.join(wd, "ctf.txt")
                    tm.write_ctffind4(path, rows)
                    styled(path)
                    df = ioutils.ctffind4_read(as_path(path, up)) if case["via"] == "read" else ioutils.defocus_load(path, "ctffind4")
                else:
                    path = os.path.join(wd, "ctf.star")
                    tm.write_gctf(path, rows, case["fmt"] == "gctf", *gctf_style(case))
                    styled(path)
                    df = ioutils.gctf_read(as_path(path, up)) if case["via"] == "read" else ioutils.defocus_load(path, "gctf")
                got = [{"d1": tm.sround(r["defocus1"], 1e5), "d2": tm.sround(r["defocus2"], 1e5),
                        "mean2": tm.sround(r["defocus_mean"], 2e5), "ast": tm.sround(r["astigmatism"], 100),
                        "ps": tm.sround(r["phase_shift"], 1000)} for _, r in df.iterrows()]
                out.append(("defocus", got))
            why = W.changed()
            if why:
                out.append(("ARG", why))
            return out
        # ---- wedge lists
        tomos, C = case["tomos"], case["consts"]
        # tomogram numbers of any size: 0, the usual three digits, large consecutive numbers (six-digit file patterns)
        w3 = 3 if max(t["id"] for t in tomos) < 1000 else 6
        F3, F4, X3, X4 = "%%0%dd" % w3, "%%0%dd" % (w3 + 1), "$" + "x" * w3, "$" + "x" * (w3 + 1)
        px, volt, amp, cs = C["px"] / 1000.0, C["voltage"] / 10.0, C["amp"] / 1000.0, C["cs"] / 100.0
        sh = __import__("random").Random(case["shuffle"])
        for t in tomos:
            tm.write_values(os.path.join(wd, (F3 + ".tlt") % t["id"]), t["tilts"], 100, 2, pad=" ")
            if t["dose"]:
                tm.write_values(os.path.join(wd, (F4 + "_dose.txt") % t["id"]), t["dose"], 100, 2)
            if t["ctf"]:
                if case["ctf"] == "ctffind4":
                    tm.write_ctffind4(os.path.join(wd, (F3 + "_ctf.txt") % t["id"]), t["ctf"])
                else:
                    tm.write_gctf(os.path.join(wd, (F3 + "_ctf.star") % t["id"]), t["ctf"], case["ctf"] != "gctf_nophase", *gctf_style(case, t["id"]))
            with open(os.path.join(wd, (F3 + "_dim.txt") % t["id"]), "w") as fh:
                fh.write("%d %d %d\n" % tuple(t["dim"]))
            with open(os.path.join(wd, (F3 + "_zshift.txt") % t["id"]), "w") as fh:
                fh.write("%s\n" % tm.dec(t["zshift"], 10, 1))
            for fn in (F3 + ".tlt", F4 + "_dose.txt", F3 + "_ctf.txt", F3 + "_ctf.star", F3 + "_dim.txt", F3 + "_zshift.txt"):
                if os.path.exists(os.path.join(wd, fn % t["id"])):
                    styled(os.path.join(wd, fn % t["id"]))
        ids = [t["id"] for t in tomos]
        if case["tomo_input"] == "file":
            tomo_list = os.path.join(wd, "tomo_list.txt")
            with open(tomo_list, "w") as fh:
                for i in ids:
                    fh.write((F3 + "\n") % i)
            styled(tomo_list)
        else:
            tomo_list = W(np.array(ids), "tomo_list")
        tlt_fmt = os.path.join(wd, X3 + ".tlt")
        if what == "single":
            t = tomos[0]
            tlt = os.path.join(wd, (F3 + ".tlt") % t["id"]) if case["tlt_input"] == "file" else W((np.array(t["tilts"], dtype=float) / 100.0).astype(fdt), "tlt_file")
            ctf_file, ctf_type = None, "gctf"
            if t["ctf"]:
                if case["ctf"] == "ctffind4":
                    ctf_file, ctf_type = os.path.join(wd, (F3 + "_ctf.txt") % t["id"]), "ctffind4"
                elif case["ctf"] == "array":
                    ctf_file = W(np.array([[r["u"] / 1e5, r["v"] / 1e5, r["ang"] / 100.0, r["ps"] / 1000.0,
                                            (r["u"] / 1e5 + r["v"] / 1e5) / 2.0] for r in t["ctf"]]), "ctf_file")
                else:
                    ctf_file = os.path.join(wd, (F3 + "_ctf.star") % t["id"])
            dose = None
            if t["dose"]:
                dose = os.path.join(wd, (F4 + "_dose.txt") % t["id"]) if case["dose"] == "file" else W((np.array(t["dose"], dtype=float) / 100.0).astype(fdt), "dose_file")
            dim = [W(list(t["dim"]), "tomo_dim"), W(np.array(t["dim"], dtype=[float, int][case["variant"] % 2]), "tomo_dim"),
                   os.path.join(wd, (F3 + "_dim.txt") % t["id"])][case["variant"] % 3]
            zsh = [t["zshift"] / 10.0, os.path.join(wd, (F3 + "_zshift.txt") % t["id"])][(case["variant"] // 3) % 2]
            if case.get("order") and case["tlt_input"] == "array":
                pass                                            # (the case's tilts are already in the requested order)
            star = os.path.join(wd, "single.star")
            # drop_nan_columns=False keeps the unset defocus / exposure columns (all NaN): the same table
            df = wedgeutils.create_wedge_list_sg(t["id"], dim, px, tlt, z_shift=zsh, ctf_file=ctf_file, ctf_file_type=ctf_type,
                                                 dose_file=dose, voltage=volt, amp_contrast=amp, cs=cs,
                                                 output_file=as_path(star, up), drop_nan_columns=not (case["variant"] & 4))
            out.append(("sg", wedge_rows_of_frame(df)))
            out.append(("sg", wedge_rows_of_frame(frame_of_star(star))))
            if case.get("to_em"):
                # the whole chain: STOPGAP list (tilts in the array's own order) -> EM list, returned table and written file
                emf = os.path.join(wd, "single_from_sg.em")
                em = wedgeutils.wedge_list_sg_to_em(star, emf, write_out=True)
                out.append(("sg2em", [{"tomo": tm.sround(r["tomo_id"], 1), "lo": tm.sround(r["min_tilt_angle"], 100),
                                       "hi": tm.sround(r["max_tilt_angle"], 100)} for _, r in em.iterrows()]))
                out.append(("sg2em", em_rows(emf)))
            why = W.changed()
            if why:
                out.append(("ARG", why))
            return out
        if what == "em":
            emf = os.path.join(wd, "wedge.em")
            df = wedgeutils.create_wedge_list_em_batch(tomo_list, tlt_fmt, output_file=emf)
            out.append(("em", [{"tomo": tm.sround(r["tomo_num"], 1), "lo": tm.sround(r["min_angle"], 100),
                                "hi": tm.sround(r["max_angle"], 100)} for _, r in df.iterrows()]))
            out.append(("em", em_rows(emf)))
            why = W.changed()
            if why:
                out.append(("ARG", why))
            return out
        # batch (also the first half of sg2em)
        kw = {}
        if case["ctf"] == "ctffind4":
            kw.update(ctf_file_format=os.path.join(wd, X3 + "_ctf.txt"), ctf_file_type="ctffind4")
        elif case["ctf"] in ("gctf", "gctf_nophase", "array"):
            kw.update(ctf_file_format=os.path.join(wd, X3 + "_ctf.star"), ctf_file_type="gctf")
        if case["dose"] != "none":
            kw.update(dose_file_format=os.path.join(wd, X4 + "_dose.txt"))
        order = list(range(len(tomos)))
        sh.shuffle(order)                                       # tables are keyed by tomogram id, not by row position
        if case["dims_input"] == "same":
            kw.update(tomo_dim=W([list(tomos[0]["dim"]), np.array(tomos[0]["dim"], dtype=float)][case["variant"] % 2], "tomo_dim"))
        elif case["dims_input"] == "table":
            kw.update(tomo_dim=W(np.array([[tomos[k]["id"]] + tomos[k]["dim"] for k in order], dtype=float), "tomo_dim"))
        elif case["dims_input"] == "table_file":
            path = os.path.join(wd, "dims.txt")
            with open(path, "w") as fh:
                for k in order:
                    fh.write("%d %d %d %d\n" % tuple([tomos[k]["id"]] + tomos[k]["dim"]))
            kw.update(tomo_dim=styled(path))
        else:
            kw.update(tomo_dim_file_format=os.path.join(wd, X3 + "_dim.txt"))
        sh.shuffle(order)
        if case["z_input"] == "scalar":
            kw.update(z_shift=tomos[0]["zshift"] / 10.0)
        elif case["z_input"] == "table":
            kw.update(z_shift=W(np.array([[tomos[k]["id"], tomos[k]["zshift"] / 10.0] for k in order]), "z_shift"))
        elif case["z_input"] == "frame":
            from .. import motlutil
            zf = motlutil.vary_index(pd.DataFrame([[tomos[k]["id"], tomos[k]["zshift"] / 10.0] for k in order]), case["variant"])
            if case["variant"] & 1:
                zf.columns = ["tomo_id", "z_shift"]
                W(zf, "z_shift")
            # (a frame with default column labels 0, 1 gets them renamed in place by z_shift_load on the pinned tree -
            #  reported to the lead, not watched here)
            kw.update(z_shift=zf)
        elif case["z_input"] == "table_file":
            path = os.path.join(wd, "zshifts.txt")
            with open(path, "w") as fh:
                for k in order:
                    fh.write("%d %s\n" % (tomos[k]["id"], tm.dec(tomos[k]["zshift"], 10, 1)))
            kw.update(z_shift=styled(path))
        else:
            kw.update(z_shift_file_format=os.path.join(wd, X3 + "_zshift.txt"))
        star = os.path.join(wd, "batch.star")
        df = wedgeutils.create_wedge_list_sg_batch(tomo_list, px, tlt_fmt, voltage=volt, amp_contrast=amp, cs=cs,
                                                   output_file=star, **kw)
        why = W.changed()
        if why:
            out.append(("ARG", why))
        if what == "batch":
            out.append(("sg", wedge_rows_of_frame(df)))
            out.append(("sg", wedge_rows_of_frame(frame_of_star(star))))
            return out
        emf = os.path.join(wd, "from_sg.em")
        em = wedgeutils.wedge_list_sg_to_em(star, emf, write_out=True)
        out.append(("sg2em", [{"tomo": tm.sround(r["tomo_id"], 1), "lo": tm.sround(r["min_tilt_angle"], 100),
                               "hi": tm.sround(r["max_tilt_angle"], 100)} for _, r in em.iterrows()]))
        out.append(("sg2em", em_rows(emf)))
        return out


# ---- L3: call sequences on one set of files / argument objects in one process -----------------------------------------
SESSION_CALLS = ["tlt_mdoc", "tlt_mdoc", "dose_mdoc", "dose_mdoc", "tlt_file", "tlt_array", "dose_file", "dose_array",
                 "defocus_file", "defocus_frame", "wedge_mdoc", "wedge_files", "wedge_objects"]


def gen_session_case(rng, idx):
    n = rng.choice([2, 3, rng.randint(2, 41), rng.randint(2, 80)])
    tl = gen_tilts(rng, n, repeats=False)
    acq = list(tl)
    rng.shuffle(acq)                                          # acquisition order of the mdoc
    imgs = [{"tilt": t, "prior": rng.choice([0, rng.randint(0, 20000), rng.randint(0, 20000)]), "expo": rng.choice([0, rng.randint(1, 500), rng.randint(1, 500), rng.randint(1, 500)])} for t in acq]
    fmt = rng.choice(["gctf", "gctf_nophase", "ctffind4"])
    calls = []
    for _ in range(rng.randint(3, 9)):
        f = rng.choice(SESSION_CALLS)
        c = {"f": f}
        if f in ("tlt_mdoc", "dose_mdoc", "tlt_file"):
            c["sort"] = rng.random() < 0.5
        if f == "defocus_file":
            c["via"] = rng.choice(["read", "defocus_load"])
        calls.append(c)
    return {"kind": "session", "id": idx, "imgs": imgs, "ctf": gen_ctf(rng, n, fmt != "gctf_nophase"), "fmt": fmt,
            "dosevals": [gen_dose(rng) for _ in range(n)], "tid": rng.choice([0, 0, 100001, rng.randint(1, 998), rng.randint(1, 998)]),
            "dim": [rng.randint(100, 5000), rng.randint(100, 5000), rng.randint(50, 3000)], "zshift": gen_zshift(rng),
            "consts": gen_consts(rng),
            "calls": calls, "variant": rng.randrange(1000)}


def exec_session(case, wd):
    """One tilt series, one set of files and caller-owned objects, a sequence of loader / builder calls in this process.
    Returns [(label, trace-record)]: one per call, and one per earlier result looked at again after all calls."""
    import pandas as pd
    from cryocat import ioutils, wedgeutils
    from .. import motlutil
    os.makedirs(wd, exist_ok=True)
    imgs, ctf, C = case["imgs"], case["ctf"], case["consts"]
    tilts_sorted = sorted(i["tilt"] for i in imgs)
    mdoc_path = os.path.join(wd, "ts.mdoc")
    with open(mdoc_path, "w") as fh:
        fh.write(mdoc_text(imgs))
    tlt_path = os.path.join(wd, "ts.tlt")
    tm.write_values(tlt_path, tilts_sorted, 100, 2, pad=" ")
    dose_path = os.path.join(wd, "ts_dose.txt")
    tm.write_values(dose_path, case["dosevals"], 100, 2)
    if case["fmt"] == "ctffind4":
        ctf_path, ctf_type = os.path.join(wd, "ts_ctf.txt"), "ctffind4"
        tm.write_ctffind4(ctf_path, ctf)
    else:
        ctf_path, ctf_type = os.path.join(wd, "ts_ctf.star"), "gctf"
        tm.write_gctf(ctf_path, ctf, case["fmt"] == "gctf", *gctf_style(case))
    # objects owned by the caller, handed to several calls
    style = case.get("variant", 0) % 16
    for pth in (mdoc_path, tlt_path, dose_path, ctf_path):
        tm.restyle(pth, style)
    fdt = np.float32 if style & 8 else float
    W = Watch()
    tilt_arr = W((np.array(tilts_sorted, dtype=float) / 100.0).astype(fdt), "tilt array")
    dose_arr = W((np.array(case["dosevals"], dtype=float) / 100.0).astype(fdt), "dose array")
    ctf_frame = motlutil.vary_index(pd.DataFrame(
        [[r["u"] / 1e5, r["v"] / 1e5, r["ang"] / 100.0, r["ps"] / 1000.0, (r["u"] / 1e5 + r["v"] / 1e5) / 2.0] for r in ctf],
        columns=["defocus1", "defocus2", "astigmatism", "phase_shift", "defocus_mean"]), case["variant"])
    W(ctf_frame, "defocus frame")
    dim_arr = W(np.array(case["dim"], dtype=float), "dimension array")
    px, volt, amp, cs = C["px"] / 1000.0, C["voltage"] / 10.0, C["amp"] / 1000.0, C["cs"] / 100.0
    tomo = {"id": case["tid"], "tilts": tilts_sorted, "ctf": ctf, "dose": case["dosevals"], "dim": case["dim"],
            "zshift": case["zshift"]}

    def defocus_rows(df):
        return [{"d1": tm.sround(r["defocus1"], 1e5), "d2": tm.sround(r["defocus2"], 1e5),
                 "mean2": tm.sround(r["defocus_mean"], 2e5), "ast": tm.sround(r["astigmatism"], 100),
                 "ps": tm.sround(r["phase_shift"], 1000)} for _, r in df.iterrows()]

    obs = []            # (label, base record, live result object, projector)
    with contextlib.redirect_stdout(io.StringIO()):
        for k, c in enumerate(case["calls"]):
            f = c["f"]
            label = "%d:%s" % (k, f)
            if f == "tlt_mdoc":
                res = ioutils.tlt_load(mdoc_path, sort_angles=c["sort"])
                base = {"kind": "loader", "what": "tlt", "vals": [i["tilt"] for i in imgs], "sort": c["sort"]}
                proj = lambda r: ints(r, 100)
            elif f == "tlt_file":
                res = ioutils.tlt_load(tlt_path, sort_angles=c["sort"])
                base = {"kind": "loader", "what": "tlt", "vals": tilts_sorted, "sort": c["sort"]}
                proj = lambda r: ints(r, 100)
            elif f == "tlt_array":
                res = ioutils.tlt_load(tilt_arr)
                base = {"kind": "loader", "what": "tlt", "vals": tilts_sorted, "sort": False}
                proj = lambda r: ints(r, 100)
            elif f == "dose_mdoc":
                res = ioutils.total_dose_load(mdoc_path, sort_mdoc=c["sort"])
                base = {"kind": "loader", "what": "mdocdose", "imgs": imgs, "sort": c["sort"]}
                proj = lambda r: ints(r, 100)
            elif f == "dose_file":
                res = ioutils.total_dose_load(dose_path)
                base = {"kind": "loader", "what": "dose", "vals": case["dosevals"]}
                proj = lambda r: ints(r, 100)
            elif f == "dose_array":
                res = ioutils.total_dose_load(dose_arr)
                base = {"kind": "loader", "what": "dose", "vals": case["dosevals"]}
                proj = lambda r: ints(r, 100)
            elif f == "defocus_file":
                if c["via"] == "read":
                    res = ioutils.ctffind4_read(ctf_path) if ctf_type == "ctffind4" else ioutils.gctf_read(ctf_path)
                else:
                    res = ioutils.defocus_load(ctf_path, ctf_type)
                base = {"kind": "loader", "what": "defocus", "rows": ctf}
                proj = defocus_rows
            elif f == "defocus_frame":
                res = ioutils.defocus_load(ctf_frame)
                base = {"kind": "loader", "what": "defocus", "rows": ctf}
                proj = defocus_rows
            elif f == "wedge_mdoc":
                res = wedgeutils.create_wedge_list_sg(case["tid"], list(case["dim"]), px, mdoc_path, z_shift=case["zshift"] / 10.0,
                                                      ctf_file=ctf_path, ctf_file_type=ctf_type, dose_file=mdoc_path,
                                                      voltage=volt, amp_contrast=amp, cs=cs)
                base = {"kind": "wedge", "what": "sg_mdoc", "imgs": imgs, "tomos": [dict(tomo, dose=[])], "consts": C}
                proj = wedge_rows_of_frame
            elif f == "wedge_files":
                res = wedgeutils.create_wedge_list_sg(case["tid"], list(case["dim"]), px, tlt_path, z_shift=case["zshift"] / 10.0,
                                                      ctf_file=ctf_path, ctf_file_type=ctf_type, dose_file=dose_path,
                                                      voltage=volt, amp_contrast=amp, cs=cs)
                base = {"kind": "wedge", "what": "sg", "tomos": [tomo], "consts": C}
                proj = wedge_rows_of_frame
            elif f == "wedge_objects":
                res = wedgeutils.create_wedge_list_sg(case["tid"], dim_arr, px, tilt_arr, z_shift=case["zshift"] / 10.0,
                                                      ctf_file=ctf_frame, dose_file=dose_arr, voltage=volt, amp_contrast=amp, cs=cs)
                base = {"kind": "wedge", "what": "sg", "tomos": [tomo], "consts": C}
                proj = wedge_rows_of_frame
            else:
                raise core.MachineryError("unknown session call %r" % f)
            obs.append((label, base, res, proj, proj(res)))
            why = W.changed()
            if why:
                return [("ARG " + label, {"why": why})]
    out = []
    for label, base, res, proj, first in obs:
        out.append((label, dict(base, got=first)))
    for label, base, res, proj, first in obs:                 # the earlier results, looked at again after all calls
        out.append((label + " (re-inspected)", dict(base, got=proj(res))))
    return out


def run_sessions(ctx, cases):
    traces, kept = [], []
    for case in cases:
        wd = os.path.join(ctx.sub("sessions"), "shared" if case.get("id", 0) % 2 == 0 else "s%d_%d" % (os.getpid(), ctx.traces))
        res, err = core.call_guarded(exec_session, case, wd)
        ctx.ran(case)
        if err is not None:
            ctx.fail("call_raises", err, case, {"op": "loader/wedge call sequence", "layer": "L3"})
            continue
        if res and res[0][0].startswith("ARG "):
            ctx.fail("C17_ArgumentsUnchanged", "call %s changed a caller-owned object (%s)" % (res[0][0][4:], res[0][1]["why"]),
                     case, {"op": "sequence:" + res[0][0].split(":", 1)[1], "layer": "L3"})
            continue
        for label, tr in res:
            tr["id"] = case["id"]
            traces.append(tr)
            kept.append(dict(case, _label=label))
    validate(ctx, traces, kept, lambda case, v: {"op": "sequence:" + case["_label"].split(":", 1)[1], "layer": "L3"})


def run_tables(ctx, cases, corrupt=None):
    traces, kept = [], []
    for case in cases:
        # every third case uses ONE directory per process: all its input files are rewritten under the same names
        wd = os.path.join(ctx.sub("tables"), "shared" if case.get("id", 0) % 3 == 0 else "c%d_%d" % (os.getpid(), ctx.traces))
        res, err = core.call_guarded(exec_table_case, case, wd)
        ctx.ran(case)
        opname = {"tlt": "tlt_load", "dose": "total_dose_load", "mdocdose": "total_dose_load(mdoc)", "defocus": "defocus_load",
                  "single": "create_wedge_list_sg", "batch": "create_wedge_list_sg_batch", "em": "create_wedge_list_em_batch",
                  "sg2em": "wedge_list_sg_to_em"}[case["what"]]
        if err is not None:
            ctx.fail("call_raises", err, case, {"op": opname, "layer": "L3"})
            continue
        arg = [g for w, g in res if w == "ARG"]
        if arg:
            ctx.fail("C17_ArgumentsUnchanged", "%s changed its argument (%s)" % (opname, arg[0]), case, {"op": opname, "layer": "L3"})
            continue
        for j, (what, got) in enumerate(res):
            if corrupt == "table" and not traces and got:
                got = got[1:] + got[:1] if len(got) > 1 else []            # binding demonstration: a rotated / lost row
            tr = {"kind": case["kind"], "id": case["id"], "what": what, "got": got}
            for k in ("vals", "sort", "imgs", "rows", "tomos", "consts"):
                if k in case:
                    tr[k] = case[k]
            traces.append(tr)
            kept.append(dict(case, _obs=j, _op=opname))
    validate(ctx, traces, kept, lambda case, v: {"op": case["_op"], "layer": "L3",
                                                 "source": "returned" if case["_obs"] == 0 else "written file"})


# ---- main -----------------------------------------------------------------------------------------------------------
def run(ctx):
    ctx.rule = ("L2: every depth-2 history of the mdoc machine over the small documents of MC_TiltMeta (3 quick / 6 thorough; seed-selected "
                "sub-sample) and simulated 6-step behaviours, replayed on one live Mdoc object + files; L3: random "
                "documents from the grammar (1..80 images) with random operation sequences and random loader / wedge-list "
                "inputs validated by TiltMetaTrace.  distinct = distinct (document, operation sequence, layout)")
    ctx.assumptions += [
        "floats are decimals with at most six fraction digits, 1e-3 <= |v| < 1e6, no exponent form (repr prints them "
        "as the normalised decimal); values whose repr uses an exponent are outside the generated class",
        "tilt angles of one mdoc document are pairwise different (sort_values is not stable) and never -0; tilt files, "
        "arrays and lists may record a tilt twice",
        "free text contains no '=' (it may be non-ASCII, files are UTF-8); titles neither start with '[' nor end with ']'",
        "index subsets are handed over as lists / arrays (an index may be named twice)",
        "file names are str; pathlib.Path only where the tree accepts it (Mdoc, STAR / ctffind4 readers, output files) - "
        "tlt_load / total_dose_load / defocus_load document str and reject Path and tuple; text inputs come with LF or CRLF "
        "line ends, with or without trailing blank lines; mdoc text is UTF-8 and may be non-ASCII",
        "caller-owned arrays / lists / DataFrames must be unchanged after every call (argguard) - clause C17_ArgumentsUnchanged"]
    only = getattr(ctx, "only", None)

    def want(x):
        return not only or x in only

    if want("l1") and not ctx.quick:
        ctx.tlc("MC_TiltMeta", cfg(3, "none"), name="mdoc_small_depth3", workers=4)
        ctx.exhaustive["L1_mdoc_machine_depth3"] = True
    if want("l2"):
        # all clauses are checked in this run as well (every depth-2 history is a state); it doubles as L1 of the quick tier
        res = ctx.tlc("MC_TiltMeta", cfg(2, "hist", ctx.pick("QuickDocs", "MCDocs")), name="mdoc_hist", workers=1)
        ctx.exhaustive["L1_mdoc_machine_depth2"] = True
        hists = [r["hist"] for r in res.records if "hist" in r]
        seen, uniq = set(), []
        for h in hists:
            k = core.stable_hash(h)
            if k not in seen:
                seen.add(k)
                uniq.append(h)
        budget = ctx.pick(100, 3000)
        chosen = sorted(uniq, key=lambda h: core.stable_hash([ctx.seed, h]))[:budget]
        ctx.exhaustive["L2_mdoc_histories"] = len(chosen) == len(uniq)
        ctx.extra["histories_emitted"] = len(uniq)
        ctx.extra["histories_replayed"] = len(chosen)
        for i, h in enumerate(chosen):
            run_history(ctx, h, (ctx.seed * 7919 + i) % 144, "mdoc-history")
        nsim = ctx.pick(25, 1000)
        res = ctx.tlc("MC_TiltMeta", cfg(6, "hist"), name="mdoc_sim", simulate=nsim, depth=8, seed=ctx.seed + 1, workers=1)
        seen, nb = set(), 0
        for r in res.records:
            if "hist" not in r:
                continue
            k = core.stable_hash(r["hist"])
            if k in seen:
                continue
            seen.add(k)
            nb += 1
            if nb > ctx.pick(25, 1000):
                break
            run_history(ctx, r["hist"], (ctx.seed * 31 + nb) % 144, "mdoc-behaviour")
        ctx.extra["behaviours_replayed"] = nb
    if want("l3"):
        total = ctx.pick(16, 250)
        nmax = 80
        cases = [gen_mdoc_case(ctx.rng, i + 1, nmax, nforce=(i + 1) if i < 12 else 0) for i in range(total)]
        corrupt = os.environ.get("VERIF_C17_CORRUPT") or None
        for b in range(0, total, 100):
            run_random_mdocs(ctx, cases[b:b + 100], corrupt=corrupt if b == 0 else None)
    if want("tables"):
        total = ctx.pick(30, 2500)
        cases = sweep_cases(ctx.rng, 300000, ctx.pick(12, 20)) + [gen_table_case(ctx.rng, 100000 + i) for i in range(total)]
        total = len(cases)
        corrupt = os.environ.get("VERIF_C17_CORRUPT") or None
        for b in range(0, total, 500):
            run_tables(ctx, cases[b:b + 500], corrupt=corrupt if b == 0 else None)
    if want("sessions"):
        total = ctx.pick(40, 1200)
        cases = [gen_session_case(ctx.rng, 200000 + i) for i in range(total)]
        for b in range(0, total, 300):
            run_sessions(ctx, cases[b:b + 300])

"""C15 - tilt-stack operations.  TiltStack.tla is model-checked in a small scope (L1: 2..4 tilts of non-square images,
every angle order, every index subset, every crop window, every input order x output order x source x output-file
combination) and is the oracle of the binding layer (L2): every transition of the small scope (sub-sampled by seed) and
seeded call sequences on stacks of 2..25 tilts with image sizes 4..40 are executed against cryocat.tiltstack.  TLC
emits, for every call, the concrete input (array in the stated axis order, or the MRC document of the input file) and
what the call must return and write; the driver interprets pixel tokens by an affine map, performs the call, parses
written files with the independent MRC reader and compares."""
import json
import os
import random
import shutil

import numpy as np

from .. import argguard, core, parsers

PROPS = ["C15_SortPermutes", "C15_RemoveSubsequence", "C15_Interleave", "C15_FlipAxis", "C15_CropCentral",
         "C15_BinBlockMeans", "C15_ReturnsResult", "C15_FileHoldsResult"]
INVS = ["TypeOK", "C15_FlipInvolution", "C15_FlipsCommute", "C15_OrderAgnostic"]
NP = {"f32": np.float32, "i16": np.int16}
PARSER_NAME = {"f32": "float32", "i16": "int16"}
CLAUSE = {"sort": "C15_SortPermutes", "remove": "C15_RemoveSubsequence", "split": "C15_Interleave",
          "flip": "C15_FlipAxis", "crop": "C15_CropCentral", "bin": "C15_BinBlockMeans"}


def cfg(mode, init, cases, cfgs, depth, emit, invs=True):
    lines = ["SPECIFICATION Spec", "CONSTANTS", ' Mode = "%s"' % mode, " InitStacks <- %s" % init, " Cases <- %s" % cases,
             " Cfgs <- %s" % cfgs, " MaxDepth = %d" % depth, " Emit = %s" % ("TRUE" if emit else "FALSE")]
    lines += ["INVARIANT %s" % i for i in (INVS if invs else INVS[:1])]
    lines += ["PROPERTY %s" % p for p in PROPS]
    if emit:
        lines += ["ACTION_CONSTRAINT EmitTR"]
    lines += ["VIEW View"]
    return "\n".join(lines) + "\n"


# ---- interpretation gamma: pixel token t -> a * t + b (injective; exact in float32 / int16; linear, so block means of
#      tokens map to block means of values) ------------------------------------------------------------------------
def affine(aseed, dtype, trange):
    tmin, tmax = trange
    rng = random.Random(aseed)
    if dtype == "i16":
        half = (tmax - tmin + 1) // 2 + 1
        a = rng.choice([x for x in (-3, -2, -1, 1, 2, 3) if abs(x) * half <= 30000])
        b = rng.choice([0, 0, 5, -11, 100])
        if rng.random() < 0.4 and abs(a) * (tmax - tmin) <= 60000:
            # values at the limits of the element type: the largest pixel is 32767 or the smallest is -32768 (sums of a
            # block do not fit int16 then; results are selections / exact means all the same)
            lo, hi = min(a * tmin, a * tmax), max(a * tmin, a * tmax)
            b = 32767 - hi if rng.random() < 0.5 else -32768 - lo
            return a, b
        if max(abs(a * tmin + b), abs(a * tmax + b)) > 32000:
            b = -a * ((tmin + tmax) // 2) + rng.choice([0, 3, -8])          # centre the values in the int16 range
        if max(abs(a * tmin + b), abs(a * tmax + b)) > 32700:
            raise core.MachineryError("tokens %d..%d do not fit int16" % (tmin, tmax))
    else:
        a = rng.choice([0.25, -0.25, 1.5, -1.0, 1.0, 3.0, 0.125])
        b = rng.choice([0.0, 0.5, -7.25, 1024.0])
        if rng.random() < 0.15:
            # tiny and huge magnitudes: a power of two keeps a * t (and block means of it) exact in float32
            a, b = rng.choice([2.0 ** -100, -2.0 ** -100, 2.0 ** 100, -2.0 ** 90, 2.0 ** -30]), 0.0
    return a, b


def token_range(recs):
    lo, hi = [0], [0]

    def walk(x):
        if isinstance(x, list):
            if x and isinstance(x[0], int):
                lo[0] = min(lo[0], min(x))
                hi[0] = max(hi[0], max(x))
            else:
                for y in x:
                    walk(y)
    for rec in recs:
        walk(rec["inp"].get("arr", []))
        if "doc" in rec["inp"]:
            walk(rec["inp"]["doc"]["data"])
        walk(rec["res"]["ret"])
    return lo[0], hi[0]


def to_array(nested, ab, dtype):
    a, b = ab
    arr = np.array(nested, dtype=np.float64) * a + b
    return arr.astype(NP[dtype])


ALL_AF = ["c", "f", "view", "ro"]


def stored(arr, af):
    """the same stack array in another storage form"""
    if af == "f":
        return np.asfortranarray(arr)
    if af == "view":
        big = np.zeros(tuple(2 * n + 1 for n in arr.shape), dtype=arr.dtype)
        big[1::2, 1::2, 1::2] = arr
        return big[1::2, 1::2, 1::2]
    out = np.ascontiguousarray(arr).copy()
    if af == "ro":
        out.setflags(write=False)
    return out


def aside_calls(root, variant):
    """Dimension 'call history': other public functions of the module, with non-default options, on another stack."""
    from cryocat import tiltstack
    a = np.arange(3 * 4 * 5, dtype=np.float32).reshape(3, 4, 5) + 0.5
    side = os.path.join(root, "aside_%d.mrc" % variant)
    tiltstack.flip_along_axes(a, ["z", "y"], input_order="zyx", output_order="xyz", output_file=side)
    tiltstack.crop(side, new_width=3, new_height=2, output_order="zyx")
    tiltstack.sort_tilts_by_angle(a, [30.0, -10.0, 5.0], input_order="zyx")
    tiltstack.remove_tilts(a.transpose(2, 1, 0), [0], numbered_from_1=False, output_order="zyx")
    tiltstack.bin(a[:, :, :4], 2, input_order="zyx")
    os.remove(side)


def to_values(flat, ab, dtype):
    a, b = ab
    if dtype == "i16":
        return [int(a * t + b) for t in flat]
    return [float(a * t + b) for t in flat]


# ---- one call ---------------------------------------------------------------------------------------------------------
def angles_for(ranks, rng):
    """distinct tilt angles without near-ties whose ascending order is the given rank vector"""
    n = len(ranks)
    vals = set()
    if rng.random() < 0.3:
        vals.add(0.0)                               # the untilted image: an angle of exactly 0
    while len(vals) < n:
        vals.add(round(rng.uniform(-70.0, 70.0), 1) + rng.choice([0.0, 0.03]))
    asc = sorted(vals)
    for i in range(1, n):
        if asc[i] - asc[i - 1] < 0.01:
            return angles_for(ranks, rng)
    return [asc[r - 1] for r in ranks]


def perform(op, stack_in, outdir, variant, rng):
    """Calls the tiltstack function named by op.  Returns (list of returned arrays, list of written paths, and - for
    calls that take index / angle arguments - (argument objects, their snapshots, a closure repeating the call))."""
    from cryocat import tiltstack
    kw = {}
    if op["io"] != "xyz" or variant % 2:
        kw["input_order"] = op["io"]
    if op["oo"] != "xyz" or variant % 3 == 0:
        kw["output_order"] = op["oo"]
    name = op["name"]
    outs = []
    if name == "split":
        if op["outf"]:
            prefix = os.path.join(outdir, "out")
            kw["output_file_prefix"] = prefix
            outs = [prefix + "_even.mrc", prefix + "_odd.mrc"]
        even, odd = tiltstack.split_stack_even_odd(stack_in, **kw)
        return [even, odd], outs, None
    if op["outf"]:
        outs = [os.path.join(outdir, "out.mrc" if variant % 5 else "out.rec")]
        kw["output_file"] = outs[0]
    args = []          # caller-owned argument objects handed to the library (index / angle arrays and lists)
    if name == "sort":
        ang = angles_for(op["ranks"], rng)
        how = variant % 4
        if how == 0:
            tilts = np.array(ang)
        elif how == 1:
            tilts = list(ang)
        else:
            tilts = os.path.join(outdir, "angles.tlt" if how == 2 else "angles.rawtlt")
            with open(tilts, "w") as fh:
                fh.write("".join("%r\n" % a for a in ang))
        args.append(tilts)
        snaps = [np.array(a, copy=True) if not isinstance(a, str) else a for a in args]
        ret = tiltstack.sort_tilts_by_angle(stack_in, tilts, **kw)
        again = lambda: tiltstack.sort_tilts_by_angle(stack_in, tilts, **kw)     # noqa: E731
        return [ret], outs, (args, snaps, again)
    elif name == "remove":
        idx = [int(i) for i in op["idx"]]
        if variant % 3 == 1:
            rng.shuffle(idx)                       # a subset has no order
        how = variant % 4
        if how == 0:
            arg = idx
        elif how == 1 or len(idx) < 2:
            arg = np.array(idx)
        elif how == 2:
            arg = os.path.join(outdir, "remove.txt")
            with open(arg, "w") as fh:
                fh.write("".join("%d\n" % i for i in idx))
        else:
            arg = idx
        if isinstance(arg, np.ndarray) and variant % 8 < 4:
            # the caller keeps using its own index array: a first call with the very same object must not change
            # what "the requested indices" are for the call that is judged (seeded change C15a: in-place `-= 1`)
            kw0 = {k: v for k, v in kw.items() if k != "output_file"}
            tiltstack.remove_tilts(stack_in, arg, numbered_from_1=(op["base"] == 1), **kw0)
        if not (op["base"] == 1 and variant % 2):
            kw["numbered_from_1"] = (op["base"] == 1)                         # (it defaults to True)
        args.append(arg)
        snaps = [np.array(a, copy=True) if not isinstance(a, str) else a for a in args]
        ret = tiltstack.remove_tilts(stack_in, arg, **kw)
        again = lambda: tiltstack.remove_tilts(stack_in, arg, **kw)              # noqa: E731
        return [ret], outs, (args, snaps, again)
    elif name == "flip":
        axes = list(op["axes"])
        ret = tiltstack.flip_along_axes(stack_in, axes[0] if len(axes) == 1 and variant % 2 else axes, **kw)
    elif name == "crop":
        if op["w"]:
            kw["new_width"] = op["w"]
        if op["h"]:
            kw["new_height"] = op["h"]
        ret = tiltstack.crop(stack_in, **kw)
    elif name == "bin":
        ret = tiltstack.bin(stack_in, op["f"], **kw)
    else:
        raise core.MachineryError("unknown op %r" % (op,))
    return [ret], outs, None


def sig_of(rec):
    op = rec["op"]
    return {"op": op["name"], "io": op["io"], "oo": op["oo"], "src": op["src"], "outf": op["outf"], "dtype": rec["dtype"],
            "af": op.get("af", "c")}


def compare(ctx, rec, rets, outs, outdir, ab, case, allowed_files):
    """Returned arrays and written files against what TLC emitted.  True when conforming."""
    op = rec["op"]
    sig = sig_of(rec)
    clause = CLAUSE[op["name"]]
    ok = True
    exp_rets = rec["res"]["ret"]
    if len(rets) != len(exp_rets):
        ctx.fail(clause, "%d arrays returned, expected %d" % (len(rets), len(exp_rets)), case, sig)
        return False
    for i, (got, exp) in enumerate(zip(rets, exp_rets)):
        e = to_array(exp, ab, rec["dtype"]).astype(np.float64)
        if not isinstance(got, np.ndarray):
            ctx.fail(clause, "return value %d is %s, not an array" % (i, type(got).__name__), case, sig)
            ok = False
            continue
        g = got.astype(np.float64)
        if g.shape != e.shape:
            if g.ndim == 3 and g.transpose(2, 1, 0).shape == e.shape and np.array_equal(g.transpose(2, 1, 0), e):
                ctx.fail("C15_OrderAgnostic", "returned array %d has the right content in the wrong axis order: shape %s, "
                         "output_order=%s needs %s" % (i, g.shape, op["oo"], e.shape), case, sig)
            else:
                ctx.fail(clause, "returned array %d has shape %s, expected %s (order %s)" % (i, g.shape, e.shape, op["oo"]),
                         case, sig)
            ok = False
            continue
        diff = np.argwhere(g != e)
        if len(diff):
            p = tuple(int(v) for v in diff[0])
            ctx.fail(clause, "returned array %d (order %s): %d of %d pixels differ; first at %s: got %r expected %r" % (
                i, op["oo"], len(diff), e.size, p, float(g[p]), float(e[p])), case, sig)
            ok = False
    # files
    exp_files = rec["res"]["files"]
    present = sorted(f for f in os.listdir(outdir) if f not in allowed_files)
    want = sorted(os.path.basename(p) for p in outs) if exp_files else []
    if present != want:
        ctx.fail("C15_FileHoldsResult", "files written %s, expected %s" % (present, want), case, sig)
        return False
    for i, doc in enumerate(exp_files):
        try:
            got = parsers.read_mrc(outs[i])
        except parsers.FormatError as e:
            ctx.fail("C15_FileHoldsResult", "%s is not a valid MRC file: %s" % (os.path.basename(outs[i]), e), case, sig)
            ok = False
            continue
        dims = [got["nx"], got["ny"], got["nz"]]
        if (got["mapc"], got["mapr"], got["maps"]) != (1, 2, 3):
            ctx.fail("C15_FileHoldsResult", "axis order mapc,mapr,maps = %s" % ((got["mapc"], got["mapr"], got["maps"]),),
                     case, sig)
            ok = False
        elif dims != list(doc["dims"]):
            ctx.fail("C15_FileHoldsResult", "%s: header (nx,ny,nz) = %s, expected (width,height,tilts) = %s" % (
                os.path.basename(outs[i]), dims, list(doc["dims"])), case, sig)
            ok = False
        elif got["dtype"] != PARSER_NAME[doc["mode"]]:
            ctx.fail("C15_FileHoldsResult", "%s: element type %s, expected %s" % (
                os.path.basename(outs[i]), got["dtype"], PARSER_NAME[doc["mode"]]), case, sig)
            ok = False
        else:
            e = to_values(doc["data"], ab, rec["dtype"])
            bad = [q for q in range(len(e)) if got["data"][q] != e[q]]
            if bad:
                q = bad[0]
                nx, ny = dims[0], dims[1]
                ctx.fail("C15_FileHoldsResult", "%s: %d of %d pixels differ; first at column %d row %d tilt %d: file %r expected %r" % (
                    os.path.basename(outs[i]), len(bad), len(e), q % nx, (q // nx) % ny, q // (nx * ny), got["data"][q], e[q]),
                    case, sig)
                ok = False
    return ok


def fresh_dir(ctx, tag):
    d = os.path.join(ctx.sub("stacks"), "%s_%d" % (tag, os.getpid()))
    shutil.rmtree(d, ignore_errors=True)
    os.makedirs(d)
    return d


def run_chain(ctx, recs, variant, aseed, live=True):
    """Executes a sequence of calls (a single transition is a chain of length one).  Every call's input is what TLC
    emitted; when the previous call's own output has the right form (array order / written file) it is passed on
    instead, so that the sequence runs through the library's real outputs."""
    case = {"kind": "chain", "recs": recs, "variant": variant, "aseed": aseed, "live": live}
    dtype = recs[0]["dtype"]
    ab = affine(aseed, dtype, token_range(recs))
    rng = random.Random(aseed * 31 + variant)
    prev = None
    held = []            # (call number, op, returned array object, copy taken when it was returned)
    root = fresh_dir(ctx, "ch")
    for k, rec in enumerate(recs):
        op = rec["op"]
        outdir = os.path.join(root, "s%d" % k)
        os.makedirs(outdir)
        allowed = set()
        kept = 1 if (prev and prev["op"]["name"] == "split" and prev["op"]["keep"] == "odd") else 0
        if op["src"] == "array":
            if live and prev and prev["op"]["oo"] == op["io"] and isinstance(prev["rets"][kept], np.ndarray):
                stack_in = prev["rets"][kept]
            else:
                stack_in = stored(to_array(rec["inp"]["arr"], ab, dtype), op.get("af", "c"))
        else:
            if live and prev and prev["outs"]:
                stack_in = prev["outs"][kept]
            else:
                doc = rec["inp"]["doc"]
                stack_in = os.path.join(outdir, "input.mrc")
                parsers.write_mrc(stack_in, tuple(doc["dims"]), PARSER_NAME[doc["mode"]], to_values(doc["data"], ab, dtype))
                allowed.add("input.mrc")
        allowed |= {"angles.tlt", "angles.rawtlt", "remove.txt"}
        if (variant + k) % 4 == 1:
            _, err = core.call_guarded(aside_calls, root, variant + k)
            if err is not None:
                ctx.fail("call_raises", "interleaved flip / crop / sort / remove / bin sequence: %s" % err, case, {"op": "aside"})
                break
        guard = argguard.Guard(stack=stack_in if isinstance(stack_in, np.ndarray) else None)
        result, err = core.call_guarded(perform, op, stack_in, outdir, variant + k, rng)
        why = guard.changed()
        if why:
            ctx.fail("C15_ArgumentsKept", "call %d %s changed the stack it was given - %s" % (k + 1, op["name"], why), case,
                     dict(sig_of(rec), argument_modified=True))
            break
        if err is not None:
            ctx.fail("call_raises", "call %d %s: %s" % (k + 1, {x: op[x] for x in op if x not in ("ranks",)}, err), case,
                     sig_of(rec))
            break
        rets, outs, extra = result
        if not compare(ctx, rec, rets, outs, outdir, ab, case, allowed):
            break
        # results of earlier calls, inspected again after this call, must still be what they were
        stale = [(j, o) for j, o, obj, snap in held if obj.shape != snap.shape or not np.array_equal(obj, snap)]
        if stale:
            ctx.fail(CLAUSE[stale[0][1]["name"]], "the array returned by call %d (%s) changed after call %d (%s)" % (
                stale[0][0], stale[0][1]["name"], k + 1, op["name"]), case, dict(sig_of(rec), reinspected=True))
            break
        held += [(k + 1, op, r, r.copy()) for r in rets if isinstance(r, np.ndarray)]
        if extra is not None:
            args, snaps, again = extra
            # the caller's own index / angle objects are untouched ...
            changed = [a for a, sn in zip(args, snaps) if not isinstance(a, str) and not np.array_equal(np.array(a), sn)]
            if changed:
                ctx.fail(CLAUSE[op["name"]], "the call modified the caller's argument object: now %r" % (changed[0],), case,
                         dict(sig_of(rec), argument_modified=True))
                break
            # ... and a second call with the very same objects gives the same result (no state between calls)
            if (variant + k) % 2 == 0:
                second, err = core.call_guarded(again)
                if err is not None:
                    ctx.fail("call_raises", "second call %d %s with the same argument objects: %s" % (k + 1, op["name"], err),
                             case, dict(sig_of(rec), second_call=True))
                    break
                if not (isinstance(second, np.ndarray) and second.shape == rets[0].shape and np.array_equal(second, rets[0])):
                    ctx.fail(CLAUSE[op["name"]], "a second call with the same argument objects returns a different result",
                             case, dict(sig_of(rec), second_call=True))
                    break
        prev = {"op": op, "rets": rets, "outs": outs}
    ctx.ran(case)
    shutil.rmtree(root, ignore_errors=True)


def replay(ctx, case):
    pp = write_params(ctx, "replay", [])
    ctx.tlc("MC_TiltStack", cfg("enum", "TinyStacks", "NoCases", "OneCfg", 1, False), name="replay_l1",
            env={"C15_PARAMS": pp}, workers=2)
    if case["kind"] == "chain":
        run_chain(ctx, case["recs"], case["variant"], case["aseed"], case.get("live", True))
    else:
        raise core.MachineryError("unknown case kind %r" % case.get("kind"))


# ---- seeded generator of call sequences (inputs only: shapes, parameters, options) ---------------------------------------
ORD = ["xyz", "zyx"]


def gen_case(rng, nmax, smax, maxops):
    kind = "bin" if rng.random() < 0.3 else "uniq"
    f = rng.choice([2, 2, 3, 4]) if kind == "bin" else 1
    n = rng.randint(2, nmax)
    if kind == "bin":
        h = f * rng.randint(max(1, -(-4 // f)), max(1, smax // f))
        w = f * rng.randint(max(1, -(-4 // f)), max(1, smax // f))
    else:
        h, w = rng.randint(4, smax), rng.randint(4, smax)
    if h == w:
        if kind == "bin":
            w = w + f if w + f <= smax else w - f
        else:
            w = w + 1 if w < smax else w - 1
    case = {"n": n, "h": h, "w": w, "kind": kind, "f": f, "dtype": rng.choice(["f32", "i16"]), "ops": []}
    binnable = kind == "bin"
    prev_oo = None
    nops = rng.randint(1, maxops)
    while len(case["ops"]) < nops and n >= 2:
        choices = ["sort", "remove", "split", "flip", "flip", "crop"]
        if binnable:
            choices += ["bin", "bin", "bin"]
        if n < 3:
            choices = [c for c in choices if c != "remove"] or ["flip"]
        name = rng.choice(choices)
        op = {"name": name, "src": rng.choice(["array", "array", "file"]), "oo": rng.choice(ORD),
              "outf": rng.random() < 0.6, "af": rng.choice(ALL_AF)}
        op["io"] = prev_oo if (prev_oo and rng.random() < 0.7) else rng.choice(ORD)
        if name == "sort":
            ranks = list(range(1, n + 1))
            rng.shuffle(ranks)
            op["ranks"] = ranks
        elif name == "remove":
            k = rng.randint(1, n - 2) if rng.random() < 0.7 else 1
            base = rng.choice([0, 1])
            pos = sorted(rng.sample(range(1, n + 1), k))
            op["idx"] = [p - (1 - base) for p in pos]
            op["base"] = base
            n -= k
        elif name == "split":
            op["keep"] = rng.choice(["even", "odd"])
            n = (n + 1) // 2 if op["keep"] == "even" else n // 2
        elif name == "flip":
            op["axes"] = [rng.choice("xyz") for _ in range(rng.choice([1, 1, 2, 2, 3]))]
        elif name == "crop":
            # every size 1..length in all four parity combinations; width only / height only / both (0 = not given)
            w2 = rng.choice([0, 0] + list(range(1, w + 1)) + [w, 1])
            h2 = rng.choice([0, 0] + list(range(1, h + 1)) + [h, 1])
            op["w"], op["h"] = w2, h2
            w, h = (w2 or w), (h2 or h)
            binnable = False
        elif name == "bin":
            op["f"] = f
            h, w = h // f, w // f
            binnable = False
        case["ops"].append(op)
        prev_oo = op["oo"]
        if name == "flip" and rng.random() < 0.3 and len(case["ops"]) < nops + 1:
            # the same flip again: the specification says the original stack comes back
            again = dict(op, io=op["oo"], src="array", outf=rng.random() < 0.5)
            case["ops"].append(again)
    return case


def sweep_cases(rng, nmax):
    """Exhaustive small sweep: every tilt count 2..nmax, each with a cheap sort -> remove -> split sequence on 4x5 images
    (1 tilt is outside the quantifier: the split of a single image raises by design)."""
    out = []
    for n in range(2, nmax + 1):
        ranks = list(range(1, n + 1))
        rng.shuffle(ranks)
        ops = [{"name": "sort", "ranks": ranks, "io": "xyz", "oo": "zyx", "src": "array", "outf": n % 2 == 0, "af": rng.choice(ALL_AF)}]
        m = n
        if n >= 3:
            base = n % 2
            k = 1 + (n % 3 if n - 1 - n % 3 >= 2 else 0)
            pos = sorted(rng.sample(range(1, n + 1), k))
            ops.append({"name": "remove", "idx": [q - (1 - base) for q in pos], "base": base, "io": "zyx", "oo": "xyz",
                        "src": "file" if n % 2 == 0 else "array", "outf": True, "af": rng.choice(ALL_AF)})
            m = n - k
        ops.append({"name": "split", "keep": "even", "io": "xyz", "oo": "xyz", "src": "array", "outf": n % 3 == 0,
                    "af": rng.choice(ALL_AF)})
        if (m + 1) // 2 >= 2:
            ops.append({"name": "flip", "axes": ["z", "z", "y"], "io": "xyz", "oo": "zyx", "src": "array", "outf": False,
                        "af": rng.choice(ALL_AF)})
        out.append({"n": n, "h": 4, "w": 5, "kind": "uniq", "f": 1, "dtype": "f32" if n % 2 else "i16", "ops": ops})
    return out


def write_params(ctx, name, cases, forms=("c",)):
    path = os.path.join(ctx.sub("params"), name + ".json")
    with open(path, "w") as fh:
        json.dump({"cases": cases, "forms": list(forms)}, fh)
    return path


# ---- main ---------------------------------------------------------------------------------------------------------------
def run(ctx):
    only = getattr(ctx, "only", None)
    ctx.rule = ("L1: TiltStack in enum mode over 2..4 tilts of 2x3 / 3x2 / 5x4 token images and 2x4 / 3x6 binning-pattern "
                "images, float32 and int16: every angle order, every non-empty proper index subset (0-/1-based), split, flip "
                "axes, every crop window 1..size on both axes (all parity combinations), binning, x every (input order, output order, source, output file) combination; "
                "L2: those transitions (sub-sampled by seed) and seeded call sequences on stacks of 2..25 tilts, sizes 4..40 "
                "are executed; inputs and expected outputs are the ones TLC emitted. distinct = distinct (call sequence, "
                "interpretation) cases")
    ctx.assumptions += ["frame conditions judged with mbt/argguard.py: the stack array, the angle and the index objects handed in "
                        "are unchanged after the call (values, dtype, layout, writeability); earlier results stay what they were",
                        "interpretation gamma: pixel token t -> a*t + b (injective, exact in float32 / int16, linear so "
                        "block means carry over); tilt angles = distinct values >= 0.01 apart realising the rank vector",
                        "centre convention floor(N/2): the central crop window of length n has its centre index n//2 on the "
                        "image centre N//2 (start = N//2 - n//2), claimed for all four parity combinations on both axes",
                        "image sizes are multiples of the binning factor with block sums divisible by f*f (integer means: no "
                        "rounding rule assumed)",
                        "index subsets are non-empty and proper; every call receives a stack of at least 2 tilts",
                        "flip axes follow the documented IMOD meaning (clip flipx reverses the rows, flipy the columns, "
                        "flipz the tilt order); the property's own wording only requires the involution",
                        "independent MRC reader / writer of mbt/parsers.py is trusted"]
    forms = [ctx.rng.choice(ALL_AF)] if ctx.quick else ALL_AF
    ctx.extra["array_forms_enum"] = forms
    p0 = write_params(ctx, "none", [], forms)
    env0 = {"C15_PARAMS": p0}

    if not only or "small" in only:
        ctx.tlc("MC_TiltStack", cfg("enum", "SmallStacks", "NoCases", "AllCfgs", 1, False), name="small", env=env0, workers=4)
        ctx.exhaustive["L1_small_depth1"] = True
        ctx.tlc("MC_TiltStack", cfg("enum", "SmallStacks", "NoCases", "OneCfg", 2, False), name="small2", env=env0, workers=4)
        ctx.exhaustive["L1_onecfg_depth2"] = True

    if not only or "tr" in only:
        res = ctx.tlc("MC_TiltStack", cfg("enum", "SmallStacks", "NoCases", "AllCfgs", 1, True), name="tr", env=env0, workers=1)
        trs = res.records
        if len(trs) < 5000:
            raise core.MachineryError("tr run emitted only %d transitions" % len(trs))
        budget = ctx.pick(2500, 40000)
        groups = {}
        for t in sorted(trs, key=lambda t: core.stable_hash([ctx.seed, t])):
            groups.setdefault(t["op"]["name"], []).append(t)
        for need in CLAUSE:
            if not groups.get(need):
                raise core.MachineryError("coverage hole: no %s transition emitted" % need)
        quota = budget // len(groups)
        chosen, rest = [], []
        for k in sorted(groups):
            chosen += groups[k][:quota]
            rest += groups[k][quota:]
        rest.sort(key=lambda t: core.stable_hash([ctx.seed, t]))
        chosen += rest[:max(0, budget - len(chosen))]
        # the crops that are executed cover, on both axes, all four (image length parity, window length parity) pairs
        par = {"w": {}, "h": {}}
        for t in chosen:
            if t["op"]["name"] == "crop":
                dims = t["inp"]["doc"]["dims"] if "doc" in t["inp"] else None
                if dims is None:
                    a = t["inp"]["arr"]
                    dims = [len(a), len(a[0])] if t["op"]["io"] == "xyz" else [len(a[0][0]), len(a[0])]
                for ax, full, new in (("w", dims[0], t["op"]["w"]), ("h", dims[1], t["op"]["h"])):
                    if new:
                        key = "%s->%s" % ("even" if full % 2 == 0 else "odd", "even" if new % 2 == 0 else "odd")
                        par[ax][key] = par[ax].get(key, 0) + 1
        for ax in par:
            if len(par[ax]) < 4:
                raise core.MachineryError("coverage hole: crop parity combinations on axis %s: %s" % (ax, par[ax]))
        ctx.extra["crop_parity_cases"] = par
        ctx.extra["transitions_emitted"] = len(trs)
        ctx.extra["transitions_replayed"] = len(chosen)
        ctx.exhaustive["L2_transitions"] = len(chosen) == len(trs)
        for i, t in enumerate(chosen):
            run_chain(ctx, [t], variant=(ctx.seed * 7919 + i) % 100003, aseed=(ctx.seed * 104729 + i) % 1000003)

    if not only or "script" in only:
        rng = ctx.rng
        batches = ctx.pick([(60, 8, 14, 4)], [(2500, 10, 16, 5), (500, 25, 40, 4), (80, 25, 40, 3)])
        nchain = 0
        for bi, (count, nmax, smax, maxops) in enumerate(batches):
            cases = [gen_case(rng, nmax, smax, maxops) for _ in range(count)]
            if bi == 0:
                cases = sweep_cases(rng, ctx.pick(12, 25)) + cases
                ctx.extra["tilt_count_sweep"] = "every n in 2..%d" % ctx.pick(12, 25)
            if bi == len(batches) - 1 and not ctx.quick:
                for c in cases[:20]:
                    c["n"] = 25                                       # the upper end of the quantifier
                    c["ops"] = [o for o in c["ops"][:1] if o["name"] in ("flip", "crop", "bin", "split")] or \
                        [{"name": "flip", "axes": ["z", "x"], "io": "xyz", "oo": "zyx", "src": "file", "outf": True, "af": "c"}]
            pc = write_params(ctx, "script%d" % bi, cases)
            res = ctx.tlc("MC_TiltStack", cfg("script", "NoStacks", "ScriptCases", "OneCfg", 12, True, invs=False),
                          name="script%d" % bi, env={"C15_PARAMS": pc}, workers=1)
            by_case = {}
            for r in res.records:
                by_case.setdefault(r["cid"], {})[r["step"]] = r
            for ci, c in enumerate(cases, start=1):
                steps = by_case.get(ci, {})
                if len(steps) != len(c["ops"]) or sorted(steps) != list(range(1, len(c["ops"]) + 1)):
                    raise core.MachineryError("script case %d: TLC executed %d of %d calls (the generator produced a call "
                                              "the specification does not admit): %s" % (ci, len(steps), len(c["ops"]), c))
                nchain += 1
                run_chain(ctx, [steps[k] for k in sorted(steps)], variant=(ctx.seed * 37 + nchain) % 100003,
                          aseed=(ctx.seed * 611953 + nchain) % 1000003)
        ctx.extra["call_sequences_replayed"] = nchain
        ctx.exhaustive["L2_seeded_sequences"] = False

"""C07 - score-ranked distance suppression (Motl.clean_by_distance) and peak extraction
(tmana.scores_extract_particles).

L1  Suppress.tla: the greedy loop is model-checked against Valid for every relation/grouping of a small scope,
    together with the theorem that Valid has exactly one solution for strict ranks.
L2  exact lattice configurations enumerated by TLC (positions, groups, squared radius, the unique valid set) are
    replayed through both functions.
L3  random real-valued lists / score maps: the driver logs brute-force relations and the output; SuppressTrace.tla
    evaluates the predicate."""
import json
import math
import os

import numpy as np

from .. import argguard, core, motlutil

L1_INVS = ["C07_GreedyValid", "C07_PartialSeparated", "C07_GroupsIndependent", "C07_ValidUnique"]
GROUP_FIELDS = ["tomo_id", "object_id", "class"]


def cfg(n, side, d2s, mode, invs=L1_INVS):
    lines = ["SPECIFICATION Spec", "CONSTANTS", " N = %d" % n, " Groups = {1, 2}", " Side = %d" % side,
             " D2s = {%s}" % ", ".join(str(v) for v in d2s), ' EmitMode = "%s"' % mode]
    lines += ["INVARIANT %s" % i for i in invs]
    if mode == "case":
        lines.append("ACTION_CONSTRAINT EmitCase")
    return "\n".join(lines) + "\n"


# ---- shared: build a particle table ------------------------------------------------------------------
TAG = "geom4"        # a field the operation does not read: the harness identifies rows by it, not by subtomo_id


def make_motl(positions, groups, scores, field, rng, ids=None, sid_mode=0):
    from cryocat import cryomotl
    n = len(positions)
    cols = motlutil.empty_rows(n)
    pos = np.asarray(positions, dtype=float)
    # split the complete position into extraction position + shift
    shift = np.array([[rng.choice([0.0, 0.25, -0.5, 1.5]) for _ in range(3)] for _ in range(n)])
    xyz = pos - shift
    cols["x"], cols["y"], cols["z"] = xyz[:, 0], xyz[:, 1], xyz[:, 2]
    cols["shift_x"], cols["shift_y"], cols["shift_z"] = shift[:, 0], shift[:, 1], shift[:, 2]
    tags = np.asarray(ids if ids is not None else np.arange(1, n + 1), dtype=float)
    cols[TAG] = tags
    # the property identifies particles by row, never by subtomo_id: the numbering may restart in every tomogram
    # (as peak extraction produces it) or be unset (all 0), so that ids repeat inside one group
    cols["subtomo_id"] = tags if sid_mode == 0 else (np.zeros(n) if sid_mode == 1 else np.arange(n) % 3 + 1.0)
    for f in GROUP_FIELDS:
        cols[f] = np.ones(n)
    cols[field] = np.asarray(groups, dtype=float)
    # the list may be a sorted / sampled / filtered table: its row labels need not be 0..N-1
    k = rng.randrange(1000)
    return cryomotl.Motl(motlutil.vary_columns(motlutil.vary_index(motlutil.df_from_cols(cols), k), k // 8)), cols


def run_clean(motl, cols, metric, scores, d, field, keep_greater):
    motl.df[metric] = np.asarray(scores, dtype=float)
    # the flag in one of its truth-value spellings (a computed numpy.bool_, 0 / 1): picked from the data, deterministically
    k = int(abs(float(np.sum(motl.df["x"].to_numpy(dtype=float)))) * 8) % 4
    flag = [bool(keep_greater), np.bool_(keep_greater), int(bool(keep_greater)), np.array([keep_greater])[0]][k]
    motl.clean_by_distance(d, field, metric_id=metric, keep_greater=flag)
    return motl.df[TAG].to_numpy(dtype=float).tolist()


# ---- L2: exact cases -------------------------------------------------------------------------------
def exact_clean(ctx, rec, variant):
    rng = __import__("random").Random(variant)
    n = len(rec["pos"])
    field = GROUP_FIELDS[variant % 3]
    keep_greater = (variant // 3) % 2 == 0
    metric = "score" if (variant // 6) % 2 == 0 else "geom1"
    gmap = {1: rng.choice([1, 3, 12, 0]), 2: rng.choice([2, 5, 40])}      # 0 is a group number like any other
    if variant % 5 == 0:
        gmap = {1: 240115, 2: 240116}           # large consecutive group ids
    groups = [gmap[g] for g in rec["grp"]]
    # rank = index (1 = best)
    base = [10.0 - i for i in range(n)] if keep_greater else [0.5 + i for i in range(n)]
    order = list(range(n))
    rng.shuffle(order)                      # table order is independent of the rank
    off = np.array([rng.randint(-3, 20), rng.randint(0, 9), rng.randint(5, 9)], dtype=float)
    pos = [list(np.array(rec["pos"][i], dtype=float) + off) for i in order]
    ids = [i + 1 for i in order]
    case = {"kind": "exact_clean", "rec": rec, "variant": variant}
    sig = {"op": "clean_by_distance", "layer": "L2"}
    motl, cols = make_motl(pos, [groups[i] for i in order], None, field, rng, ids=ids, sid_mode=(variant // 4) % 3)
    out, err = core.call_guarded(run_clean, motl, cols, metric, [base[i] for i in order], math.sqrt(rec["d2"]), field,
                                 keep_greater)
    ctx.ran(case)
    if err is not None:
        ctx.fail("call_raises", err, case, sig)
        return
    got = sorted(int(v) for v in out)
    if got != sorted(rec["kept"]):
        ctx.fail("C07_Valid", "kept %s, the unique valid set is %s" % (got, sorted(rec["kept"])), case, sig)


def exact_peaks(ctx, rec, variant):
    from cryocat import tmana
    rng = __import__("random").Random(variant)
    n = len(rec["pos"])
    shape = (rng.randint(5, 7), rng.randint(5, 7), rng.randint(3, 4))
    off = (rng.randint(1, shape[0] - 3), rng.randint(1, shape[1] - 3), rng.randint(0, shape[2] - 1))
    scores = np.zeros(shape)
    # background below the threshold, plateau-free; every third case uses the threshold 0 with a negative background
    thr = 0.0 if variant % 3 == 0 else (1.0 if variant % 3 == 1 else -0.5)
    scores += np.arange(scores.size).reshape(shape) * 1e-4 + (thr - 0.5)
    vox = [tuple(int(rec["pos"][i][k] + off[k]) for k in range(3)) for i in range(n)]
    for i, v in enumerate(vox):
        scores[v] = 5.0 - 0.25 * i
    numbering = variant % 2
    m = 7
    alist = np.array([[rng.randint(-180000, 180000) / 1000.0, rng.randint(0, 180000) / 1000.0,
                       rng.randint(-180000, 180000) / 1000.0] for _ in range(m)])
    amap = np.array([[[rng.randint(0, m - 1) + numbering for _ in range(shape[2])] for _ in range(shape[1])]
                     for _ in range(shape[0])], dtype=float)
    case = {"kind": "exact_peaks", "rec": rec, "variant": variant}
    sig = {"op": "scores_extract_particles", "layer": "L2"}
    tomo = [3, 0, 240115][(variant // 2) % 3]
    out, err = core.call_guarded(tmana.scores_extract_particles, scores, amap, alist, tomo, math.sqrt(rec["d2"]),
                                 scores_threshold=thr, angles_numbering=numbering)
    ctx.ran(case)
    if err is not None:
        ctx.fail("call_raises", err, case, sig)
        return
    df = out.df
    got = sorted((int(r["x"]) - 1, int(r["y"]) - 1, int(r["z"]) - 1) for _, r in df.iterrows())
    exp = sorted(vox[i - 1] for i in rec["kept"])
    if got != exp:
        ctx.fail("C07_Valid", "peaks at voxels %s, the unique valid set is %s" % (got, exp), case, sig)
        return
    for _, r in df.iterrows():
        v = (int(r["x"]) - 1, int(r["y"]) - 1, int(r["z"]) - 1)
        if abs(r["score"] - scores[v]) > 1e-9:
            ctx.fail("C07_PeakPayload", "score %r at voxel %s, map holds %r" % (r["score"], v, scores[v]), case, sig)
        row = alist[int(amap[v]) - numbering]
        if max(abs(r["phi"] - row[0]), abs(r["theta"] - row[1]), abs(r["psi"] - row[2])) > 1e-9:
            ctx.fail("C07_PeakPayload", "angles (%r,%r,%r) at voxel %s, list row is %s" % (
                r["phi"], r["theta"], r["psi"], v, row.tolist()), case, sig)
        if int(r["tomo_id"]) != tomo:
            ctx.fail("C07_PeakPayload", "tomo_id %r" % r["tomo_id"], case, sig)


# ---- L3: random real-valued cases -------------------------------------------------------------------
def gen_clean_case(rng, idx, nmax):
    n = rng.choice([1, 2, 3, rng.randint(4, 30), rng.randint(10, nmax)])
    ngroups = rng.randint(1, 4)
    d = rng.choice([rng.uniform(0.5, 3.0), rng.uniform(3.0, 12.0), rng.uniform(12.0, 40.0)])
    ncl = max(1, n // rng.randint(2, 8))
    centers = [[rng.uniform(0, 60) for _ in range(3)] for _ in range(ncl)]
    spread = d * rng.choice([0.3, 0.7, 1.2, 3.0])
    pos = []
    for _ in range(n):
        c = rng.choice(centers)
        pos.append([round(c[k] + rng.gauss(0, spread), 3) for k in range(3)])
    if n >= 2 and rng.random() < 0.3:
        # the same particle picked twice (merged picking runs): exactly coincident complete positions, put on the 1/8
        # lattice so that any split into x + shift reproduces them bit for bit
        for _ in range(rng.randint(1, max(1, n // 4))):
            i, j = rng.sample(range(n), 2)
            pos[i] = [round(v * 8) / 8.0 for v in pos[i]]
            pos[j] = list(pos[i])
    if rng.random() < 0.3:
        # coarse metric values (rounded scores, class-like integers, a constant column): ties inside a group
        pool = [round(rng.uniform(0, 1), 2) for _ in range(max(1, n // rng.randint(2, 6)))]
        scores = [rng.choice(pool) for _ in range(n)]
    else:
        scores = rng.sample(range(1, 100000), n)
        scores = [s / 1000.0 for s in scores]
    if rng.random() < 0.25:
        base = rng.choice([100000, 240115, 999998, 1000000])      # date-coded / running ids: large and consecutive
        gvals = [base + i for i in range(ngroups)]
    else:
        gvals = rng.sample([0, 1, 2, 3, 5, 8, 13, 21], ngroups)
    groups = [rng.choice(gvals) for _ in range(n)]
    return {"kind": "clean", "id": idx, "pos": pos, "scores": scores, "groups": groups, "d": round(d, 4),
            "field": rng.choice(GROUP_FIELDS), "keep_greater": rng.random() < 0.5,
            "metric": rng.choice(["score", "score", "geom3"]), "seed": rng.randint(0, 10 ** 6)}


def brute_relations(pos, d):
    """close pairs by brute force; returns (adjacency lists 1-based, near_tie flag)"""
    p = np.asarray(pos, dtype=float)
    n = p.shape[0]
    if n == 0:
        return [], False
    diff = p[:, None, :] - p[None, :, :]
    dist = np.sqrt((diff ** 2).sum(axis=2))
    np.fill_diagonal(dist, np.inf)
    tie = bool(np.any(np.abs(dist - d) < 1e-6 * max(d, 1.0)))
    adj = [[int(j) + 1 for j in np.nonzero(dist[i] < d)[0]] for i in range(n)]
    return adj, tie


def exec_clean_case(ctx, case):
    """Runs clean_by_distance on the case, returns the trace record (or None when discarded / raised)."""
    rng = __import__("random").Random(case["seed"])
    pos = case["pos"]
    n = len(pos)
    adj, tie = brute_relations(pos, case["d"])
    if tie:
        ctx.discard("distance within 1e-6 of the radius")
        return None
    sc = case["scores"]
    distinct = sorted(set(sc), reverse=case["keep_greater"])
    dense = {v: k + 1 for k, v in enumerate(distinct)}
    rank = [dense[v] for v in sc]            # equal metric values share a rank
    ids = rng.sample(range(1, 10 * n + 10), n)
    motl, cols = make_motl(pos, case["groups"], None, case["field"], rng, ids=ids, sid_mode=case["seed"] % 3)
    out, err = core.call_guarded(run_clean, motl, cols, case["metric"], sc, case["d"], case["field"], case["keep_greater"])
    ctx.ran(case, nontrivial=n > 1)
    sig = {"op": "clean_by_distance", "layer": "L3"}
    if err is not None:
        ctx.fail("call_raises", err, case, sig)
        return None
    idx_of = {ids[i]: i for i in range(n)}
    kept = [0] * n
    extra = 0
    for v in out:
        i = idx_of.get(int(v)) if float(v).is_integer() else None
        if i is None or kept[i]:
            extra += 1
        else:
            kept[i] = 1
    return {"kind": "clean", "n": n, "grp": case["groups"], "rank": rank, "nbr": adj, "kept": kept, "extra": extra,
            "peaks": [], "alist": [], "numbering": 0, "order": "zxz"}


def gen_peaks_case(rng, idx, smax):
    shape = [rng.randint(6, smax) for _ in range(3)]
    return {"kind": "peaks", "id": idx, "shape": shape, "seed": rng.randint(0, 10 ** 6),
            "numbering": rng.randint(0, 1), "order": rng.choice(["zxz", "zzx"]),
            "nsup": rng.choice([5, 40, 150, 400]), "k": rng.randint(1, 40), "blobs": rng.randint(0, 6),
            "as_file": rng.random() < 0.5, "thr_mode": rng.choice(["quantile", "quantile", "zero", "negative"]),
            "nangles": 23, "map_form": rng.choice(["c", "c", "f", "view", "em", "mrc", "ro", "f32"])}


def exec_peaks_case(ctx, case):
    from cryocat import tmana
    rs = np.random.RandomState(case["seed"])
    shape = tuple(case["shape"])
    scores = rs.random_sample(shape)
    gx, gy, gz = np.meshgrid(*[np.arange(s) for s in shape], indexing="ij")
    for _ in range(case["blobs"]):
        c = [rs.uniform(0, s) for s in shape]
        w = rs.uniform(1.0, 3.5)
        scores += rs.uniform(0.5, 2.0) * np.exp(-((gx - c[0]) ** 2 + (gy - c[1]) ** 2 + (gz - c[2]) ** 2) / (2 * w * w))
    form = case.get("map_form", "c")
    if form in ("em", "mrc", "f32"):
        scores = scores.astype(np.float32).astype(np.float64)        # what a float32 file / array can hold
    flat = np.sort(scores.ravel())
    nsup = min(case["nsup"], scores.size - 1)
    if np.any(np.diff(flat[-nsup - 2:]) < 1e-9):
        ctx.discard("score plateau among the supra-threshold voxels")
        return None
    threshold = float((flat[-nsup - 1] + flat[-nsup]) / 2)
    if case.get("thr_mode", "quantile") != "quantile":
        # shift the map so that the same voxels are selected by a threshold of exactly 0 (or a negative one)
        target = 0.0 if case["thr_mode"] == "zero" else -0.25
        scores = scores - threshold + target
        threshold = target
    diameter = math.sqrt(case["k"] + 0.5)        # never the distance of two voxels (those are sqrt of integers)
    if case["id"] % 5 == 0:
        # a whole number of voxels (int or float): the tie is exact - two voxels at exactly the diameter are NOT
        # "farther apart than the diameter", the weaker one must go (distances 1, 2, 3 are computed exactly)
        diameter = [1, 1.0, 2, 3.0, 1][(case["id"] // 5) % 5]
    m = case.get("nangles", 23)          # fine angular sampling: lists of tens of thousands of orientations
    alist = np.round(np.column_stack([rs.uniform(-180, 180, m), rs.uniform(0, 180, m), rs.uniform(-180, 180, m)]), 3)
    amap = rs.randint(0, m, size=shape).astype(float) + case["numbering"]
    if m > 32767:
        # the strongest voxels (the global maximum is always a peak) point at the END of a long list: entries beyond
        # 2^15 must be looked up, not wrapped
        top = np.argsort(scores.ravel())[::-1][:4]
        for j, flat_i in enumerate(top):
            amap[np.unravel_index(int(flat_i), shape)] = case["numbering"] + m - 1 - j
    sig = {"op": "scores_extract_particles", "layer": "L3", "order": case["order"],
           "list": "file" if (case["as_file"] or case["order"] == "zzx") else "array"}
    if case["as_file"] or case["order"] == "zzx":
        # a zzx list is always passed as a file: the loader honours angles_order only for files (see DESIGN C07)
        # one path for the whole run, rewritten for every call with other content / another column order: a call
        # must read the file it is given now
        path = os.path.join(ctx.workdir, "angles_shared.csv" if case["id"] % 4 else "angles_%d.csv" % case["id"])
        with open(path, "w") as fh:
            for r in alist:
                fh.write("%.3f,%.3f,%.3f\n" % (r[0], r[1], r[2]))
        alist_arg = path
    else:
        alist_arg = alist
    if form in ("em", "mrc", "f32") and case.get("thr_mode", "quantile") != "quantile":
        scores = scores.astype(np.float32).astype(np.float64)        # the shift above must survive the file too
        if np.any(np.diff(np.sort(scores.ravel())[-nsup - 2:]) < 1e-9) or not (np.sort(scores.ravel())[-nsup - 1] < threshold < np.sort(scores.ravel())[-nsup]):
            ctx.discard("float32 file would change the supra-threshold set")
            return None
    sig["map_form"] = form
    scores_arg, amap_arg = map_args(ctx, case, form, scores, amap)
    guard = argguard.Guard(score_map=scores_arg, angle_map=amap_arg, angle_list=alist_arg)
    out, err = core.call_guarded(tmana.scores_extract_particles, scores_arg, amap_arg, alist_arg, 7, diameter,
                                 scores_threshold=threshold, angles_numbering=case["numbering"],
                                 angles_order=case["order"])
    ctx.ran(case)
    if err is not None:
        ctx.fail("call_raises", err, case, sig)
        return None
    why = guard.changed()
    if why:
        # the peaks are defined against the maps the caller holds: a call that rewrites them answers about other maps
        ctx.fail("C07_PeakPayload", "scores_extract_particles changed its argument (%s)" % why, case, sig)
        return None
    sup = np.argwhere(scores > threshold)
    n = sup.shape[0]
    vals = scores[sup[:, 0], sup[:, 1], sup[:, 2]]
    order = np.argsort(-vals)
    rank = [0] * n
    for r, i in enumerate(order):
        rank[int(i)] = r + 1
    diff = sup[:, None, :].astype(float) - sup[None, :, :].astype(float)
    dist = np.sqrt((diff ** 2).sum(axis=2))
    np.fill_diagonal(dist, np.inf)
    adj = [[int(j) + 1 for j in np.nonzero(dist[i] <= diameter)[0]] for i in range(n)]
    index = {tuple(int(v) for v in sup[i]): i for i in range(n)}
    kept = [0] * n
    extra = 0
    peaks = []
    if out is not None:
        for _, r in out.df.iterrows():
            xyz = (r["x"] + r["shift_x"], r["y"] + r["shift_y"], r["z"] + r["shift_z"])
            if not all(float(v).is_integer() for v in xyz):
                extra += 1
                continue
            v = tuple(int(c) - 1 for c in xyz)           # 1-based position -> 0-based voxel
            inside = all(0 <= v[k] < shape[k] for k in range(3))
            i = index.get(v)
            if i is None or kept[i]:
                extra += 1
                continue
            kept[i] = 1
            peaks.append({"score": int(round(r["score"] * 1e6)), "vscore": int(round(float(scores[v]) * 1e6)),
                          "ang": [int(round(r["phi"] * 1e3)), int(round(r["theta"] * 1e3)), int(round(r["psi"] * 1e3))],
                          "aidx": int(amap[v]), "above": 1 if (inside and scores[v] > threshold) else 0})
    return {"kind": "peaks", "n": n, "grp": [1] * n, "rank": rank, "nbr": adj, "kept": kept, "extra": extra,
            "peaks": peaks, "alist": [[int(round(a * 1e3)) for a in row] for row in alist.tolist()],
            "numbering": case["numbering"], "order": case["order"]}


def map_args(ctx, case, form, scores, amap):
    """The score and angle maps in one of the accepted input forms: C-ordered array, Fortran-ordered array, a
    non-contiguous view, or an EM / MRC file (written by the independent writers of mbt/parsers.py)."""
    from .. import parsers
    if form == "f":
        return np.asfortranarray(scores), np.asfortranarray(amap)
    if form == "ro":                                  # maps the caller protects against writing (e.g. memory-mapped)
        a, b = scores.copy(), amap.copy()
        a.flags.writeable = False
        b.flags.writeable = False
        return a, b
    if form == "f32":                                 # single-precision score map, integer-typed angle map
        return scores.astype(np.float32), amap.astype(np.int32 if case["id"] % 2 else np.int64)
    if form == "view":
        return (np.ascontiguousarray(scores.transpose(2, 1, 0)).transpose(2, 1, 0),
                np.ascontiguousarray(amap.transpose(2, 1, 0)).transpose(2, 1, 0))
    if form in ("em", "mrc"):
        ps = os.path.join(ctx.workdir, "scores_%d.%s" % (case["id"], form))
        pa = os.path.join(ctx.workdir, "angles_%d.%s" % (case["id"], form))
        writer = parsers.write_em if form == "em" else parsers.write_mrc
        dims = tuple(int(v) for v in scores.shape)
        writer(ps, dims, "float32", [float(v) for v in scores.ravel(order="F")])      # x fastest
        writer(pa, dims, "float32", [float(v) for v in amap.ravel(order="F")])
        return ps, pa
    return scores, amap


def judge(ctx, cases, traces, name):
    if not traces:
        return
    wd = ctx.sub(name)
    path = os.path.join(wd, "traces.ndjson")
    with open(path, "w") as fh:
        for t in traces:
            fh.write(json.dumps(t) + "\n")
    res = ctx.tlc("SuppressTrace", "SPECIFICATION TraceSpec\nCONSTRAINT Report\n", name=name,
                  env={"TRACE_FILE": path}, workers=1)
    verdicts = {v["tid"]: v for v in res.tagged.get("VERDICT", [])}
    if len(verdicts) != len(traces):
        raise core.MachineryError("SuppressTrace: %d verdicts for %d traces\n%s" % (len(verdicts), len(traces), res.stdout[-1500:]))
    for i, case in enumerate(cases):
        v = verdicts[i + 1]
        if v["clause"] == "malformed_trace":
            raise core.MachineryError("driver produced a malformed trace for case %r" % (case.get("id"),))
        if not v["ok"]:
            sig = {"op": "clean_by_distance" if case["kind"] == "clean" else "scores_extract_particles", "layer": "L3"}
            if case["kind"] == "peaks":
                sig["order"] = case["order"]
            ctx.fail(v["clause"], "recorded call rejected by SuppressTrace (%s)" % v["clause"], case, sig)


def run_l3(ctx, cases):
    done, traces = [], []
    for case in cases:
        t = exec_clean_case(ctx, case) if case["kind"] == "clean" else exec_peaks_case(ctx, case)
        if t is not None:
            done.append(case)
            traces.append(t)
    judge(ctx, done, traces, "trace_%s_%d" % (cases[0]["kind"] if cases else "x", len(ctx.tlc_runs)))


def replay(ctx, case):
    k = case["kind"]
    if k == "exact_clean":
        exact_clean(ctx, case["rec"], case["variant"])
    elif k == "exact_peaks":
        exact_peaks(ctx, case["rec"], case["variant"])
    elif k in ("clean", "peaks"):
        run_l3(ctx, [case])
    else:
        raise core.MachineryError("unknown case kind %r" % k)


def run(ctx):
    ctx.rule = ("L2: every lattice configuration TLC enumerates (N points on a 3x3 grid, 2 groups, radii without "
                "distance ties) with the unique valid kept-set computed by the spec, replayed through clean_by_distance "
                "(3 grouping fields, both score directions) and, for single-group cases, through scores_extract_particles; "
                "L3: random clustered lists (1..400 particles, 1..4 groups) and random plateau-free score maps whose "
                "brute-force relations and outputs are judged by SuppressTrace. distinct = distinct case descriptions")
    ctx.assumptions += ["close relations, ranks and the supra-threshold set are computed by brute force in the driver",
                        "inputs with a pair distance within 1e-6 of the radius are discarded; tied metric values are generated for clean_by_distance (judged by the predicate), score maps are plateau-free",
                        "array angle lists with angles_order='zzx' are not generated (pass-through is intended, DESIGN C07)"]
    # L1 abstract: all relations x groupings
    n_abs = ctx.pick(4, 5)
    ctx.tlc("Suppress", cfg(n_abs, 0, [0], "none"), name="abstract")
    ctx.exhaustive["L1_abstract_N%d" % n_abs] = True
    # L1 + emission, exact lattice
    n_ex = ctx.pick(3, 4)
    res = ctx.tlc("Suppress", cfg(n_ex, 3, [3, 6, 7], "case", invs=["C07_GreedyValid", "C07_ValidUnique"]),
                  name="exact", workers=1)
    recs = res.records
    ctx.extra["exact_cases_emitted"] = len(recs)
    keyed = sorted(recs, key=lambda r: core.stable_hash([ctx.seed, r]))
    nclean = ctx.pick(700, 8000)
    for i, rec in enumerate(keyed[:nclean]):
        exact_clean(ctx, rec, (ctx.seed * 13 + i) % 9973)
    single = [r for r in keyed if len(set(r["grp"])) == 1]
    npk = ctx.pick(300, 2500)
    for i, rec in enumerate(single[:npk]):
        exact_peaks(ctx, rec, (ctx.seed * 17 + i) % 9973)
    ctx.exhaustive["L2_exact"] = nclean >= len(keyed) and npk >= len(single)
    ctx.extra["exact_replayed"] = min(nclean, len(keyed)) + min(npk, len(single))
    # L3
    nmax = ctx.pick(120, 400)
    cases = [gen_clean_case(ctx.rng, i + 1, nmax) for i in range(ctx.pick(250, 1500))]
    for a in range(0, len(cases), 1000):
        run_l3(ctx, cases[a:a + 1000])
    pcases = [gen_peaks_case(ctx.rng, i + 1, ctx.pick(16, 40)) for i in range(ctx.pick(60, 300))]
    for k, c in enumerate(pcases[:ctx.pick(4, 8)]):
        # angle-map entries beyond 2^15 and 2^16 / 2 (a map of 40^3 voxels can index 64000 orientations)
        c["nangles"] = [40000, 64000, 33000, 50000][k % 4]
        c["nsup"] = min(c["nsup"], 150)
    for a in range(0, len(pcases), 200):
        run_l3(ctx, pcases[a:a + 200])

"""C01 - EM particle-list files.  EmMotlIO.tla is model-checked in a small scope (L1: 4 abstract fields, all 24
column orders) and is the oracle of the binding layer (L2): for the 20 real fields TLC computes, for every table it
is given (the 24 orders of the small scope lifted onto 4 column positions, seeded random column permutations with
N up to 50 / 400, random walks of swap / write / load / adopt), the EM document that must be on disk and the table
that must be loaded.  The driver only interprets tokens into floats, builds the DataFrame in the stated column order,
calls Motl.write_out(.., 'emmotl') / EmMotl.write_out / Motl.load, parses the bytes with the independent reader of
mbt/parsers.py and compares field by field with what TLC emitted."""
import json
import math
import os
import pathlib
import random

import numpy as np

from .. import argguard, core, motlutil, parsers
from ..motlutil import FIELDS

HOLE = 1000000          # wire code of the missing value (EmMotlIO.tla HoleCode)
NUMBASE = 2000000       # wire code NUMBASE + n of the small integer n written by a public method (EmMotlIO.tla NumBase)
PROPS = ["C01_FileLayout", "C01_RoundTrip", "C01_OrderIrrelevantStep", "C01_PathsAgree", "C01_WriteKeepsTable",
         "C01_ResultsPersist", "C01_ObjectsIndependent"]
INVS = ["TypeOK", "C01_OrderIrrelevant", "C01_Idempotent"]
ALL_OPS = ["swap", "write_motl", "write_emmotl", "load", "adopt", "droprow", "duprows"]
DERIVE_OPS = ["derive", "edit_derived", "edit_source", "write_derived"]
ALL_HDR = ["absent", "none", "empty", "other"]
IO_OPS = ["write_motl", "write_emmotl", "load"]

# float64 values that exercise the narrowing: not float32-representable, large, tiny, subnormal in float32, integers
# beyond 2^24, negative; every one finite and inside the float32 range (the quantifier)
POOL = [0.1, -2.7, 1.0 / 3.0, 16777217.0, -16777219.0, 3.4e38, -3.4e38, 1.0e-40, -2.5e-42, 1.17549435e-38, 123456.789,
        -0.000123456789, 2147483649.0, 1.0000000596046448, 65504.5, 359.99999999, -179.5, 7.0, 1.0, -1.0, 255.0,
        1e10, 5e-324 + 1e-30, 299792458.123, 1e-9, -1e-9, -1e-30, 2147483648.0, 4294967297.0, 9007199254740992.0,
        16777216.0, 33554433.0]
# the float32 extremes themselves and float64 values that round to them: largest finite float32 and its negative, the
# value below it, doubles just under the maximum (rounding up to it / down to its neighbour), smallest normal and
# smallest subnormal float32 and doubles that round to those
FMAX = 3.4028234663852886e38
POOL += [FMAX, -FMAX, 3.40282346e38, -3.40282346e38, 3.4028232635611926e38, 3.402823e38, -3.4028233e38, 3.4027e38,
         1.1754943508222875e-38, -1.1754943508222875e-38, 1.17549440e-38, 1.401298464324817e-45, -1.401298464324817e-45,
         1.0e-45, 2.0e-45, 1.1754942e-38]
INT_POOL = [16777217, 16777216, 33554433, 2147483649, 4294967297, 2 ** 40 + 1, 2 ** 53 - 1, 0 - 16777219, 1, 2, 3, 255, 256, 257,
            32768, 65535]


def cfg(canon, init, ops, pos, depth, mode, writer="byname", emit=False, invs=True, props=PROPS, view=True, hdrs=ALL_HDR,
        route=False, pfs=("str",), tss=("emmotl",), lts=("omitted",)):
    lines = ["SPECIFICATION Spec", "CONSTANTS", " Canon <- %s" % canon, " InitTables <- %s" % init,
             " Ops = {%s}" % ", ".join('"%s"' % o for o in ops), " HdrSet = {%s}" % ", ".join('"%s"' % h for h in hdrs),
             " PfSet = {%s}" % ", ".join('"%s"' % x for x in pfs), " TsSet = {%s}" % ", ".join('"%s"' % x for x in tss),
             " LtSet = {%s}" % ", ".join('"%s"' % x for x in lts),
             " SwapPos <- %s" % pos, " MaxDepth = %d" % depth,
             ' EmitMode = "%s"' % mode, ' Writer = "%s"' % writer]
    if invs:
        lines += ["INVARIANT %s" % i for i in INVS]
    lines += ["PROPERTY %s" % p for p in props]
    if route == "derive":
        lines += ["ACTION_CONSTRAINT DeriveOnly"]
    elif route:
        lines += ["ACTION_CONSTRAINT RouteOnly"]
    if emit:
        lines += ["ACTION_CONSTRAINT EmitStep"]
    if mode == "hist":
        lines += ["CONSTRAINT EmitDeriveHist" if route == "derive" else "CONSTRAINT EmitRouteHist" if route else "CONSTRAINT EmitHist"]
    elif view:
        lines += ["VIEW View"]
    return "\n".join(lines) + "\n"


# ---- interpretation gamma ------------------------------------------------------------------------
def token_values(vseed, ntok, int_tokens=(), zero_tokens=(), fixed=None):
    """token id -> float64; distinct tokens have distinct, non-zero float32 images.  int_tokens get integer values
    (identifiers, also beyond 2^24 and 2^31); zero_tokens are 0.0 / -0.0 (an all-zero row; no distinctness there)."""
    rng = random.Random(vseed)
    pool = POOL[:]
    rng.shuffle(pool)
    ipool = INT_POOL[:]
    rng.shuffle(ipool)
    vals = {}
    seen = {0.0}
    fixed = fixed or {}
    for t in range(1, ntok + 1):
        if t in fixed:
            vals[t] = float(fixed[t])              # identifier values set on purpose (0, large consecutive, == count)
            continue
        if t in zero_tokens:
            vals[t] = 0.0 if t % 2 else -0.0
            continue
        while True:
            u = rng.random()
            if t in int_tokens:
                v = float(ipool.pop()) if ipool and u < 0.5 else float(rng.randint(1, 5000))
            elif pool and u < 0.35:
                v = pool.pop()
            elif u < 0.55:
                v = float(rng.randint(-5000, 5000)) + rng.choice([0.0, 0.5, 0.25])
            elif u < 0.8:
                v = rng.uniform(-400.0, 400.0)
            else:
                v = rng.choice([-1, 1]) * 10.0 ** rng.uniform(-30, 37) * rng.uniform(1, 9.99)
            img = parsers.f32(v)
            if img not in seen and math.isfinite(img):
                seen.add(img)
                vals[t] = v
                break
    return vals


def interp(w, vals):
    if w == HOLE:
        return float("nan")
    if w >= NUMBASE:
        return float(w - NUMBASE)
    if w > 0:
        return vals[w]
    if w < 0:
        return parsers.f32(vals[-w])
    return 0.0


def ntokens(obj):
    """largest token id mentioned in a wire table / document"""
    m = 0
    for part in obj.values():
        if not isinstance(part, dict):
            continue
        rows = part.get("cells")
        flat = part.get("payload")
        if rows is not None:
            for r in rows:
                for w in r:
                    if abs(w) < HOLE:
                        m = max(m, abs(w))
        if flat is not None:
            for w in flat:
                if abs(w) < HOLE:
                    m = max(m, abs(w))
    return m


def build_df(tbl, vals, variant):
    """The DataFrame with columns in the order tbl.order (three ways of building one)."""
    import pandas as pd
    order = list(tbl["order"])
    rows = [[interp(w, vals) for w in r] for r in tbl["cells"]]
    how = variant % 4
    if how == 3:
        # a Fortran-ordered, read-only block (a view handed on from elsewhere)
        block = np.asfortranarray(np.array(rows, dtype=float).reshape(len(rows), len(order)))
        block.setflags(write=False)
        return pd.DataFrame(block, columns=order, copy=False)
    if how == 0:
        return pd.DataFrame({name: [row[i] for row in rows] for i, name in enumerate(order)})
    if how == 1:
        return pd.DataFrame(np.array(rows, dtype=float).reshape(len(rows), len(order)), columns=order)
    canon_pos = [order.index(f) for f in FIELDS]
    df = pd.DataFrame(np.array([[row[p] for p in canon_pos] for row in rows], dtype=float).reshape(len(rows), 20),
                      columns=FIELDS)
    return df[order]


def build_table(tbl, vals, variant):
    """build_df + the row labels a sorted / sampled / filtered table carries (half of the cases: labels that are not
    0..N-1 in order).  The particle order is the table's row order, whatever the labels."""
    # k is kept in 0..3: only the row-label modes of the helper.  Its int64 identifier-column mode (k // 4 odd) is not
    # used here - C01 quantifies over float64 tables, and the token values include integer-valued floats beyond the
    # int64 range (e.g. 9e30), which that mode would overflow.
    return motlutil.vary_index(build_df(tbl, vals, variant), (variant // 4) % 4)


def order_class(order):
    return "canonical" if list(order) == FIELDS else "permuted"


# ---- comparison with what TLC emitted --------------------------------------------------------------
def same(a, b):
    return a == b and not (math.isnan(a) or math.isnan(b))


def check_file(ctx, path, disk, vals, case, sig):
    """Independent parse of the written file against the specification's document."""
    try:
        em = parsers.read_em(path)
    except parsers.FormatError as e:
        ctx.fail("C01_FileLayout", "not a valid EM volume: %s" % e, case, sig)
        return False
    except OSError as e:
        ctx.fail("C01_FileLayout", "no file written: %s" % e, case, sig)
        return False
    dims = [em["nx"], em["ny"], em["nz"]]
    if dims != list(disk["dims"]):
        ctx.fail("C01_FileLayout", "header dimensions (nx,ny,nz) = %s, expected %s (array shape 1 x N x 20)" % (
            dims, list(disk["dims"])), case, sig)
        return False
    if disk["mode"] != "f32" or em["dtype"] != "float32":
        ctx.fail("C01_FileLayout", "data type %s (code %d), expected float32" % (em["dtype"], em["code"]), case, sig)
        return False
    exp = [interp(w, vals) for w in disk["payload"]]
    got = em["data"]
    bad = [q for q in range(len(exp)) if not same(got[q], exp[q])]
    if bad:
        q = bad[0]
        nx = dims[0]
        ctx.fail("C01_FileLayout", "%d of %d payload values differ; first at particle %d field %s: file %r expected %r" % (
            len(bad), len(exp), q // nx + 1, FIELDS[q % nx], got[q], exp[q]), case, sig)
        return False
    return True


def check_table(ctx, df, tbl, vals, case, sig, clause, positional=False):
    """DataFrame against a specification table, by field name (and by column position when asked)."""
    rows = tbl["cells"]
    order = list(tbl["order"])
    if sorted(df.columns) != sorted(order):
        ctx.fail(clause, "columns %s are not the 20 fields" % list(df.columns), case, sig)
        return False
    if df.shape[0] != len(rows):
        ctx.fail(clause, "%d particles, expected %d" % (df.shape[0], len(rows)), case, sig)
        return False
    if positional and list(df.columns) != order:
        ctx.fail(clause, "column order %s expected %s" % (list(df.columns), order), case, sig)
        return False
    nbad = 0
    first = None
    for i, name in enumerate(order):
        col = df[name].to_numpy(dtype=float)
        for r, row in enumerate(rows):
            e = interp(row[i], vals)
            g = float(col[r])
            if math.isnan(e):
                ok = math.isnan(g)
            else:
                ok = same(g, e)
            if not ok:
                nbad += 1
                if first is None:
                    first = "particle %d field %s: got %r expected %r" % (r + 1, name, g, e)
    if nbad:
        ctx.fail(clause, "%d field values differ; first: %s" % (nbad, first), case, sig)
        return False
    return True


# ---- execution ------------------------------------------------------------------------------------------
def header_arg(op, path, variant):
    """The header= argument named by the op: None, {}, or the header of another motive-list file with op['hn']
    particles (written by the independent writer, read through the public EmMotl.read_in / the EmMotl constructor)."""
    from cryocat import cryomotl
    h = op.get("hdr", "absent")
    if h == "none":
        return None
    if h == "empty":
        return {}
    other = path + ".other.em"
    n = op["hn"]
    parsers.write_em(other, (20, n, 1), "float32", [float((7 * q) % 23) - 3.5 for q in range(20 * n)])
    try:
        if variant % 2:
            return cryomotl.EmMotl.read_in(other)[1]
        import emfile
        return emfile.read(other, header_only=True)[0]
    finally:
        os.remove(other)


def path_arg(op, path):
    """the file-name argument in the form the op names: str or pathlib.Path"""
    return pathlib.Path(path) if op.get("pf", "str") == "path" else path


def do_write(op, df, path, variant=0, hdr=None):
    from cryocat import cryomotl
    opname = op["name"]
    where = path_arg(op, path)
    if opname == "write_motl":
        ts = op.get("ts", "emmotl")
        if ts == "emmotl" and variant % 2:
            cryomotl.Motl(df).write_out(where)                     # motl_type defaults to "emmotl"
        else:
            cryomotl.Motl(df).write_out(where, ts)
    elif op.get("hdr", "absent") != "absent":
        cryomotl.EmMotl(df, header=hdr).write_out(where)
    elif variant % 4 == 3:
        # the list acquires its table (with its missing values) after construction
        m = cryomotl.EmMotl()
        m.df = df
        m.write_out(where)
    else:
        cryomotl.EmMotl(df).write_out(where)


def do_load(path, variant, op=None):
    from cryocat import cryomotl
    op = op or {}
    where = path_arg(op, path)
    lt = op.get("lt", "omitted" if variant % 2 == 0 else "emmotl")
    if lt == "omitted":
        return cryomotl.EmMotl(where) if variant % 3 == 0 else cryomotl.Motl.load(where)
    return cryomotl.Motl.load(where, "emmotl")


def tmp_path(ctx, tag):
    d = ctx.sub("files")
    return os.path.join(d, "m_%s_%d.em" % (tag, os.getpid()))


def other_calls(path, variant):
    """Dimension 'call history': unrelated public calls of the module between the call under test and the inspection of
    its result - another list (other N, other column order) is built, written through the other path, loaded again."""
    import pandas as pd
    from cryocat import cryomotl
    n = 1 + variant % 3
    cols = FIELDS[::-1] if variant % 2 else sorted(FIELDS)
    df = pd.DataFrame({c: [float(7 * k + i) + 0.5 for k in range(n)] for i, c in enumerate(cols)})
    other = path + ".aside.em"
    try:
        if variant % 2:
            cryomotl.Motl(df).write_out(other, "emmotl")
        else:
            cryomotl.EmMotl(df).write_out(other)
        cryomotl.Motl.load(other)
        cryomotl.EmMotl.read_in(other)
        cryomotl.Motl.create_empty_motl_df()
    finally:
        if os.path.exists(other):
            os.remove(other)


def special_tokens(tbl, variant):
    """(integer-valued tokens, zero tokens) of this case: identifier columns hold integers in a share of the cases,
    one row is all zero in another share"""
    ints, zeros = set(), set()
    order = list(tbl["order"])
    if variant % 5 == 4:
        for row in tbl["cells"]:
            for i, w in enumerate(row):
                if order[i] in motlutil.ID_COLUMNS and abs(w) < HOLE and w != 0:
                    ints.add(abs(w))
    if variant % 11 == 0 and tbl["cells"]:
        zeros = {abs(w) for w in tbl["cells"][variant % len(tbl["cells"])] if abs(w) < HOLE and w != 0}
    return ints, zeros


def id_values(tbl, variant):
    """Dimension 'identifier values': token -> value for identifier columns set on purpose in a share of the cases:
    a tomo_id column that is 0 throughout; subtomogram numbers that are large and consecutive (100000, 100001, ...);
    subtomogram numbers starting at 0 (the row index) with an object number equal to the particle count."""
    order = list(tbl["order"])
    n = len(tbl["cells"])
    fixed = {}

    def col(name, f):
        i = order.index(name)
        for r, row in enumerate(tbl["cells"]):
            if abs(row[i]) < HOLE and row[i] != 0:
                fixed[abs(row[i])] = f(r)
    mode = variant % 13
    if mode == 0:
        col("tomo_id", lambda r: 0)
    elif mode == 1:
        col("subtomo_id", lambda r: 100000 + r)
    elif mode == 2:
        col("subtomo_id", lambda r: r)
        col("object_id", lambda r: n)
    return fixed


def run_transition(ctx, tr, variant, vseed):
    """One stateless implementation test per transition TLC emitted."""
    op = tr["op"]["name"]
    case = {"kind": "transition", "pre": tr["pre"], "op": tr["op"], "post": tr["post"], "variant": variant,
            "vseed": vseed}
    ints, zeros = special_tokens(tr["pre"]["tbl"], variant) if "tbl" in tr["pre"] else (set(), set())
    fixed = id_values(tr["pre"]["tbl"], variant) if "tbl" in tr["pre"] else {}
    vals = token_values(vseed, max(ntokens(tr["pre"]), ntokens(tr["post"])), ints, zeros, fixed)
    path = tmp_path(ctx, "tr")
    path2 = path + ".second.em"
    for f in (path, path2):
        if os.path.exists(f):
            os.remove(f)
    if op in ("write_motl", "write_emmotl"):
        tbl = tr["pre"]["tbl"]
        sig = {"op": op, "order": order_class(tbl["order"]), "pf": tr["op"].get("pf", "str")}
        df = build_table(tbl, vals, variant)
        if ints:
            df = motlutil.int_ids(df)                   # identifier columns stored as int64
        hdr = None
        if tr["op"].get("hdr", "absent") != "absent":
            sig["hdr"] = tr["op"]["hdr"]
            hdr = header_arg(tr["op"], path, variant)
        guard = argguard.Guard(table=df, header=hdr)
        _, err = core.call_guarded(do_write, tr["op"], df, path, variant, hdr)
        if err is not None:
            ctx.fail("call_raises", "%s: %s" % (tr["op"], err), case, sig)
        else:
            if variant % 3 == 1:
                _, err2 = core.call_guarded(other_calls, path, variant)
                if err2 is not None:
                    ctx.fail("call_raises", "interleaved write / load of another list: %s" % err2, case, {"op": "aside"})
            ok = check_file(ctx, path, tr["post"]["disk"], vals, case, sig)
            why = guard.changed()
            if why:
                ctx.fail("C01_WriteKeepsTable", "the call changed its argument - %s" % why, case, dict(sig, argument_modified=True))
            elif ok and variant % 2 == 0:
                # the very same table object written once more, through the other path: the same document (PathsAgree)
                op2 = dict(tr["op"], name="write_emmotl" if op == "write_motl" else "write_motl", hdr="absent",
                           ts="na" if op == "write_motl" else "emmotl")
                _, err = core.call_guarded(do_write, op2, df, path2, variant // 2)
                sig2 = dict(sig, op=op2["name"], second_call=True)
                if err is not None:
                    ctx.fail("call_raises", "second write of the same table object (%s): %s" % (op2["name"], err), case, sig2)
                elif check_file(ctx, path2, tr["post"]["disk"], vals, case, sig2):
                    why = guard.changed()
                    if why:
                        ctx.fail("C01_WriteKeepsTable", "the second call changed its argument - %s" % why, case, sig2)
    elif op == "load":
        disk = tr["pre"]["disk"]
        sig = {"op": "load", "pf": tr["op"].get("pf", "str")}
        # the file is produced by the independent writer, so the reader is tested on its own
        parsers.write_em(path, tuple(disk["dims"]), "float32", [interp(w, vals) for w in disk["payload"]])
        m, err = core.call_guarded(do_load, path, variant, tr["op"])
        if err is not None:
            ctx.fail("call_raises", "load: %s" % err, case, sig)
        elif check_table(ctx, m.df, tr["post"]["mem"], vals, case, sig, "C01_RoundTrip") and variant % 3 != 2:
            # result persistence: another list (other N) is loaded / other calls are made, then the first result is
            # inspected again
            n2 = disk["dims"][1] % 3 + 1
            parsers.write_em(path2, (20, n2, 1), "float32", [float(q % 17) - 4.25 for q in range(20 * n2)])
            core.call_guarded(do_load, path2, variant + 1, tr["op"])
            if variant % 3 == 1:
                _, err2 = core.call_guarded(other_calls, path, variant)
                if err2 is not None:
                    ctx.fail("call_raises", "interleaved write / load of another list: %s" % err2, case, {"op": "aside"})
            check_table(ctx, m.df, tr["post"]["mem"], vals, case, dict(sig, reinspected=True), "C01_ResultsPersist")
    else:
        raise core.MachineryError("unexpected transition %r" % (tr["op"],))
    for f in (path, path2):
        if os.path.exists(f):
            os.remove(f)
    ctx.ran(case)


def run_behaviour(ctx, hist, variant, vseed):
    """One live list stepped through a complete behaviour of the specification."""
    from cryocat import cryomotl
    case = {"kind": "behaviour", "hist": hist, "variant": variant, "vseed": vseed}
    ntok = 0
    for st in hist:
        ntok = max(ntok, ntokens(st["post"]))
    vals = token_values(vseed, ntok, fixed=id_values(hist[0]["post"]["tbl"], variant))
    path = tmp_path(ctx, "bh")
    if os.path.exists(path):
        os.remove(path)
    cur = hist[0]["post"]["tbl"]
    if variant % 4 == 3 and any(st["op"]["name"] == "edit_source" for st in hist):
        # Motl(df) keeps the caller's DataFrame object: an in-place edit of that list needs a writeable table (the
        # read-only storage form is for the calls of the property - construct, write, load - only)
        variant += 1
    df0 = build_table(cur, vals, variant)
    motl, err = core.call_guarded(cryomotl.Motl, df0)
    if err is not None:
        ctx.fail("call_raises", "Motl(df): %s" % err, case, {"op": "build", "order": order_class(cur["order"])})
        ctx.ran(case)
        return
    loaded = None
    derived = None
    held = []            # (step, table object returned by an earlier load, copy taken when it was returned)
    adopted = False
    for i, st in enumerate(hist[1:], start=1):
        op = st["op"]["name"]
        post = st["post"]
        sig = {"op": op, "order": order_class(cur["order"])}
        if i > 1 and not recheck_held(ctx, held, i, case):
            break
        if op == "swap":
            a, b = st["op"]["i"] - 1, st["op"]["j"] - 1
            cols = list(motl.df.columns)
            cols[a], cols[b] = cols[b], cols[a]
            motl, err = core.call_guarded(lambda: cryomotl.Motl(motl.df[cols]))
            if err is not None:
                ctx.fail("call_raises", "step %d Motl(df[permuted]): %s" % (i, err), case, sig)
                break
            cur = post["tbl"]
            if not check_table(ctx, motl.df, cur, vals, case, sig, "constructor_accepts_any_order", positional=True):
                break
        elif op in ("droprow", "duprows"):
            # the list at hand is filtered / extended in place (m.df = m.df[mask], pd.concat) before it is written again
            import pandas as pd
            if op == "droprow":
                keep = [k for k in range(motl.df.shape[0]) if k != st["op"]["r"] - 1]
                motl.df = motl.df.iloc[keep] if (variant + i) % 2 else motl.df.iloc[keep].reset_index(drop=True)
            else:
                motl.df = pd.concat([motl.df, motl.df], ignore_index=bool((variant + i) % 2))
            cur = post["tbl"]
            # (the edit is plain pandas on the list at hand: a mismatch means an earlier call changed the list itself)
            if not check_table(ctx, motl.df, cur, vals, case, sig, "list_changed_by_earlier_call"):
                break
        elif op in ("write_motl", "write_emmotl"):
            hdr = st["op"].get("hdr", "absent")
            if hdr != "absent":
                sig["hdr"] = hdr
            guard = argguard.Guard(table=motl.df)
            if op == "write_emmotl" and hdr != "absent":
                _, err = core.call_guarded(lambda: cryomotl.EmMotl(motl.df, header=header_arg(st["op"], path, variant + i)).write_out(path_arg(st["op"], path)))
            elif op == "write_emmotl" and isinstance(motl, cryomotl.EmMotl):
                # the loaded (and possibly filtered / extended) object writes itself
                _, err = core.call_guarded(lambda: motl.write_out(path_arg(st["op"], path)))
            elif op == "write_motl" and type(motl) is cryomotl.Motl:
                _, err = core.call_guarded(lambda: motl.write_out(path_arg(st["op"], path), st["op"].get("ts", "emmotl")))
            elif op == "write_motl":
                # a loaded list is an EmMotl, whose write_out takes the path only; the Motl.write_out path of the
                # property is entered through a Motl built on the same table
                _, err = core.call_guarded(lambda: cryomotl.Motl(motl.df).write_out(path_arg(st["op"], path), st["op"].get("ts", "emmotl")))
            else:
                _, err = core.call_guarded(lambda: cryomotl.EmMotl(motl.df).write_out(path_arg(st["op"], path)))
            if err is not None:
                ctx.fail("call_raises", "step %d %s: %s" % (i, st["op"], err), case, sig)
                break
            if not check_file(ctx, path, post["disk"], vals, case, sig):
                break
            why = guard.changed()
            if why:
                ctx.fail("C01_WriteKeepsTable", "step %d: writing changed the list - %s" % (i, why), case, dict(sig, argument_modified=True))
                break
        elif op == "derive":
            # a second list object made from the list at hand
            form = st["op"]["form"]
            if form == "emmotl_of_emmotl" and not isinstance(motl, cryomotl.EmMotl):
                # (the copy constructor takes an EmMotl: the list at hand becomes one)
                made, err0 = core.call_guarded(lambda: cryomotl.EmMotl(motl.df))
                if err0 is not None:
                    ctx.fail("call_raises", "step %d derive (%s): EmMotl(table): %s" % (i, form, err0), case, dict(sig, form=form))
                    break
                motl = made
            fn = {"emmotl_of_emmotl": lambda: cryomotl.EmMotl(motl), "load_object": lambda: cryomotl.Motl.load(motl),
                  "emmotl_of_table": lambda: cryomotl.EmMotl(motl.df)}[form]
            derived, err = core.call_guarded(fn)
            sig["form"] = form
            if err is not None:
                ctx.fail("call_raises", "step %d derive (%s): %s" % (i, form, err), case, sig)
                break
            if not check_table(ctx, derived.df, post["der"], vals, case, sig, "C01_ObjectsIndependent") or \
                    not check_table(ctx, motl.df, post["tbl"], vals, case, sig, "C01_ObjectsIndependent"):
                break
        elif op in ("edit_derived", "edit_source"):
            target = derived if op == "edit_derived" else motl
            kind = st["op"]["kind"]
            edited_df = target.df                # the table object this step edits in place, on purpose
            _, err = core.call_guarded((lambda: target.renumber_particles()) if kind == "renumber" else
                                       (lambda: target.fill({"class": 5})))
            # the persistence expectation follows a deliberate edit: if the edited table is one an earlier load handed
            # out (the loaded list was adopted as the list at hand), its snapshot is refreshed; every other held
            # result must still be what it was
            held = [(n, df, df.copy(deep=True) if df is edited_df else snap) for n, df, snap in held]
            sig["kind"] = kind
            if err is not None:
                ctx.fail("call_raises", "step %d %s (%s): %s" % (i, op, kind, err), case, sig)
                break
            cur = post["tbl"]
            # the edited object holds the edit, the other object is what it was (no shared state)
            if not check_table(ctx, motl.df, post["tbl"], vals, case, dict(sig, object="source"), "C01_ObjectsIndependent") or \
                    not check_table(ctx, derived.df, post["der"], vals, case, dict(sig, object="derived"), "C01_ObjectsIndependent"):
                break
        elif op == "write_derived":
            _, err = core.call_guarded(lambda: (derived if isinstance(derived, cryomotl.EmMotl) else cryomotl.EmMotl(derived.df)).write_out(path_arg(st["op"], path)))
            if err is not None:
                ctx.fail("call_raises", "step %d write_derived: %s" % (i, err), case, sig)
                break
            if not check_file(ctx, path, post["disk"], vals, case, sig):
                break
        elif op == "load":
            loaded, err = core.call_guarded(do_load, path, variant + i, st["op"])
            if err is not None:
                ctx.fail("call_raises", "step %d load: %s" % (i, err), case, sig)
                break
            if not check_table(ctx, loaded.df, post["mem"], vals, case, sig, "C01_RoundTrip"):
                break
            held.append((i, loaded.df, loaded.df.copy(deep=True)))
            adopted = False
        elif op == "adopt":
            # go on with the loaded object itself; once the harness has edited it (droprow / duprows assign to its df),
            # a later adopt of the same loaded list takes a fresh object on the table as it was loaded
            if not adopted:
                motl = loaded
            else:
                made, err0 = core.call_guarded(lambda: cryomotl.EmMotl(held[-1][2].copy(deep=True)))
                if err0 is not None:
                    ctx.fail("call_raises", "step %d adopt: EmMotl(table): %s" % (i, err0), case, sig)
                    break
                motl = made
            adopted = True
            cur = post["tbl"]
            if not check_table(ctx, motl.df, cur, vals, case, sig, "C01_RoundTrip"):
                break
        else:
            raise core.MachineryError("unknown op %r" % (st["op"],))
    else:
        recheck_held(ctx, held, len(hist), case)
    ctx.ran(case)


def recheck_held(ctx, held, now, case):
    """A list that an earlier Motl.load returned must still be what it was after later calls."""
    for step_no, df, snap in held:
        same = list(df.columns) == list(snap.columns) and df.shape == snap.shape and \
            np.array_equal(df.to_numpy(dtype=float), snap.to_numpy(dtype=float), equal_nan=True)
        if not same:
            ctx.fail("C01_ResultsPersist", "the list loaded at step %d changed after later calls (inspected before step %d)" % (
                step_no, now), case, {"op": "load", "reinspected": True})
            return False
    return True


def replay(ctx, case):
    # the oracle is re-established (L1 on the smallest scope) so that a replay is a complete, self-describing check
    p0, _ = write_params(ctx, "none")
    ctx.tlc("MC_EmMotlIO", cfg("Canon4", "TinyInit", ALL_OPS, "AllPos", 3, "none"), name="replay_l1",
            env={"C01_PARAMS": p0}, workers=1)
    if case["kind"] == "transition":
        run_transition(ctx, case, case["variant"], case["vseed"])
    elif case["kind"] == "behaviour":
        run_behaviour(ctx, case["hist"], case["variant"], case["vseed"])
    else:
        raise core.MachineryError("unknown case kind %r" % case.get("kind"))


# ---- generators of the inputs handed to TLC ---------------------------------------------------------------------
def gen_case(rng, nmax, big=False, n=None):
    order = FIELDS[:]
    u = rng.random()
    if u < 0.04:
        pass                                    # canonical
    elif u < 0.08:
        order.reverse()
    elif u < 0.14:
        order.sort()                            # alphabetical, what a sorted dict gives
    elif u < 0.22:
        a, b = rng.sample(range(20), 2)         # a single transposition
        order[a], order[b] = order[b], order[a]
    else:
        rng.shuffle(order)
    if n is not None:
        pass
    elif big:
        n = rng.randint(100, 400)
    else:
        n = rng.choice([1, 1, 2, 3, 5, rng.randint(1, nmax), rng.randint(1, nmax)])
    nh = rng.choice([0, 0, 1, 2, rng.randint(0, 3 * n), rng.randint(0, 20)])
    holes = sorted({(rng.randint(1, n), rng.randint(1, 20)) for _ in range(nh)})
    if rng.random() < 0.03:
        holes = [(r, k) for r in range(1, n + 1) for k in range(1, 21)] if n <= 3 else holes    # all missing
    if rng.random() < 0.12:
        r = rng.randint(1, n)                   # one particle with every field missing (an all-NaN row)
        holes = sorted(set(holes) | {(r, k) for k in range(1, 21)})
    return {"order": order, "n": n, "holes": [list(h) for h in holes]}


def write_params(ctx, name, **kw):
    base = FIELDS[:]
    ctx.rng.shuffle(base)
    par = {"base": base, "pos": sorted(ctx.rng.sample(range(1, 21), 4)),
           "extra_holes": [[ctx.rng.randint(1, 2), ctx.rng.randint(1, 20)] for _ in range(ctx.rng.randint(0, 2))],
           "lift_k2": 1, "cases": [], "sim_cases": [], "sim_pos": sorted(ctx.rng.sample(range(1, 21), 5))}
    par.update(kw)
    path = os.path.join(ctx.sub("params"), name + ".json")
    with open(path, "w") as fh:
        json.dump(par, fh)
    return path, par


# ---- main ---------------------------------------------------------------------------------------------------------
def run(ctx):
    only = getattr(ctx, "only", None)
    ctx.rule = ("L1: EmMotlIO with 4 abstract fields, all 24 column orders, 1..2 particles, every placement of <=2 holes, "
                "all of swap/write(2 paths)/load/adopt to a depth bound; L2: for the 20 real fields every transition TLC "
                "explores from the 24 lifted orders, from seeded random column permutations (N in 1..50, thorough also "
                "100..400) and along simulated swap/write/load/adopt walks is replayed; expected file and loaded table are "
                "the ones TLC emitted. distinct = distinct (table, op, interpretation) cases")
    ctx.assumptions += ["interpretation gamma: tokens -> float64 values (finite, inside the float32 range, distinct non-zero "
                        "float32 images), Hole -> NaN; F32 is struct.pack('<f') rounding",
                        "independent EM reader/writer of mbt/parsers.py (512-byte header, machine code 6 = little endian, "
                        "type code 5 = float32, x fastest) is trusted",
                        "loaded tables are compared by field name, the column order of Motl.load(...).df is not constrained"]
    p0, _ = write_params(ctx, "none")
    env0 = {"C01_PARAMS": p0}

    # ---- L1: small scope, exhaustive
    depth = ctx.pick(2, 4)
    if not only or "small" in only:
        ctx.tlc("MC_EmMotlIO", cfg("Canon4", "SmallInit", ALL_OPS, "AllPos", depth, "none", pfs=ctx.pick(("str",), ("str", "path")),
                                   tss=("emmotl", "EMMOTL"), lts=("omitted", "emmotl")), name="small", env=env0,
                workers=4)
        ctx.exhaustive["L1_small_depth%d" % depth] = True
        # negative control: a writer that dumps the block positionally must violate the clauses
        res = ctx.tlc("MC_EmMotlIO", cfg("Canon4", "TinyInit", ALL_OPS, "AllPos", 2, "none", writer="positional",
                                         invs=False, props=["C01_FileLayout", "C01_RoundTrip"]),
                      name="negctl", env=env0, workers=1, must_hold=False)
        if not res.violated:
            raise core.MachineryError("negative control: the positional writer satisfies the C01 clauses - they are vacuous")
        ctx.extra["negative_control_violates"] = sorted(set(res.violated))

    if not only or "small" in only:
        # a second object derived from the list, edits of either, writes of either (C01_ObjectsIndependent)
        ctx.tlc("MC_EmMotlIO", cfg("Canon4", "DeriveSmallInit", ["write_emmotl", "load"] + DERIVE_OPS, "AllPos", ctx.pick(4, 5), "none",
                                   hdrs=["absent"]), name="small_derive", env=env0, workers=4)
        ctx.exhaustive["L1_derive_depth%d" % ctx.pick(4, 5)] = True

    n_tr = 0
    # ---- L2: the small scope lifted to the 20 real fields, every transition replayed
    if not only or "lift" in only:
        pl, par = write_params(ctx, "lift", lift_k2=ctx.pick(1, 2))
        res = ctx.tlc("MC_EmMotlIO", cfg("Canon20", "LiftInit", IO_OPS, "LiftPos", 2, "none", emit=True, hdrs=["absent", "other"],
                                         pfs=("path",), tss=("EMMOTL",), lts=("emmotl",)), name="lift",
                      env={"C01_PARAMS": pl}, workers=1)
        trs = res.records
        if len(trs) < 1000:
            raise core.MachineryError("lift run emitted only %d transitions" % len(trs))
        ctx.extra["lift_transitions_emitted"] = len(trs)
        for i, t in enumerate(trs):
            run_transition(ctx, t, variant=(ctx.seed * 7919 + i) % 100003, vseed=(ctx.seed * 104729 + i) % 1000003)
        n_tr += len(trs)
        ctx.exhaustive["L2_lift_transitions"] = True

    # ---- L2: seeded random 20-field permutations, N up to 50 (thorough: also 100..400)
    if not only or "cases" in only:
        total = ctx.pick(150, 4000)
        chunk = ctx.pick(150, 1000)
        done = 0
        ci = 0
        while done < total:
            k = min(chunk, total - done)
            cases = [gen_case(ctx.rng, 50) for _ in range(k)]
            if ci == 0:
                # exhaustive small sweep: every particle count 1..20 (thorough: 1..64 and the byte boundaries)
                sweep = list(range(1, ctx.pick(21, 65))) + ctx.pick([], [127, 128, 129, 255, 256, 257])
                cases = [gen_case(ctx.rng, 50, n=nn) for nn in sweep] + cases[len(sweep):]
            if not ctx.quick and ci == 0:
                cases += [gen_case(ctx.rng, 50, big=True) for _ in range(12)]
            pc, _ = write_params(ctx, "cases%d" % ci, cases=cases)
            res = ctx.tlc("MC_EmMotlIO", cfg("Canon20", "CaseInit", IO_OPS, "LiftPos", 2, "none", emit=True, invs=False,
                                             hdrs=["absent", "none", "other"] if ci % 2 else ["absent", "empty", "other"],
                                             pfs=("str",) if ci % 2 == 0 else ("path",),
                                             tss=("emmotl",) if ci % 2 == 0 else ("EmMotl",),
                                             lts=("omitted",) if ci % 2 == 0 else ("emmotl",)),
                          name="cases%d" % ci, env={"C01_PARAMS": pc}, workers=1)
            if len(res.records) < 2 * len(cases):
                raise core.MachineryError("cases run emitted %d transitions for %d tables" % (len(res.records), len(cases)))
            for i, t in enumerate(res.records):
                run_transition(ctx, t, variant=(ctx.seed * 31 + n_tr + i) % 100003,
                               vseed=(ctx.seed * 15485863 + n_tr + i) % 1000003)
            n_tr += len(res.records)
            done += k
            ci += 1
        ctx.exhaustive["L2_random_permutations"] = False
    ctx.extra["transitions_replayed"] = n_tr

    # ---- L2: behaviours
    if not only or "sim" in only:
        nsim = ctx.pick(16, 400)
        sim_cases = [gen_case(ctx.rng, 4) for _ in range(ctx.pick(30, 400))]
        for c in sim_cases:
            if c["n"] > 4:
                c["n"] = 4
                c["holes"] = [h for h in c["holes"] if h[0] <= 4]
        ps, _ = write_params(ctx, "sim", sim_cases=sim_cases)
        res = ctx.tlc("MC_EmMotlIO", cfg("Canon20", "SimInit", ALL_OPS + DERIVE_OPS, "SimPos", 8, "hist", invs=False, pfs=("str", "path"),
                                         tss=("emmotl", "EMMOTL", "EmMotl"), lts=("omitted", "emmotl")), name="sim",
                      env={"C01_PARAMS": ps}, simulate=nsim, depth=10, seed=ctx.seed + 1, workers=1)
        # the everyday route: load a list, go on with the loaded object, filter / extend it, let it write itself
        # (exhaustive over the seeded small tables: RouteOnly fixes the order of the five calls)
        res2 = ctx.tlc("MC_EmMotlIO", cfg("Canon20", "SimInit", ["write_emmotl", "load", "adopt", "droprow", "duprows"],
                                          "SimPos", 5, "hist", invs=False, hdrs=["absent"], route=True, pfs=("path",)), name="route",
                       env={"C01_PARAMS": ps}, workers=1)
        # derive a second object (three forms), edit one of the two through a public method, write one of the two, load
        pd_, _ = write_params(ctx, "derive", sim_cases=sim_cases[:ctx.pick(5, 60)])
        res3 = ctx.tlc("MC_EmMotlIO", cfg("Canon20", "SimInit", ["write_emmotl", "load"] + DERIVE_OPS, "SimPos", 4, "hist",
                                          invs=False, hdrs=["absent"], route="derive"), name="derive",
                       env={"C01_PARAMS": pd_}, workers=1)
        if len(res3.records) < 20:
            raise core.MachineryError("derive run produced only %d behaviours" % len(res3.records))
        ctx.extra["behaviours_derive_edit_write"] = len(res3.records)
        seen = set()
        nb = 0
        routes = 0
        for rec in res.records + res2.records + res3.records:
            h = rec["hist"]
            key = core.stable_hash(h)
            if key in seen:
                continue
            seen.add(key)
            nb += 1
            names = [st["op"]["name"] for st in h]
            for a in range(len(names)):
                if names[a] == "adopt" and any(n in ("droprow", "duprows") for n in names[a + 1:]) and \
                        "write_emmotl" in names[a + 2:]:
                    routes += 1
                    break
            run_behaviour(ctx, h, variant=(ctx.seed * 37 + nb) % 100003, vseed=(ctx.seed * 611953 + nb) % 1000003)
        if nb < 5:
            raise core.MachineryError("simulation produced only %d behaviours" % nb)
        if routes < 3:
            raise core.MachineryError("coverage hole: only %d behaviours with load -> adopt -> resize -> write" % routes)
        ctx.extra["behaviours_replayed"] = nb
        ctx.extra["behaviours_load_resize_write"] = routes

"""C11 - map files (MRC / REC / EM).  MapIO.tla is model-checked in small scopes (L1: all shapes of (1..3)^3, six
element-type / token classes, every option combination; a deeper scope with two base names for the overwrite and
default-name clauses), its transitions and simulated behaviours are replayed on a scratch directory (L2: the files TLC
says must exist are compared, voxel by voxel, with an independent struct parse of every file in the directory, and
cryomap.read results with the specification's array), and runs on random maps of 1..48 voxels per axis carrying unique
markers are recorded and validated by MapIOTrace.tla (L3)."""
import json
import os
import random
import shutil

import numpy as np

from .. import argguard, core, mapsys, parsers

PROPS = ["C11_DiskLayout", "C11_SpellingIrrelevant", "C11_ArgumentsKept", "C11_ResultsPersist", "C11_RoundTrip", "C11_ReadLayout", "C11_ConvertPreserves", "C11_ConvertNegates",
         "C11_NoClobber", "C11_DefaultNames"]
INVS = ["TypeOK", "C11_NegInvolution"]
NP = {"f64": np.float64, "f32": np.float32, "i16": np.int16, "i8": np.int8}
PARSER_NAME = {"f32": "float32", "i16": "int16", "i8": "int8"}
MODE_OF = {"float32": "f32", "int16": "i16", "int8": "i8"}


# file stems: the default output name of a conversion is derived from the input name, so stems end in the letters of
# the extensions (e, m, r, c), in a dot-separated inner part, a digit, an upper-case letter, or are an extension
# themselves; none is "default" / "none" (reserved by the specification for "no explicit name")
STEMS = ["volume", "frame", "tomogram", "ctf_corr", "mic", "a.b", "x.em.bak", "M", "rec", "em", "mrc", "e", "m", "c",
         "tilt_1", "vol.mrc", "data.e", "Tomo7.r", "au_1", "stack.em.1", "2024", "007", "0"]


def pick_stems(rng, k):
    return rng.sample(STEMS, k)


# interpretation of (denoted element type, spelling) -> the object handed to the data_type option
ALL_SP = ["type", "dtype", "name", "code", "char", "alias", "builtin"]
SPELL = {
    "f64": {"type": np.float64, "dtype": np.dtype("float64"), "name": "float64", "code": "f8", "char": "d",
            "alias": np.double, "builtin": float},
    "f32": {"type": np.float32, "dtype": np.dtype("float32"), "name": "float32", "code": "f4", "char": "f", "alias": np.single},
    "i16": {"type": np.int16, "dtype": np.dtype("int16"), "name": "int16", "code": "i2", "char": "h", "alias": np.short},
    "i8": {"type": np.int8, "dtype": np.dtype("int8"), "name": "int8", "code": "i1", "char": "b", "alias": np.byte},
}
ALIAS_NAMES = {"f64": "double", "f32": "single", "i16": "short", "i8": "byte"}


def spelled(dt, sp, variant=0):
    if sp == "alias" and variant % 2:
        return ALIAS_NAMES[dt]                  # the alias as a string ("double") instead of the numpy attribute
    if sp == "code" and variant % 3 == 0:
        return "<" + SPELL[dt][sp] if dt != "i8" else "|i1"     # with an explicit byte order
    return SPELL[dt][sp]


ALL_AF = ["c", "f", "view", "ro"]


def stored(arr, af):
    """the same map in another storage form: C-ordered, Fortran-ordered, a non-contiguous view of a larger array,
    read-only"""
    if af == "f":
        return np.asfortranarray(arr)
    if af == "view":
        big = np.zeros(tuple(2 * n + 1 for n in arr.shape), dtype=arr.dtype)
        big[1::2, 1::2, 1::2] = arr
        return big[1::2, 1::2, 1::2]
    out = np.ascontiguousarray(arr).copy()
    if af == "ro":
        out.setflags(write=False)
    return out


def cfg(init, bases, dt, depth, mode, props=True, sps=("type",), afs=("c",)):
    """bases: list of file stems"""
    lines = ["SPECIFICATION Spec", "CONSTANTS", " InitArrays <- %s" % init,
             " Bases = {%s}" % ", ".join('"%s"' % b for b in bases), " Acts <- AllActs",
             " TrSet = {TRUE, FALSE}", " DtSet <- %s" % dt, " SpSet = {%s}" % ", ".join('"%s"' % x for x in sps), " AfSet = {%s}" % ", ".join('"%s"' % x for x in afs), " OwSet = {TRUE, FALSE}", " MaxDepth = %d" % depth,
             ' EmitMode = "%s"' % mode, "INVARIANT TypeOK"]
    if props:
        lines += ["INVARIANT C11_NegInvolution"] + ["PROPERTY %s" % p for p in PROPS]
    if mode == "tr":
        lines += ["ACTION_CONSTRAINT EmitTR", "VIEW View"]
    elif mode == "hist":
        lines += ["CONSTRAINT EmitHist"]
    else:
        lines += ["VIEW View"]
    return "\n".join(lines) + "\n"


# ---- interpretation gamma ------------------------------------------------------------------------------------
def token_tables(vseed, ntok):
    """token -> (float64 that float32 cannot hold, small non-zero integer); distinct float32 images / integers"""
    rng = random.Random(vseed)
    xd = {}
    seen = set()
    ints = list(range(-127, 0)) + list(range(1, 128))
    rng.shuffle(ints)
    if ntok > len(ints):
        raise core.MachineryError("more integer tokens (%d) than int8 values" % ntok)
    for t in range(1, ntok + 1):
        while True:
            u = rng.random()
            if u < 0.08:
                v = rng.choice([1e-30, -1e-30, 1e-9, -1e-9, 3.0e38, -3.0e38, 1.0e-40, 1.0 + 2.0 ** -30]) * rng.uniform(1.0, 1.1)
            elif u < 0.6:
                v = rng.uniform(-50.0, 50.0)
            elif u < 0.8:
                v = rng.choice([-1, 1]) * (16777217.0 + 2.0 * rng.randint(0, 10 ** 6))
            else:
                v = rng.choice([-1, 1]) * 10.0 ** rng.uniform(-20, 30) * rng.uniform(1, 9.99)
            img = parsers.f32(v)
            if img != v and img not in seen and -img not in seen and img != 0.0:
                seen.add(img)
                xd[t] = v
                break
    xi = {t: ints[t - 1] for t in range(1, ntok + 1)}
    return xd, xi


def interp(c, tabs):
    xd, xi = tabs
    a = abs(c)
    w, t = divmod(a, 100000)
    if w == 0:
        v = xd[t]
    elif w == 1:
        v = parsers.f32(xd[t])
    else:
        v = float(xi[t])
    return -v if c < 0 else v


def max_token(state):
    m = 0

    def walk(x):
        nonlocal m
        if isinstance(x, list):
            for y in x:
                walk(y)
        elif isinstance(x, int) and not isinstance(x, bool):
            m = max(m, abs(x) % 100000)
    walk(state["mem"]["vox"])
    if isinstance(state["disk"], dict):
        for doc in state["disk"].values():
            walk(doc["data"])
    return m


def disk_of(state):
    return state["disk"] if isinstance(state["disk"], dict) else {}


def build_array(mem, tabs):
    vals = [[[interp(c, tabs) for c in row] for row in plane] for plane in mem["vox"]]
    return np.array(vals, dtype=np.float64).reshape(tuple(mem["shape"])).astype(NP[mem["dtype"]])


def build_disk(dirpath, disk, tabs):
    """The files of an abstract disk, produced by the independent writers."""
    for fname, doc in disk.items():
        vals = [interp(c, tabs) for c in doc["data"]]
        if doc["mode"] != "f32":
            vals = [int(v) for v in vals]
        path = os.path.join(dirpath, fname)
        if doc["fmt"] == "em":
            parsers.write_em(path, tuple(doc["dims"]), PARSER_NAME[doc["mode"]], vals)
        else:
            parsers.write_mrc(path, tuple(doc["dims"]), PARSER_NAME[doc["mode"]], vals)


# ---- execution ---------------------------------------------------------------------------------------------------
def exec_op(op, arr, dirpath, variant):
    """Performs the cryomap call named by op.  Returns the array the call returned (or None)."""
    from cryocat import cryomap
    name = op["name"]
    path = os.path.join(dirpath, op["file"])
    if name == "write":
        kw = {}
        if not op["tr"] or variant % 2:
            kw["transpose"] = op["tr"]
        if op["dt"] != "none":
            kw["data_type"] = spelled(op["dt"], op["sp"], variant)
        if not op["ow"] or variant % 3 == 0:
            kw["overwrite"] = op["ow"]
        cryomap.write(arr, path, **kw)
        return None
    if name == "read":
        kw = {}
        if not op["tr"] or variant % 2:
            kw["transpose"] = op["tr"]
        if op["dt"] != "none":
            kw["data_type"] = spelled(op["dt"], op["sp"], variant)
        return cryomap.read(path, **kw)
    if name in ("em2mrc", "mrc2em"):
        kw = {}
        if op["inv"] or variant % 2:
            kw["invert"] = op["inv"]
        if not op["ow"] or variant % 3 == 0:
            kw["overwrite"] = op["ow"]
        if op["out"] != "default":
            kw["output_name"] = os.path.join(dirpath, op["out"])
        getattr(cryomap, name)(path, **kw)
        return None
    if name == "invert":
        if op["out"] == "none":
            return cryomap.invert_contrast(path)
        return cryomap.invert_contrast(path, output_name=os.path.join(dirpath, op["out"]))
    raise core.MachineryError("unknown op %r" % (op,))


def op_sig(op):
    sig = {"op": op["name"]}
    f = op.get("target") or op.get("file")
    if f:
        sig["ext"] = f.rsplit(".", 1)[-1]
    for k in ("tr", "dt", "sp", "af", "inv", "ow"):
        if k in op:
            sig[k] = op[k]
    return sig


def clause_for(op):
    if op["name"] == "write":
        return "C11_DiskLayout"
    if op["name"] in ("em2mrc", "mrc2em"):
        return "C11_ConvertNegates" if op["inv"] else "C11_ConvertPreserves"
    if op["name"] == "invert":
        return "C11_ConvertNegates"
    return "C11_RoundTrip"


def compare_disk(ctx, dirpath, disk, tabs, op, case, sig, force_clause=None):
    """Every file in the scratch directory is parsed independently and compared with the specification's disk."""
    ok = True
    present = sorted(os.listdir(dirpath))
    clause = force_clause or clause_for(op)
    names_clause = force_clause or ("C11_DefaultNames" if op["name"] in ("em2mrc", "mrc2em") else clause)
    for fname in present:
        if fname not in disk:
            ctx.fail(names_clause, "unexpected file %s (expected files: %s)" % (fname, sorted(disk)), case, sig)
            ok = False
    for fname, doc in sorted(disk.items()):
        path = os.path.join(dirpath, fname)
        if fname not in present:
            ctx.fail(names_clause, "file %s missing (present: %s)" % (fname, present), case, sig)
            ok = False
            continue
        try:
            got = parsers.read_map(path)
        except parsers.FormatError as e:
            ctx.fail(clause, "%s is not a valid %s file: %s" % (fname, doc["fmt"].upper(), e), case, sig)
            ok = False
            continue
        if got["fmt"] == "mrc" and (got["mapc"], got["mapr"], got["maps"]) != (1, 2, 3):
            ctx.fail(force_clause or "C11_DiskLayout", "%s: MRC axis order mapc,mapr,maps = %s, x is not the fastest axis" % (
                fname, (got["mapc"], got["mapr"], got["maps"])), case, sig)
            ok = False
            continue
        dims = [got["nx"], got["ny"], got["nz"]]
        if dims != list(doc["dims"]):
            ctx.fail(clause, "%s: header (nx,ny,nz) = %s, expected %s" % (fname, dims, list(doc["dims"])), case, sig)
            ok = False
            continue
        if MODE_OF.get(got["dtype"]) != doc["mode"]:
            ctx.fail(clause, "%s: on-disk type %s, expected %s" % (fname, got["dtype"], doc["mode"]), case, sig)
            ok = False
            continue
        exp = [interp(c, tabs) for c in doc["data"]]
        bad = [q for q in range(len(exp)) if not got["data"][q] == exp[q]]
        if bad:
            q = bad[0]
            nx, ny = dims[0], dims[1]
            ctx.fail(clause, "%s: %d of %d payload values differ; first at offset %d = voxel (%d,%d,%d): file %r expected %r" % (
                fname, len(bad), len(exp), q, q % nx, (q // nx) % ny, q // (nx * ny), got["data"][q], exp[q]), case, sig)
            ok = False
    return ok


def compare_mem(ctx, arr, mem, tabs, op, case, sig):
    clause = clause_for(op)
    if not isinstance(arr, np.ndarray):
        ctx.fail(clause, "call returned %r, not an array" % type(arr).__name__, case, sig)
        return False
    if list(arr.shape) != list(mem["shape"]):
        ctx.fail(clause, "returned shape %s, expected (x,y,z) = %s" % (list(arr.shape), list(mem["shape"])), case, sig)
        return False
    exp = np.array([[[interp(c, tabs) for c in row] for row in plane] for plane in mem["vox"]],
                   dtype=np.float64).reshape(arr.shape)
    diff = np.argwhere(~(arr.astype(np.float64) == exp))
    if len(diff):
        p = tuple(int(v) for v in diff[0])
        ctx.fail(clause, "%d voxels differ; first at %s: got %r expected %r" % (len(diff), p, float(arr[p]), float(exp[p])),
                 case, sig)
        return False
    return True


def step(ctx, op, post, arr, dirpath, tabs, variant, case):
    """One call + comparison.  Returns (ok, new in-memory array)."""
    sig = op_sig(op)
    handed = stored(arr, op.get("af", "c")) if op["name"] == "write" else arr
    guard = argguard.Guard(array=handed)
    ret, err = core.call_guarded(exec_op, op, handed, dirpath, variant)
    why = guard.changed()
    if why:
        ctx.fail("C11_ArgumentsKept", "%s changed the array it was given - %s" % (op["name"], why), case,
                 dict(sig, argument_modified=True))
        return False, arr
    if post["res"] == "refused":
        if err is None:
            ctx.fail("C11_NoClobber", "%s with overwrite=False on an existing target did not refuse" % op["name"], case, sig)
            return False, arr
    elif err is not None:
        ctx.fail("call_raises", "%s: %s" % (op, err), case, sig)
        return False, arr
    # a refused call must leave every file as it was (the specification's disk is unchanged)
    ok = compare_disk(ctx, dirpath, disk_of(post), tabs, op, case, sig,
                      force_clause="C11_NoClobber" if post["res"] == "refused" else None)
    if op["name"] in ("read", "invert") and err is None:
        ok = compare_mem(ctx, ret, post["mem"], tabs, op, case, sig) and ok
        arr = ret
    return ok, arr


def recheck_held(ctx, held, now, case):
    """An array that an earlier cryomap.read / invert_contrast returned must still hold what it held when it was
    returned, whatever was called afterwards (no result aliases library state or a later result)."""
    for step_no, op, obj, snap in held:
        if obj.shape != snap.shape or not np.array_equal(obj, snap):
            ctx.fail("C11_ResultsPersist", "the array returned by call %d (%s %s) changed after later calls%s (inspected after call %d)" % (
                step_no, op["name"], op.get("file"), " - its file was rewritten by: %s" % op["source_rewritten"] if op.get("source_rewritten") else "",
                now), case, dict(op_sig(op), reinspected=True))
            return False
    return True


def aside_calls(dirpath, variant):
    """Dimension 'call history': unrelated public calls of the module, with non-default options, on another map of
    another shape; their files are removed again."""
    from cryocat import cryomap
    side = os.path.join(dirpath, "zz_aside")
    a = (np.arange(2 * 3 * (2 + variant % 3), dtype=np.float32).reshape(2, 3, 2 + variant % 3) - 4.5)
    try:
        cryomap.write(a, side + ".em", transpose=False, data_type=np.int16)
        cryomap.read(side + ".em", transpose=False, data_type=np.float64)
        cryomap.em2mrc(side + ".em", invert=True)
        cryomap.invert_contrast(side + ".mrc", output_name=side + ".rec")
        cryomap.mrc2em(side + ".mrc", output_name=side + "2.em", overwrite=True)
    finally:
        for f in os.listdir(dirpath):
            if f.startswith("zz_aside"):
                os.remove(os.path.join(dirpath, f))


def second_write(ctx, tr, arr, dirpath, tabs, variant, case):
    """Dimension 'argument reuse': the very same array object is written a second time, with the same options, to a
    file of the other format; the content must be the document TLC computed for the first file."""
    from cryocat import cryomap
    op = tr["op"]
    doc = disk_of(tr["post"])[op["file"]]
    ext2 = "mrc" if op["file"].endswith(".em") else "em"
    name2 = "zz_again." + ext2
    handed = stored(arr, op.get("af", "c"))
    guard = argguard.Guard(array=handed)
    kw = {"transpose": op["tr"]}
    if op["dt"] != "none":
        kw["data_type"] = spelled(op["dt"], op["sp"], variant)
    sig = dict(op_sig(op), second_call=True)
    path2 = os.path.join(dirpath, name2)
    try:
        _, err = core.call_guarded(cryomap.write, handed, os.path.join(dirpath, "zz_first." + ext2), **kw)
        if err is None:
            _, err = core.call_guarded(cryomap.write, handed, path2, **kw)
        if err is not None:
            ctx.fail("call_raises", "second write of the same array object: %s" % err, case, sig)
            return
        why = guard.changed()
        if why:
            ctx.fail("C11_ArgumentsKept", "the second write changed the array it was given - %s" % why, case, sig)
            return
        got = parsers.read_map(path2)
        exp = [interp(c, tabs) for c in doc["data"]]
        if [got["nx"], got["ny"], got["nz"]] != list(doc["dims"]) or MODE_OF.get(got["dtype"]) != doc["mode"] or \
                any(not g == e for g, e in zip(got["data"], exp)):
            ctx.fail("C11_DiskLayout", "writing the same array object again gives another document (dims %s type %s)" % (
                [got["nx"], got["ny"], got["nz"]], got["dtype"]), case, sig)
    except parsers.FormatError as e:
        ctx.fail("C11_DiskLayout", "second write of the same array object: %s" % e, case, sig)
    finally:
        for f in os.listdir(dirpath):
            if f.startswith("zz_again") or f.startswith("zz_first"):
                os.remove(os.path.join(dirpath, f))


def fresh_dir(ctx, tag):
    d = os.path.join(ctx.sub("maps"), "%s_%d" % (tag, os.getpid()))
    shutil.rmtree(d, ignore_errors=True)
    os.makedirs(d)
    return d


def run_transition(ctx, tr, variant, vseed):
    case = {"kind": "transition", "pre": tr["pre"], "op": tr["op"], "post": tr["post"], "variant": variant, "vseed": vseed}
    tabs = token_tables(vseed, max(max_token(tr["pre"]), max_token(tr["post"])))
    d = fresh_dir(ctx, "tr")
    build_disk(d, disk_of(tr["pre"]), tabs)
    arr = build_array(tr["pre"]["mem"], tabs)
    if variant % 3 == 1:
        # earlier, unrelated calls of the module (inputs inside the quantifier: an exception there is a violation too)
        _, err = core.call_guarded(aside_calls, d, variant)
        if err is not None:
            ctx.fail("call_raises", "interleaved write / read / em2mrc / invert_contrast / mrc2em sequence: %s" % err, case,
                     {"op": "aside"})
    ok, ret = step(ctx, tr["op"], tr["post"], arr, d, tabs, variant, case)
    if ok and tr["op"]["name"] == "write" and tr["post"]["res"] == "ok" and variant % 2 == 0:
        second_write(ctx, tr, arr, d, tabs, variant, case)
    if ok and tr["op"]["name"] in ("read", "invert") and isinstance(ret, np.ndarray):
        # a second, unjudged call on a same-shaped map with other voxels; then the first result is inspected again
        from cryocat import cryomap
        snap = ret.copy()
        src = disk_of(tr["pre"])[tr["op"]["file"]]
        other = os.path.join(d, "zz_other." + tr["op"]["file"].rsplit(".", 1)[-1])
        vals = [interp(c, tabs) for c in reversed(src["data"])]
        if src["mode"] != "f32":
            vals = [int(v) for v in vals]
        (parsers.write_em if src["fmt"] == "em" else parsers.write_mrc)(other, tuple(src["dims"]), PARSER_NAME[src["mode"]], vals)
        core.call_guarded(cryomap.read, other, transpose=tr["op"].get("tr", True))
        if recheck_held(ctx, [(1, tr["op"], ret, snap)], 2, case):
            # "rewrite source": the file the result came from is overwritten with other voxels (by the library, or in
            # place by another program), converted onto, or deleted; the array handed out earlier must not follow it
            srcpath = os.path.join(d, tr["op"]["file"])
            how = variant % 4
            arr2 = np.array(vals).reshape(tuple(src["dims"])[::-1]).transpose(2, 1, 0).astype(NP[src["mode"]])
            if how == 0:
                core.call_guarded(cryomap.write, arr2, srcpath)
            elif how == 1:
                (parsers.write_em if src["fmt"] == "em" else parsers.write_mrc)(srcpath, tuple(src["dims"]), PARSER_NAME[src["mode"]], vals)
            elif how == 2 and not tr["op"]["file"].endswith(".rec"):
                # a conversion writes onto it
                ext = tr["op"]["file"].rsplit(".", 1)[-1]
                conv = os.path.join(d, "zz_conv." + ("mrc" if ext == "em" else "em"))
                (parsers.write_mrc if ext == "em" else parsers.write_em)(conv, tuple(src["dims"]), PARSER_NAME[src["mode"]], vals)
                core.call_guarded(cryomap.mrc2em if ext == "em" else cryomap.em2mrc, conv, output_name=srcpath)
            else:
                os.remove(srcpath)
            if tr["op"]["name"] == "read":
                recheck_held(ctx, [(1, dict(tr["op"], source_rewritten=["write", "other program", "convert", "remove"][how]), ret, snap)], 3, case)
    ctx.ran(case)
    shutil.rmtree(d, ignore_errors=True)


def run_behaviour(ctx, hist, variant, vseed):
    case = {"kind": "behaviour", "hist": hist, "variant": variant, "vseed": vseed}
    tabs = token_tables(vseed, max(max_token(st["post"]) for st in hist))
    d = fresh_dir(ctx, "bh")
    arr = build_array(hist[0]["post"]["mem"], tabs)
    held = []
    for i, st in enumerate(hist[1:], start=1):
        if st["op"]["name"] == "end":
            break
        ok, arr = step(ctx, st["op"], st["post"], arr, d, tabs, variant + i, case)
        if not ok or not recheck_held(ctx, held, i, case):
            break
        if st["op"]["name"] in ("read", "invert") and isinstance(arr, np.ndarray):
            held.append((i, st["op"], arr, arr.copy()))
    ctx.ran(case)
    shutil.rmtree(d, ignore_errors=True)


# ---- L3: large shapes with markers, validated by MapIOTrace.tla ----------------------------------------------------
DT_NAMES = ["f32", "f64", "i16", "i8"]


def gen_float_case(rng, idx, smax, force_shape=None):
    shape = [rng.randint(1, smax) for _ in range(3)]
    if rng.random() < 0.25:
        shape[rng.randrange(3)] = rng.choice([1, 2, smax])
    if shape[0] == shape[1] == shape[2] and smax > 1:
        shape[rng.randrange(3)] = shape[0] % smax + 1            # non-cubic
    dtype = rng.choice(DT_NAMES)
    stem, stem2 = rng.sample(STEMS, 2)
    dt = rng.choice(["none", "none"] + DT_NAMES)
    sp = "none" if dt == "none" else rng.choice([x for x in ALL_SP if x != "builtin" or dt == "f64"])
    if force_shape is not None:
        shape = list(force_shape)
    return {"kind": "float", "id": idx, "shape": shape, "dtype": dtype, "dt": dt, "sp": sp, "af": rng.choice(ALL_AF),
            "bg": rng.choice([3.0, 3.0, 0.0]), "ext": rng.choice(["mrc", "rec", "em"]),
            "tr": rng.random() < 0.75, "inv": rng.random() < 0.5, "explicit_out": rng.random() < 0.5,
            "refuse_api": rng.choice(["write", "convert"]), "mseed": rng.randrange(1 << 30),
            "stem": stem, "stem2": stem2}


def marker_map(payload, values):
    """value -> (first offset or -1, count) by one scan of the raw payload"""
    want = {v: [-1, 0] for v in values}
    for q, x in enumerate(payload):
        e = want.get(x)
        if e is not None:
            if e[1] == 0:
                e[0] = q
            e[1] += 1
    return want


def run_float(ctx, cases):
    from cryocat import cryomap
    traces = []
    metas = []
    for case in cases:
        rng = random.Random(case["mseed"])
        shape = tuple(case["shape"])
        n = shape[0] * shape[1] * shape[2]
        eff = case["dtype"] if case["dt"] == "none" else case["dt"]        # element type that reaches the writer
        small = "i8" in (case["dtype"], eff)
        ints = case["dtype"] in ("i16", "i8") or eff in ("i16", "i8")
        nm = min(64, n)
        cells = rng.sample(range(n), nm)
        # marker values: unique, non-zero, never the background; exactly representable in every type on the way
        if ints:
            pool = [v for v in range(-127, 128) if v not in (0, 3)] if small else \
                [v for v in range(-30000, 30001, 7) if v not in (0, 3)]
            mvals = [float(v) for v in rng.sample(pool, nm)]
        else:
            mvals = []
            seen = {3.0, -3.0, 0.0}
            while len(mvals) < nm:
                v = rng.uniform(-1000, 1000)
                if rng.random() < 0.1:              # tiny / huge magnitudes, float32 subnormals
                    v = rng.choice([1e-30, -1e-30, 1e-9, -1e-9, 3.0e38, -3.0e38, 1.0e-40]) * rng.uniform(1.0, 1.1)
                if case["dtype"] == "f32":
                    v = parsers.f32(v)
                img = parsers.f32(v)
                if img not in seen and -img not in seen and img != 0.0:
                    seen.add(img)
                    mvals.append(v)
        bg = float(case.get("bg", 3.0))             # background value: 3, or 0 (an all-zero map but for the markers)
        arr = np.full(shape, bg, dtype=np.float64)
        pos = []
        for c, v in zip(cells, mvals):
            p = (c // (shape[1] * shape[2]), (c // shape[2]) % shape[1], c % shape[2])
            arr[p] = v
            pos.append(p)
        arr = arr.astype(NP[case["dtype"]])
        on_disk = [parsers.f32(v) for v in mvals]          # value each marker has in a file (float32 or exact integer)
        d = fresh_dir(ctx, "fl")
        events = []
        stage = [None]

        def fail_call(what, err):
            ctx.fail("call_raises", "%s: %s" % (what, err), case, {"op": what, "ext": case["ext"], "dtype": case["dtype"]})

        # -- write
        path = os.path.join(d, case["stem"] + "." + case["ext"])
        kw = {}
        if not case["tr"]:
            kw["transpose"] = False
        if case["dt"] != "none":
            kw["data_type"] = spelled(case["dt"], case.get("sp", "type"), case["mseed"])
        af = case.get("af", "c")
        handed = stored(arr, af)
        guard = argguard.Guard(array=handed)
        _, err = core.call_guarded(cryomap.write, handed, path, **kw)
        if err is not None:
            fail_call("write", err)
        else:
            ev = {"name": "write", "tr": case["tr"], "dtype": case["dtype"], "dt": case["dt"], "af": af,
                  "arg_kept": guard.changed() is None,
                  "sp": case.get("sp", "none" if case["dt"] == "none" else "type"), "shape": list(shape),
                  "valid": True, "hdr": [0, 0, 0], "mode": "none", "n": 0, "bg_ok": False, "markers": []}
            doc = None
            try:
                doc = parsers.read_map(path)
                if doc["fmt"] == "mrc" and (doc["mapc"], doc["mapr"], doc["maps"]) != (1, 2, 3):
                    ev["valid"] = False
            except (parsers.FormatError, OSError):
                ev["valid"] = False
            if doc is not None:
                mm = marker_map(doc["data"], on_disk)
                ev.update(hdr=[doc["nx"], doc["ny"], doc["nz"]], mode=MODE_OF.get(doc["dtype"], doc["dtype"]),
                          n=len(doc["data"]),
                          bg_ok=sum(1 for x in doc["data"] if x == bg) == len(doc["data"]) - nm,
                          markers=[{"p": list(p), "off": mm[v][0], "cnt": mm[v][1]} for p, v in zip(pos, on_disk)])
            events.append(ev)
            # -- read back with the same flag
            if doc is not None:
                back, err = core.call_guarded(cryomap.read, path, transpose=case["tr"])
                if err is not None:
                    fail_call("read", err)
                else:
                    ms = []
                    for p, v in zip(pos, on_disk):
                        where = np.argwhere(back == v) if isinstance(back, np.ndarray) and back.ndim == 3 else []
                        q = [int(x) for x in where[0]] if len(where) else [-1, -1, -1]
                        ms.append({"p": list(p), "q": q, "off": mm[v][0], "cnt": len(where)})
                    if isinstance(back, np.ndarray):
                        stage.append((back, back.copy()))
                    shp = list(back.shape) if isinstance(back, np.ndarray) else []
                    events.append({"name": "read", "tr": case["tr"], "hdr": [doc["nx"], doc["ny"], doc["nz"]],
                                   "shape": list(shape), "shape_out": shp,
                                   "bg_ok": bool(isinstance(back, np.ndarray) and int((back == bg).sum()) == n - nm),
                                   "markers": ms})
            # -- conversion (em <-> mrc only)
            if doc is not None and case["ext"] in ("em", "mrc"):
                api = "em2mrc" if case["ext"] == "em" else "mrc2em"
                oext = "mrc" if case["ext"] == "em" else "em"
                target = os.path.join(d, (case["stem2"] if case["explicit_out"] else case["stem"]) + "." + oext)
                kw = {"invert": case["inv"]} if case["inv"] else {}
                if case["explicit_out"]:
                    kw["output_name"] = target
                _, err = core.call_guarded(getattr(cryomap, api), path, **kw)
                if err is not None:
                    fail_call(api, err)
                else:
                    ev = {"name": api, "inv": case["inv"], "target_ok": os.path.isfile(target) and
                          sorted(os.listdir(d)) == sorted([os.path.basename(path), os.path.basename(target)]),
                          "valid": True, "hdr_src": [doc["nx"], doc["ny"], doc["nz"]], "hdr_dst": [0, 0, 0],
                          "mode_src": MODE_OF.get(doc["dtype"], doc["dtype"]), "mode_dst": "none", "fmt_dst": "none", "bg_ok": False,
                          "markers": []}
                    if ev["target_ok"]:
                        try:
                            dst = parsers.read_map(target)
                            sgn = -1.0 if case["inv"] else 1.0
                            md = marker_map(dst["data"], [sgn * v for v in on_disk])
                            ev.update(hdr_dst=[dst["nx"], dst["ny"], dst["nz"]], mode_dst=MODE_OF.get(dst["dtype"], dst["dtype"]),
                                      fmt_dst=dst["fmt"],
                                      bg_ok=sum(1 for x in dst["data"] if x == sgn * bg) == len(dst["data"]) - nm,
                                      markers=[{"off_src": mm[v][0], "off_dst": md[sgn * v][0], "cnt": md[sgn * v][1]}
                                               for v in on_disk])
                            if dst["fmt"] == "mrc" and (dst["mapc"], dst["mapr"], dst["maps"]) != (1, 2, 3):
                                ev["valid"] = False
                        except (parsers.FormatError, OSError):
                            ev["valid"] = False
                    events.append(ev)
                    if ev["target_ok"]:
                        stage[0] = (api, target)
            # -- refusal: the same target again with overwrite=False
            if doc is not None:
                if case["refuse_api"] == "convert" and stage[0] is not None:
                    api, target = stage[0]
                    kw = {"overwrite": False}
                    if case["explicit_out"]:
                        kw["output_name"] = target
                    before = open(target, "rb").read()
                    _, err = core.call_guarded(getattr(cryomap, api), path, invert=not case["inv"], **kw)
                    after = open(target, "rb").read() if os.path.isfile(target) else b""
                    events.append({"name": "refuse", "api": api, "raised": err is not None, "unchanged": before == after})
                else:
                    before = open(path, "rb").read()
                    _, err = core.call_guarded(cryomap.write, arr * 2, path, overwrite=False)
                    after = open(path, "rb").read() if os.path.isfile(path) else b""
                    events.append({"name": "refuse", "api": "write", "raised": err is not None, "unchanged": before == after})
        if len(stage) > 1:
            events.append({"name": "reinspect", "unchanged": bool(stage[1][0].shape == stage[1][1].shape and
                                                                  np.array_equal(stage[1][0], stage[1][1]))})
        traces.append({"id": case["id"], "ev": events})
        metas.append(case)
        ctx.ran(case)
        shutil.rmtree(d, ignore_errors=True)
    # ---- TLC decides
    wd = ctx.sub("trace")
    path = os.path.join(wd, "traces.ndjson")
    with open(path, "w") as fh:
        for t in traces:
            fh.write(json.dumps(t) + "\n")
    res = ctx.tlc("MapIOTrace", "SPECIFICATION TraceSpec\nCONSTRAINT Report\n", name="trace", env={"TRACE_FILE": path},
                  workers=1)
    verdicts = {v["tid"]: v for v in res.tagged.get("VERDICT", [])}
    if len(verdicts) != len(traces):
        raise core.MachineryError("MapIOTrace returned %d verdicts for %d traces\n%s" % (
            len(verdicts), len(traces), res.stdout[-2000:]))
    for i, case in enumerate(metas):
        v = verdicts[i + 1]
        if not v["ok"]:
            ev = traces[i]["ev"][v["step"] - 1]
            brief = {k: ev[k] for k in ev if k != "markers"}
            badm = [m for m in ev.get("markers", []) if m.get("cnt") != 1 or (
                "off_dst" in m and m["off_dst"] != m["off_src"])][:3]
            ctx.fail(v["clause"], "rejected by MapIOTrace at event %d: %s %s" % (v["step"], brief, badm or ev.get("markers", [])[:2]),
                     case, {"op": ev["name"], "ext": case["ext"], "dtype": case["dtype"], "tr": case["tr"]})


def replay(ctx, case):
    # the oracle is re-established on the smallest scope so that a replay is a complete check
    p0 = write_params(ctx, "replay", [[1, 1, 2]], [[1, 1, 2]])
    ctx.tlc("MC_MapIO", cfg("DeepInit", ["volume"], "NoDt", 2, "none"), name="replay_l1", env={"C11_PARAMS": p0}, workers=2)
    if case["kind"] == "transition":
        run_transition(ctx, case, case["variant"], case["vseed"])
    elif case["kind"] == "behaviour":
        run_behaviour(ctx, case["hist"], case["variant"], case["vseed"])
    elif case["kind"] == "float":
        run_float(ctx, [case])
    elif case["kind"] == "mapsys":
        mapsys.replay(ctx, case)
    else:
        raise core.MachineryError("unknown case kind %r" % case.get("kind"))


def write_params(ctx, name, shapes, sim_shapes):
    path = os.path.join(ctx.sub("params"), name + ".json")
    with open(path, "w") as fh:
        json.dump({"shapes": shapes, "sim_shapes": sim_shapes}, fh)
    return path


def seeded_shapes(rng, k, smax, maxvox):
    out = []
    while len(out) < k:
        s = [rng.randint(1, smax) for _ in range(3)]
        if s[0] == s[1] == s[2] or s[0] * s[1] * s[2] > maxvox or s in out:
            continue
        out.append(s)
    return out


# ---- main ---------------------------------------------------------------------------------------------------------
def run(ctx):
    only = getattr(ctx, "only", None)
    ctx.rule = ("L1: MapIO over all shapes of (1..3)^3 (quick: 9 non-cubic ones) x 6 element-type/token classes, every "
                "transpose / data_type / overwrite / invert / output-name choice, depth 2, and a two-base-name scope to "
                "depth 3-4; L2: every transition TLC explores from seeded non-cubic shapes (sub-sampled by seed) and "
                "simulated 7-step behaviours on shapes up to 6 per axis are replayed on a scratch directory, all files "
                "parsed independently after every call; L3: random shapes 1..48 per axis with 64 unique markers, "
                "validated by MapIOTrace. distinct = distinct (state, op, interpretation) cases")
    ctx.assumptions += ["interpretation gamma: tokens -> floats that float32 cannot hold / their float32 images / small "
                        "non-zero integers (|v| <= 127, so casts between the four element types and negation are exact)",
                        "independent MRC / EM readers and writers of mbt/parsers.py are trusted; an MRC file counts as "
                        "x-fastest only with mapc,mapr,maps = 1,2,3",
                        "refusal to overwrite = the call raises and the target's bytes are unchanged",
                        "the element type of arrays returned by cryomap.read is not constrained, only shape and values"]
    rng = ctx.rng
    tr_shapes = seeded_shapes(rng, ctx.pick(2, 5), 3, 18)
    sim_shapes = seeded_shapes(rng, ctx.pick(4, 12), 6, ctx.pick(48, 120))
    pp = write_params(ctx, "p", tr_shapes, sim_shapes)
    env = {"C11_PARAMS": pp}
    stems = pick_stems(rng, 5)
    one, one3, two = stems[:1], stems[1:2], stems[2:4]
    # spellings of the data_type option: "builtin" (float) always, the others drawn by the seed
    others = [x for x in ALL_SP if x != "builtin"]
    sp_tr = [rng.choice(others), "builtin"] if ctx.quick else rng.sample(others, 3) + ["builtin"]
    sp_sim = rng.sample(others, 1 if ctx.quick else 2) + ["builtin"]
    af_tr = [rng.choice(ALL_AF)] if ctx.quick else rng.sample(ALL_AF, 2)
    af_tr3 = rng.sample(ALL_AF, 2)
    af_sim = rng.sample(ALL_AF, 1 if ctx.quick else 2)
    ctx.extra["array_forms"] = {"tr": af_tr, "tr3": af_tr3, "sim": af_sim, "float": ALL_AF}
    ctx.extra["data_type_spellings"] = {"tr": sp_tr, "sim": sp_sim, "float": ALL_SP}
    ctx.extra["file_stems"] = {"tr": one, "tr3": one3, "deep_sim": two}
    ctx.extra["tr_shapes"] = tr_shapes
    ctx.extra["sim_shapes"] = sim_shapes

    if not only or "small" in only:
        ctx.tlc("MC_MapIO", cfg(ctx.pick("Small9", "Small27"), one, "AllDt", 2, "none", sps=ctx.pick(("name", "builtin"), ALL_SP),
                                afs=ctx.pick(("view",), ("f", "ro"))), name="small", env=env,
                workers=4)
        ctx.exhaustive["L1_small_depth2"] = True
        dd = ctx.pick(3, 4)
        ctx.tlc("MC_MapIO", cfg("DeepInit", two, "NoDt", dd, "none"), name="deep", env=env, workers=4)
        ctx.exhaustive["L1_deep_depth%d" % dd] = True

    if not only or "tr" in only:
        res = ctx.tlc("MC_MapIO", cfg("TrInit", one, "AllDt", 2, "tr", sps=sp_tr, afs=af_tr), name="tr", env=env, workers=1)
        # depth 3 with the default data_type: two files exist, so conversions meet an existing target (refusals)
        res3 = ctx.tlc("MC_MapIO", cfg("Tr3Init", one3, "NoDt", 3, "tr", afs=af_tr3), name="tr3", env=env, workers=1)
        trs = res.records + res3.records
        if len(trs) < 2000:
            raise core.MachineryError("tr run emitted only %d transitions" % len(trs))
        budget = ctx.pick(2000, 25000)
        # deterministic sub-sample by hash of (seed, transition), stratified by (operation, outcome) so that the rare
        # kinds (refused conversions) are not crowded out by plain writes
        groups = {}
        for t in sorted(trs, key=lambda t: core.stable_hash([ctx.seed, t])):
            groups.setdefault((t["op"]["name"], t["post"]["res"]), []).append(t)
        quota = budget // 8
        chosen = []
        rest = []
        for k in sorted(groups):
            chosen += groups[k][:quota]
            rest += groups[k][quota:]
        rest.sort(key=lambda t: core.stable_hash([ctx.seed, t]))
        chosen += rest[:max(0, budget - len(chosen))]
        kinds = {}
        for t in chosen:
            k = (t["op"]["name"], t["post"]["res"])
            kinds[k] = kinds.get(k, 0) + 1
        for need in [("write", "ok"), ("write", "refused"), ("read", "ok"), ("em2mrc", "ok"), ("mrc2em", "ok"),
                     ("em2mrc", "refused"), ("mrc2em", "refused"), ("invert", "ok")]:
            if not kinds.get(need):
                raise core.MachineryError("coverage hole: no %s/%s transition among the replayed ones" % need)
        ctx.extra["transitions_emitted"] = len(trs)
        ctx.extra["transitions_replayed"] = len(chosen)
        ctx.extra["transition_kinds"] = {"%s/%s" % k: v for k, v in sorted(kinds.items())}
        ctx.exhaustive["L2_transitions"] = len(chosen) == len(trs)
        for i, t in enumerate(chosen):
            run_transition(ctx, t, variant=(ctx.seed * 7919 + i) % 100003, vseed=(ctx.seed * 104729 + i) % 1000003)

    if not only or "sim" in only:
        nsim = ctx.pick(20, 400)
        res = ctx.tlc("MC_MapIO", cfg("SimInit", two, "AllDt", 8, "hist", props=False, sps=sp_sim, afs=af_sim), name="sim", env=env,
                      simulate=nsim, depth=10, seed=ctx.seed + 1, workers=1)
        seen = set()
        nb = 0
        for rec in res.records:
            h = rec["hist"]
            key = core.stable_hash(h)
            if key in seen:
                continue
            seen.add(key)
            nb += 1
            run_behaviour(ctx, h, variant=(ctx.seed * 37 + nb) % 100003, vseed=(ctx.seed * 611953 + nb) % 1000003)
        if nb < min(10, nsim):
            raise core.MachineryError("simulation produced only %d behaviours" % nb)
        ctx.extra["behaviours_replayed"] = nb

    if not only or "float" in only:
        nfl = ctx.pick(80, 1200)
        cases = [gen_float_case(rng, i + 1, 48 if (ctx.quick and i % 4 == 0) or (not ctx.quick and i % 2 == 0) else 16)
                 for i in range(nfl)]
        # exhaustive small sweep: every shape of (1..4)^3 (thorough (1..6)^3), lengths 1 and 2 on every axis included
        top = ctx.pick(4, 6)
        for sh in [(a, b, c) for a in range(1, top + 1) for b in range(1, top + 1) for c in range(1, top + 1)]:
            cases.append(gen_float_case(rng, len(cases) + 1, 4, force_shape=sh))
        ctx.extra["shape_sweep"] = "every shape of (1..%d)^3" % top
        run_float(ctx, cases)

    # ---- composition: mixed histories on a pool of live maps and files, validated by MapSysTrace.tla in scope "io"
    # (IO / conversion steps judged with the C11 clauses; windowing, mask algebra, thresholding steps only re-synchronise)
    if not only or "mixed" in only:
        scope = os.environ.get("VERIF_MAPSYS_SCOPE", "io")            # (calibration aid: "all" judges every relation)
        mapsys.run(ctx, scope, ctx.pick(150, 3000))

"""C10 - cyclic symmetry expansion (Motl.split_in_asymmetric_subunits).

L1  SymExpand.tla: structural clauses and the Z_n orbit for every n in 1..64 (symbolic in-plane index), and the exact
    cube-group / lattice reading for n in {1, 2, 4} (all 24 parent orientations, offsets incl. on-axis and zero,
    half-voxel ties), model-checked as invariants of every case.
L2  every exact case is replayed: TLC emits, per subunit, the expected orientation (cube element) and complete position
    (lattice) under both admissible starts of the subunit index; the driver compares matrices / lattice positions.
L3  every n in 1..64 and 122, 197 (both tiers; larger lists for n <= 16 quick / every n thorough) x 'Cn' / 'cn' / n x random real-valued lists (1..100 particles, any
    orientation incl. gimbal lock, any position / shift) x offsets incl. on-axis: per output row the driver logs
    parent, index, id, the nearest element of {Rz(360 j/n)} to R_parent^-1 R_out and integer-scaled residuals;
    SymExpandTrace.tla decides.
Composition: C1 / C2 / C4 expansions also run as steps of the mixed histories of mbt/motlsys.py, judged by
MotlSysTrace.tla with Scope = "sym" against SymExpand's orientation / position operators on the previous logged state.
"""
import json
import math
import os
import random

import numpy as np

from .. import argguard, core, geo, motlsys, motlutil

FIELDS = motlutil.FIELDS
INHERIT = ["score", "geom1", "tomo_id", "object_id", "subtomo_mean", "geom3", "geom4", "class"]
INVS = ["TypeOK", "C10_Count", "C10_Indices", "C10_UniqueIds", "C10_Inherit", "C10_Orbit", "C10_ExactOrbit",
        "C10_MapsBack", "C10_Integral"]
U = geo.U


def inherit_values(tag):
    out = {}
    for j, f in enumerate(INHERIT):
        out[f] = ((tag * (j + 7) * 7919 + j * 10007) % 3001) / 8.0 - 150.0 + 0.1 * j
    out["tomo_id"] = float(tag % 5)                 # identifier columns take the value 0, too
    out["object_id"] = float(tag % 3)
    out["class"] = float(tag % 2)
    return out


def sym_arg(n, spelling):
    """'Cn', 'cn' or a number: Python int, float (documented: "int/float") and numpy integer."""
    if spelling == 0:
        return "C%d" % n
    if spelling == 1:
        return "c%d" % n
    if spelling == 2:
        return int(n)
    if spelling == 3:
        return float(n)
    return np.int64(n)


# ---- L2: exact cases -----------------------------------------------------------------------------------------
def run_exact(ctx, rec, variant):
    from cryocat import cryomotl as cm
    case, outs = rec["case"], rec["outs"]
    n = case["n"]
    rcase = {"kind": "exact", "case": case, "outs": outs, "variant": variant}
    sig = {"op": "split_in_asymmetric_subunits", "n": n, "layer": "exact"}
    rng = random.Random(variant)
    ps = case["ps"]
    cols = motlutil.empty_rows(len(ps))
    for k, p in enumerate(ps):
        cols["subtomo_id"][k] = p["sid"]
        cols["x"][k], cols["y"][k], cols["z"][k] = [v / U for v in p["x"]]
        cols["shift_x"][k], cols["shift_y"][k], cols["shift_z"][k] = [v / U for v in p["s"]]
        cols["phi"][k], cols["theta"][k], cols["psi"][k] = geo.euler_for_code(p["r"], rng)
        cols["geom2"][k], cols["geom5"][k] = 9.0, 99.0
        for f, v in inherit_values(p["tag"]).items():
            cols[f][k] = v
    motl = cm.Motl(motlutil.repeat_labels(
        motlutil.vary_columns(motlutil.vary_index(motlutil.df_from_cols(cols), variant // 5), variant // 3), variant // 2))
    # (the float32 form is left to the real-valued layer: single-precision input is outside the domain on which the
    # arithmetic is exact)
    arg = shift_arg([v / U for v in case["off"]], variant if variant % 7 != 5 else 2)
    guard = argguard.Guard(xyz_shift=arg, particle_list=motl.df)
    res, err = core.call_guarded(motl.split_in_asymmetric_subunits, sym_arg(n, variant % 5), arg)
    ctx.ran(rcase)
    if err is not None:
        ctx.fail("call_raises", "n=%d: %s" % (n, err), rcase, sig)
        return
    why = guard.changed()
    if why:
        ctx.fail("C10_ArgumentsUntouched", "n=%d: the call changed its argument: %s" % (n, why), rcase, sig)
        return
    df = res.df
    if sorted(map(str, df.columns)) != sorted(FIELDS) or len(df.columns) != 20:
        ctx.fail("C10_Inherit", "columns changed: %s" % list(df.columns), rcase, sig)
        return
    if df.shape[0] != len(outs):
        ctx.fail("C10_Count", "%d rows, expected %d" % (df.shape[0], len(outs)), rcase, sig)
        return
    got = {}
    for _, row in df.iterrows():
        got.setdefault((row["geom5"], row["geom2"]), []).append(row)
    sids = df["subtomo_id"].to_numpy(dtype=float)
    if len(set(sids.tolist())) != len(sids):
        ctx.fail("C10_UniqueIds", "subtomogram numbers repeat: %s" % sids.tolist()[:20], rcase, sig)
    okA = okB = True
    for o in outs:
        rows = got.get((float(o["parent"]), float(o["k"])), [])
        if len(rows) != 1:
            ctx.fail("C10_Indices", "parent %d subunit %d occurs %d times (geom5 / geom2)" % (o["parent"], o["k"], len(rows)),
                     rcase, sig)
            return
        row = rows[0]
        inh = inherit_values(o["tag"])
        bad = [f for f in INHERIT if not float(row[f]) == inh[f]]
        if bad:
            ctx.fail("C10_Inherit", "parent %d subunit %d: field %s changed" % (o["parent"], o["k"], bad[0]), rcase, sig)
            return
        code = geo.matrix_to_code(geo.zxz_matrix(row["phi"], row["theta"], row["psi"]), 1e-9)
        xs = np.array([row["x"], row["y"], row["z"]], dtype=float)
        sh = np.array([row["shift_x"], row["shift_y"], row["shift_z"]], dtype=float)
        pos = (xs + sh) * U
        if np.max(np.abs(xs - np.rint(xs))) > 1e-9 or np.max(np.abs(sh)) > 0.5 + 1e-9:
            ctx.fail("C10_Integral", "parent %d subunit %d: x=%s shift=%s" % (o["parent"], o["k"], xs.tolist(), sh.tolist()),
                     rcase, sig)
            return
        a = code == list(o["ra"]) and np.max(np.abs(pos - np.array(o["pa"], dtype=float))) < 1e-7
        b = code == list(o["rb"]) and np.max(np.abs(pos - np.array(o["pb"], dtype=float))) < 1e-7
        okA, okB = okA and a, okB and b
        if not (okA or okB):
            rot_ok = code in (list(o["ra"]), list(o["rb"]))
            ctx.fail("C10_ExactOrbit" if not rot_ok else "C10_MapsBack",
                     "parent %d subunit %d: orientation %s position %s (1/8 voxel); expected %s at %s (index from 0) or %s at %s "
                     "(index from 1)" % (o["parent"], o["k"], code, np.round(pos, 6).tolist(), o["ra"], o["pa"], o["rb"], o["pb"]),
                     rcase, sig)
            return


# ---- L3: real-valued lists -----------------------------------------------------------------------------------
def gen_float_case(rng, idx, n, spelling, npart):
    base = rng.choice([0, 0, 0, 100000, 249990])      # subtomogram numbers incl. 0, and large consecutive ones
    ids = [base + v for v in rng.sample(range(0, 4 * npart + 10), npart)]
    if rng.random() < 0.3:
        ids = [base + v for v in rng.sample(range(0, npart), npart)]          # consecutive from 0 / from the base
    parts = []
    for k in range(npart):
        theta = rng.choice([0.0, 180.0, rng.uniform(0, 180), rng.uniform(-180, 180), 90.0])
        ang = [rng.uniform(-360, 360), theta, rng.uniform(-360, 360)]
        pos = [float(rng.randint(-20, 400)) if rng.random() < 0.7 else round(rng.uniform(-20, 400), 3) for _ in range(3)]
        sh = [0.0, 0.0, 0.0] if rng.random() < 0.2 else [round(rng.uniform(-5, 5), 3) for _ in range(3)]
        parts.append({"sid": ids[k], "pos": pos, "shift": sh, "ang": ang, "tag": rng.randint(1, 5000)})
    r = rng.random()
    if r < 0.15:
        off = [0.0, 0.0, round(rng.uniform(-20, 20), 3)]          # on the axis
    elif r < 0.25:
        off = [0.0, 0.0, 0.0]
    elif r < 0.4:
        off = [float(rng.randint(-30, 30)), float(rng.randint(-30, 30)), 0.0]
    else:
        off = [round(rng.uniform(-30, 30), 3) for _ in range(3)]
    r2 = rng.random()
    if r2 < 0.05:
        off = [1e-9, -1e-9, 0.0]                                   # tiny
    elif r2 < 0.1:
        off = [float(rng.randint(-2000, 2000)), float(rng.randint(-2000, 2000)), float(rng.randint(-2000, 2000))]   # huge
    elif r2 < 0.3:
        off = [rng.randint(-240, 240) / 8.0 for _ in range(3)]     # dyadic: exactly representable as float32, too
    case = {"kind": "float", "id": idx, "n": n, "spelling": spelling, "parts": parts, "off": off}
    if rng.random() < 0.35:
        # a second call on the same list with the same offset object and another order of symmetry
        case["n2"] = rng.choice([k for k in (1, 2, 3, 5, 7, 8, 12) if k != n])
    return case


def shift_arg(off, k):
    """The subunit offset in one of the accepted forms: list, tuple, ndarray (float64, read-only, non-contiguous view,
    float32 / int64 where the values are exactly representable)."""
    m = k % 7
    if m == 0:
        return list(off)
    if m == 1:
        return tuple(off)
    arr = np.array(off, dtype=float)
    if m == 2:
        return arr
    if m == 3:
        arr.setflags(write=False)
        return arr
    if m == 4:
        big = np.zeros(6)
        big[::2] = arr
        return big[::2]
    if m == 5 and np.array_equal(arr.astype(np.float32).astype(float), arr):
        return arr.astype(np.float32)
    if m == 6 and np.array_equal(np.rint(arr), arr):
        return arr.astype(np.int64)
    return arr


def read_only_calls(cm, motl):
    motl.get_coordinates()
    motl.get_rotations()
    motl.get_angles()
    motl.get_unique_values("tomo_id")
    str(motl)
    cm.Motl.load(motl)


def observe(case):
    """Runs the call(s) of the case; returns ([(n, trace record for SymExpandTrace)], error)."""
    from cryocat import cryomotl as cm
    parts = case["parts"]
    cols = motlutil.empty_rows(len(parts))
    for k, p in enumerate(parts):
        cols["subtomo_id"][k] = p["sid"]
        cols["x"][k], cols["y"][k], cols["z"][k] = p["pos"]
        cols["shift_x"][k], cols["shift_y"][k], cols["shift_z"][k] = p["shift"]
        cols["phi"][k], cols["theta"][k], cols["psi"][k] = p["ang"]
        cols["geom2"][k], cols["geom5"][k] = 9.0, 99.0
        for f, v in inherit_values(p["tag"]).items():
            cols[f][k] = v
    # the particle table: any row labels, integer id columns, any column order
    tbl = motlutil.vary_columns(motlutil.vary_index(motlutil.df_from_cols(cols), case["id"]), case["id"] // 2)
    motl = cm.Motl(motlutil.repeat_labels(tbl, case["id"] // 3))          # ... and repeated row labels
    shift = shift_arg(case["off"], case["id"])
    guard = argguard.Guard(xyz_shift=shift, particle_list=motl.df)       # the call returns a new list
    out = []
    first = None
    for j, n in enumerate([case["n"]] + ([case["n2"]] if case.get("n2") else [])):
        if j == 1 and case["id"] % 2 == 0:
            _, err = core.call_guarded(read_only_calls, cm, motl)
            if err is not None:
                return out, "read-only calls between the two expansions: " + err
        res, err = core.call_guarded(motl.split_in_asymmetric_subunits, sym_arg(n, (case["spelling"] + j) % 5), shift)
        if err is not None:
            return out, ("second call (same list, same offset object, n=%d): " % n if j else "") + err
        tr, err = project_expansion(case, n, res.df)
        if err is not None:
            return out, err
        frame = guard.changed()
        if not frame and first is not None:
            frame = first.changed()
            frame = frame and "result of the first call changed by the second: " + frame
        tr["frame"] = frame or ""
        out.append((n, tr))
        if first is None:
            first = argguard.Guard(first_result=res.df)
    return out, None


def project_expansion(case, n, df):
    """alpha: the returned table -> trace record (None, reason) when it cannot be projected."""
    parts = case["parts"]
    off = np.array(case["off"], dtype=float)
    if sorted(map(str, df.columns)) != sorted(FIELDS) or len(df.columns) != 20:
        return None, "columns changed: %s" % list(df.columns)
    parent = {float(p["sid"]): p for p in parts}
    arr = {f: df[f].to_numpy(dtype=float) for f in FIELDS}
    step = geo.rz(360.0 / n)
    R_out = [geo.zxz_matrix(arr["phi"][i], arr["theta"][i], arr["psi"][i]) for i in range(df.shape[0])]
    groups = {}
    for i in range(df.shape[0]):
        groups.setdefault(arr["geom5"][i], []).append(i)
    out_groups = []
    cap = 2000000
    for g5 in sorted(groups):
        idx = sorted(groups[g5], key=lambda i: arr["geom2"][i])
        p = parent.get(g5)
        rows = []
        for pos_in_group, i in enumerate(idx):
            g2 = arr["geom2"][i]
            nxt = idx[(pos_in_group + 1) % len(idx)]
            rs = float(np.max(np.abs(R_out[nxt] - R_out[i] @ step)))
            if p is not None:
                Rp = geo.zxz_matrix(*p["ang"])
                rel = Rp.T @ R_out[i]
                a = math.degrees(math.atan2(rel[1, 0], rel[0, 0]))
                j = int(round(a / (360.0 / n))) % n
                rj = float(np.max(np.abs(rel - geo.rz(360.0 * j / n))))
                centre = np.array(p["pos"]) + np.array(p["shift"])
                posn = np.array([arr["x"][i] + arr["shift_x"][i], arr["y"][i] + arr["shift_y"][i], arr["z"][i] + arr["shift_z"][i]])
                rp = float(np.max(np.abs(posn - (centre + R_out[i] @ off)))) / max(1.0, float(np.max(np.abs(posn))))
                inh = inherit_values(p["tag"])
                inherit = int(all(float(arr[f][i]) == inh[f] for f in INHERIT))
            else:
                j, rj, rp, inherit = 0, 1.0, 1.0, 0
            xs = np.array([arr["x"][i], arr["y"][i], arr["z"][i]])
            sh = np.array([arr["shift_x"][i], arr["shift_y"][i], arr["shift_z"][i]])
            integral = int(bool(np.max(np.abs(xs - np.rint(xs))) < 1e-9))
            rows.append([int(g2) if g2 == int(g2) and abs(g2) < 1e6 else -1,
                         int(arr["subtomo_id"][i]) if arr["subtomo_id"][i] == int(arr["subtomo_id"][i]) else -(i + 1),
                         j, int(min(cap, round(rj * 1e7))), int(min(cap, round(rs * 1e7))), int(min(cap, round(rp * 1e7))),
                         integral, int(min(cap * 10, round(float(np.max(np.abs(sh))) * 1e6))), inherit])
        out_groups.append([int(g5) if g5 == int(g5) and abs(g5) < 1e9 else -1, rows])
    return {"id": case["id"], "n": n, "parents": [int(p["sid"]) for p in parts], "nrows": int(df.shape[0]),
            "groups": out_groups}, None


def run_float(ctx, cases):
    traces, kept = [], []
    for case in cases:
        obs, err = observe(case)
        ctx.ran({k: v for k, v in case.items()})
        for n, tr in obs:
            tr["id"] = len(traces) + 1
            traces.append(tr)
            kept.append((case, n, {"op": "split_in_asymmetric_subunits", "n": n, "layer": "float", "divides360": 360 % n == 0}))
        if err is not None:
            n = case["n"] if not obs else case.get("n2", case["n"])
            ctx.fail("call_raises", "n=%d (%r): %s" % (n, sym_arg(n, case["spelling"]), err), case,
                     {"op": "split_in_asymmetric_subunits", "n": n, "layer": "float", "divides360": 360 % n == 0})
    if not traces:
        return
    # binding self-test: a corrupted copy of the first trace (one in-plane index off) must be rejected
    canary = json.loads(json.dumps(traces[0]))
    canary["id"] = 0
    r0 = canary["groups"][0][1][0]
    r0[2] = (r0[2] + 1) % max(2, canary["n"]) if canary["n"] > 1 else 5
    wd = ctx.sub("trace")
    path = os.path.join(wd, "traces.ndjson")
    with open(path, "w") as fh:
        for t in traces:
            fh.write(json.dumps(t) + "\n")
        fh.write(json.dumps(canary) + "\n")
    res = ctx.tlc("SymExpandTrace", "SPECIFICATION TraceSpec\nCONSTANTS\n Tol = 10\nCONSTRAINT Report\n", name="trace",
                  env={"TRACE_FILE": path}, workers=1)
    verdicts = {v["tid"]: v for v in res.tagged.get("VERDICT", [])}
    if len(verdicts) != len(traces) + 1:
        raise core.MachineryError("SymExpandTrace returned %d verdicts for %d traces\n%s" % (
            len(verdicts), len(traces) + 1, res.stdout[-2000:]))
    if verdicts[len(traces) + 1]["ok"]:
        raise core.MachineryError("SymExpandTrace accepted a corrupted trace (binding self-test)")
    for i, (case, n, sig) in enumerate(kept):
        v = verdicts[i + 1]
        if not v["ok"]:
            ctx.fail(v["clause"], "n=%d, %d particles, offset %s%s: observed expansion rejected by SymExpandTrace%s" % (
                n, len(case["parts"]), case["off"], " (second call on the same list and offset object)" if n != case["n"] else "",
                ": " + traces[i]["frame"] if traces[i].get("frame") else ""), case, sig)


def replay(ctx, case):
    if case["kind"] == "mixed":
        motlsys.run_mixed(ctx, "sym", [case])
        return
    if case["kind"] == "exact":
        run_exact(ctx, {"case": case["case"], "outs": case["outs"]}, case.get("variant", 0))
    elif case["kind"] == "float":
        run_float(ctx, [case])
    else:
        raise core.MachineryError("unknown case kind")


def run(ctx):
    ctx.rule = ("L2: every exact case of MC_SymExpand (n in {1,2,4} x 24 parent orientations x 6 offsets x 3 position/shift "
                "splits, two parents) replayed and compared as cube elements / lattice positions; L3: every n in 1..64 "
                "and 122, 197 x five spellings (both tiers; larger lists for n <= 16 quick / all n thorough) x random "
                "real-valued lists validated by SymExpandTrace.  "
                "distinct = distinct (list, n, spelling, offset) cases")
    ctx.assumptions += [
        "the subunit index may start at 0 or 1 (k-th = R.Rz(360(k-1)/n) or R.Rz(360k/n)); both describe the same orbit",
        "projection alpha (own Euler->matrix routine, lattice snap 1e-9, residuals x1e7 with tolerance 1e-6) is trusted",
        "input subtomogram numbers are unique (unsorted, non-consecutive); the symmetry number is passed as Python int, float or numpy.int64",
        "at exact half-voxel ties either integral neighbour is accepted",
    ]
    only = getattr(ctx, "only", None)
    if not only or "exact" in only:
        cfgt = "SPECIFICATION Spec\nCONSTANTS\n Cases <- AllCases\n%s\nPROPERTY C10_ArgumentsUntouched\nCONSTRAINT Emit\n" % "\n".join("INVARIANT " + i for i in INVS)
        res = ctx.tlc("MC_SymExpand", cfgt, name="exact", workers=1)
        recs = [r for r in res.tagged.get("EXP", []) if r["case"]["ps"]]
        if len(recs) < 1000:
            raise core.MachineryError("exact scope produced %d cases\n%s" % (len(recs), res.stdout[-1500:]))
        ctx.exhaustive["L1_all_cases"] = True
        keyed = sorted(recs, key=lambda r: core.stable_hash([ctx.seed, r["case"]]))
        chosen = keyed[:ctx.pick(700, len(keyed))]
        ctx.exhaustive["L2_exact"] = len(chosen) == len(keyed)
        ctx.extra["exact_cases"] = len(recs)
        ctx.extra["exact_replayed"] = len(chosen)
        for i, r in enumerate(chosen):
            run_exact(ctx, r, (ctx.seed * 7919 + i) % 100003)
    if not only or "float" in only:
        rng = random.Random(ctx.seed * 15485863 + 10)
        # every order of the property's range (and the larger ones of MC_SymExpand's NDomain) in every spelling, in
        # both tiers: the count / index clauses must hold for each n, not for a sample of them
        ndomain = list(range(1, 65)) + [122, 197]
        nrich = ctx.pick(16, 64)                 # orders that also get larger / repeated lists
        cases = []
        idx = 0
        for n in ndomain:
            for spelling in range(5):
                reps = ctx.pick(1, 8) if n <= nrich else 1
                for rep in range(reps):
                    idx += 1
                    if n > nrich:
                        npart = rng.randint(1, 2)
                    elif rep == 0 and (n + spelling) % 7 == 0:
                        npart = rng.choice([60, 100]) if not ctx.quick else 40
                    else:
                        npart = rng.randint(1, 12)
                    cases.append(gen_float_case(rng, idx, n, spelling, npart))
        ctx.exhaustive["L3_every_n_1_64_and_122_197_x_5_spellings"] = True
        ctx.extra["float_cases"] = len(cases)
        run_float(ctx, cases)
    if not only or "mixed" in only:
        # composition: C1 / C2 / C4 expansions interleaved with pose / set / spatial operations and format round trips
        # on one live list (MotlSysTrace.tla, Scope = "sym": only the expansion steps are judged)
        motlsys.run(ctx, "sym", ctx.pick(120, 2500))

"""C16 - dose filtering applies the Grant-Grigorieff exposure attenuation.

L1  Dose.tla (MC_Dose) is model-checked: on stacks whose measured frequencies lie on the calibration grid the clause
    set (DoseClauses) accepts the filter of the statement and rejects five wrong variants (constant off by 2 %,
    factor 2 dropped, doses reversed, frequency scaled by the wrong image dimension, DC attenuated); table sanity.
L3  stacks of 1..10 images (independent even/odd sizes 4..64, pixel sizes 0.5..10 A, doses 0..300 e/A^2 in any order,
    as array or one-value-per-line file) are filtered with cryocat.tiltstack.dose_filter; the driver measures the gain of
    every integer frequency of every image (impulse images; random images and plane waves for agreement), converts
    it to the attenuation exponent -ln(gain) x 1000 (clamped) and DoseTrace.tla evaluates the clauses: DC/mean,
    A >= 0, zero dose, radial in Q = (kx H)^2 + (ky W)^2 and non-decreasing, dose pairing/proportionality, more
    dose attenuates more, composition, and the calibration table (tools/gen_critexp.py, from the statement).
The driver has no oracle of its own; it never evaluates the closed form."""
import contextlib
import io
import json
import math
import os
import subprocess
import sys

import numpy as np

from .. import argguard, core

L1_INVS = ["TypeOK", "C16_ClauseSetDiscriminates", "C16_SpecVariantSatisfiesEveryClause", "C16_ZeroDoseAndComposition"]
SAT = 23000           # must equal DoseClauses!Sat
CLAMP = 2000000
TLC_WORKERS = 4
GRID_L = [25, 50, 100, 200, 400]      # W*px (or H*px) in Angstrom so that on-axis frequencies fall on m/200 1/A


def quiet(fn, *a, **kw):
    with contextlib.redirect_stdout(io.StringIO()), np.errstate(all="ignore"):
        return fn(*a, **kw)


def clampi(x, lo=-CLAMP, hi=CLAMP):
    if x != x:
        return hi
    return int(max(lo, min(hi, round(float(x)))))


def dose_arg(ctx, doses, how, tag):
    if how == "array":
        return np.array(doses, dtype=float)
    if how == "list":
        return [float(d) for d in doses]
    if how == "csv":                     # table with a CorrectedDose column (and removed tilts that must be skipped)
        path = os.path.join(ctx.workdir, "dose_%s.csv" % tag)
        with open(path, "w") as fh:
            fh.write(",CorrectedDose,Removed\n")
            for i, d in enumerate(doses):
                fh.write("%d,%.3f,False\n" % (2 * i, d))
                if i == 0:
                    fh.write("%d,%.2f,True\n" % (2 * i + 1, 77.0))
        return path
    path = os.path.join(ctx.workdir, "dose_%s.txt" % tag)
    with open(path, "w") as fh:
        for d in doses:
            fh.write("%.3f\n" % d)
    return path


def px_arg(px, spelling):
    if spelling == "np64":
        return np.float64(px)
    if spelling == "np32" and float(np.float32(px)) == float(px):
        return np.float32(px)
    if spelling == "str":
        return repr(float(px))
    if spelling in ("int", "npi32", "npi64") and float(px) == int(px):
        return {"int": int, "npi32": np.int32, "npi64": np.int64}[spelling](int(px))
    return float(px)


FORMS = ["xyz_c", "xyz_f", "xyz_view", "zyx_c", "xyz_ro", "xyz_strided", "xyz_c_outzyx", "zyx_c_outxyz"]


def to_form(canon, form):
    """gamma for the storage form of a stack whose canonical content is canon[x, y, image]:
    xyz_c     C-ordered (W, H, n) array, input_order 'xyz' (default)
    xyz_f     Fortran-ordered (W, H, n) array
    xyz_view  transposed view of a C-ordered (n, H, W) array
    zyx_c     C-ordered (n, H, W) array handed over with input_order = output_order = 'zyx'
    Returns (array, keyword arguments)."""
    if form == "xyz_f":
        return np.asfortranarray(canon), {}
    if form == "xyz_view":
        return np.ascontiguousarray(np.transpose(canon, (2, 1, 0))).transpose(2, 1, 0), {}
    if form == "zyx_c":
        return np.ascontiguousarray(np.transpose(canon, (2, 1, 0))), {"input_order": "zyx", "output_order": "zyx"}
    if form == "zyx_c_outxyz":
        return np.ascontiguousarray(np.transpose(canon, (2, 1, 0))), {"input_order": "zyx", "output_order": "xyz"}
    if form == "xyz_c_outzyx":
        return np.ascontiguousarray(canon), {"input_order": "xyz", "output_order": "zyx"}
    if form == "xyz_ro":                 # read-only array
        a = np.array(canon, order="C", copy=True)
        a.setflags(write=False)
        return a, {}
    if form == "xyz_strided":            # every other image of a larger stack: a non-contiguous view
        big = np.full(canon.shape[:2] + (2 * canon.shape[2],), 3.25, dtype=canon.dtype)
        big[:, :, ::2] = canon
        return big[:, :, ::2], {}
    return np.ascontiguousarray(canon), {}


def from_form(out, form):
    zyx_out = form in ("zyx_c", "xyz_c_outzyx")
    return out.transpose(2, 1, 0) if (zyx_out and isinstance(out, np.ndarray) and out.ndim == 3) else out


def apply_filter(ctx, stack, px, doses, how, tag="a", form="xyz_c", obs=None, pxas="float"):
    """dose_filter on `stack` (canonical [x, y, image] content) handed over in the storage form `form`; the result is
    returned in canonical axes.  obs['argmut'] is set when the array that was handed over differs afterwards."""
    from cryocat import tiltstack
    arg, kw = to_form(stack, form)
    dose_in = dose_arg(ctx, doses, how, tag)
    guard = argguard.Guard(stack=arg, doses=dose_in)
    filetext = open(dose_in).read() if isinstance(dose_in, str) else None
    out = quiet(tiltstack.dose_filter, arg, px_arg(px, pxas), dose_in, **kw)
    if obs is not None:
        why = guard.changed()
        if why is None and filetext is not None and open(dose_in).read() != filetext:
            why = "dose file rewritten"
        if why:
            obs["argmut"] = True
            obs["why"] = why
    return from_form(out, form)


def exponents(G):
    """alpha: measured gains (n, W, H) -> attenuation exponents x1000, clamped to [-CLAMP, SAT]."""
    g = np.nan_to_num(np.real(G), nan=1e30, posinf=1e30, neginf=-1e30)
    out = np.full(g.shape, SAT, dtype=np.int64)
    ok = g > 1e-10
    a = np.rint(-np.log(np.where(ok, g, 1.0)) * 1000.0)
    out[ok] = np.clip(a[ok], -CLAMP, SAT).astype(np.int64)
    return out


def sorted_entries(W, H):
    """Every integer frequency index, in the order (Q, kx, ky) - a hint that DoseTrace verifies."""
    ks = [(kx, ky) for kx in range(-(W // 2), (W + 1) // 2) for ky in range(-(H // 2), (H + 1) // 2)]
    ks.sort(key=lambda k: ((k[0] * H) ** 2 + (k[1] * W) ** 2, k[0], k[1]))
    return ks


def gains_of(out, W, H, n):
    """DFT of the filtered impulse stack: (n, W, H) complex."""
    return np.stack([np.fft.fft2(out[:, :, i]) for i in range(n)])


def tiltstack_mod():
    from cryocat import tiltstack
    return tiltstack


def measure(ctx, case):
    """Runs dose_filter on the probes of one case and projects the observations (no verdict here)."""
    import random
    W, H, n, px = case["W"], case["H"], case["n"], case["px"]
    d = [x / 1000.0 for x in case["d1000"]] if case.get("d1000") else [x / 100.0 for x in case["d100"]]
    how = case["doses_as"]
    rng = random.Random(case["mseed"])
    nprng = np.random.default_rng(case["mseed"])
    form = case.get("form", "xyz_c")
    obs = {"argmut": False}
    _apply = globals()["apply_filter"]

    def apply_filter(ctx_, stack, px_, doses, how_, tag="a"):          # every call of this case uses the case's form
        return _apply(ctx_, stack, px_, doses, how_, tag, form=form, obs=obs, pxas=pxas)
    pxas = case.get("pxas", "float")
    # call history: other public functions of the module with non-default options run first
    other = nprng.normal(size=(max(W, 5), max(H, 5), n + 1))
    quiet(tiltstack_mod().crop, other, new_width=max(W, 5) - 1, new_height=max(H, 5) - 2, output_order="zyx")
    quiet(tiltstack_mod().flip_along_axes, np.ascontiguousarray(other.transpose(2, 1, 0)), ["x", "z"], input_order="zyx")
    imp = np.zeros((W, H, n))
    imp[0, 0, :] = 1.0
    # a call with the same stack shape but another pixel size and other doses comes first: nothing of it may leak
    # into the measured calls (memoised frequency arrays, cached attenuation tables ...)
    decoy_px = px * 1.37 if px * 1.37 <= 10.0 else px / 1.37
    apply_filter(ctx, imp, decoy_px, [min(300.0, x * 0.5 + 11.0) for x in d], how, "d")
    o_imp = apply_filter(ctx, imp, px, d, how)
    t = {"W": W, "H": H, "n": n, "d100": case["d100"], "lx100": case["lx100"], "ly100": case["ly100"],
         "xexact": case["xexact"], "yexact": case["yexact"], "complete": True, "real": True}
    if not (isinstance(o_imp, np.ndarray) and np.isrealobj(o_imp) and o_imp.shape == (W, H, n)):
        t["real"] = False
        o_imp = np.zeros((W, H, n))
    G = gains_of(o_imp, W, H, n)
    ents = sorted_entries(W, H)
    ix = np.array([k[0] % W for k in ents])
    iy = np.array([k[1] % H for k in ents])
    t["ent"] = [list(k) for k in ents]
    t["A"] = exponents(G)[:, ix, iy].tolist()
    # near-equal doses: the log ratio of the two gains at the frequency with the largest radial key (x1e9)
    t["near"] = []
    for (i, j) in case.get("near", []):
        gi, gj = float(G[i, ix[-1], iy[-1]].real), float(G[j, ix[-1], iy[-1]].real)
        nl = math.log(gi / gj) * 1e9 if gi > 0 and gj > 0 else float("nan")
        t["near"].append({"i": i + 1, "j": j + 1, "dd": int(round((d[j] - d[i]) * 1e6)), "nl": clampi(nl)})
    # random images: agreement with the impulse gains (linear, diagonal in Fourier space), mean, linearity
    R = nprng.normal(size=(W, H, n)) + nprng.uniform(-2, 2)
    R2 = nprng.normal(size=(W, H, n))
    R0 = R.copy()
    dose_in = dose_arg(ctx, d, how, "r")
    dose_before = open(dose_in).read() if isinstance(dose_in, str) else np.array(dose_in, dtype=float).copy()
    from cryocat import tiltstack
    # ONE array object in the case's storage form, reused for every call of this block
    Rf, kw = to_form(R, form)
    Rf0 = Rf.copy()
    R2f, _ = to_form(R2, form)
    pxv = px_arg(px, pxas)
    guard = argguard.Guard(stack=Rf, other_stack=R2f, doses=dose_in)
    first = quiet(tiltstack.dose_filter, Rf, pxv, dose_in, **kw)
    o_r = np.array(from_form(first, form), dtype=float)      # snapshot of the first result (canonical axes)
    # independence of calls: a later call leaves the earlier result alone; after the caller overwrites the returned
    # stacks the same call on the same array gives the same stack again; the arguments (stack, doses) are not modified
    second = quiet(tiltstack.dose_filter, Rf, pxv, dose_in, **kw)
    quiet(tiltstack.dose_filter, R2f, pxv, dose_in, **kw)     # and a later call with another stack of the same shape
    keep = float(np.max(np.abs(np.asarray(from_form(first, form), dtype=float) - o_r))) if np.shape(first) == np.shape(second) else 2.0
    for arr in (first, second):
        if isinstance(arr, np.ndarray) and arr.flags.writeable and not np.shares_memory(arr, Rf):
            arr[...] = 7.0
    third = np.asarray(from_form(quiet(tiltstack.dose_filter, Rf, pxv, dose_in, **kw), form), dtype=float)
    rep = float(np.max(np.abs(third - o_r))) if third.shape == o_r.shape else 2.0
    dose_after = open(dose_in).read() if isinstance(dose_in, str) else np.array(dose_in, dtype=float)
    argmut = guard.changed() is not None or not np.array_equal(Rf, Rf0) or not np.array_equal(R, R0) or not (
        dose_after == dose_before if isinstance(dose_in, str) else np.array_equal(dose_after, dose_before))
    FR = np.stack([np.fft.fft2(R[:, :, i]) for i in range(n)])
    Gr = gains_of(o_r, W, H, n) / FR
    spread = max(float(np.max(np.abs(Gr - G))), float(np.max(np.abs(G.imag))))
    scale = float(np.max(np.abs(R)))
    mean = max(abs(float(o_r[:, :, i].mean() - R[:, :, i].mean())) for i in range(n)) / scale
    o_r2 = np.asarray(apply_filter(ctx, R2, px, d, how), dtype=float)
    o_c = np.asarray(apply_filter(ctx, R + 2.0 * R2, px, d, how), dtype=float)
    lin = float(np.max(np.abs(o_c - o_r - 2.0 * o_r2))) / float(np.max(np.abs(R + 2.0 * R2)))
    # degenerate images inside an otherwise random stack: constant images (0, 1, 0.5, -3) must come back unchanged
    # (only the zero frequency is present and it is not attenuated), and nothing may turn into NaN
    consts = [0.0, 1.0, 0.5, -3.0]
    D = nprng.normal(size=(W, H, n))
    cidx = [i for i in range(n) if (i + case["mseed"]) % 2 == 0] or [0]
    for j, i in enumerate(cidx):
        D[:, :, i] = consts[(j + case["mseed"]) % 4]
    o_d = np.asarray(apply_filter(ctx, D, px, d, how), dtype=float)
    if o_d.shape != D.shape or not np.all(np.isfinite(o_d)):
        degen = float("nan")
    else:
        degen = max(float(np.max(np.abs(o_d[:, :, i] - D[:, :, i]))) for i in cidx)
    # pure plane waves: every integer frequency of small images, else axes, diagonals and a sample
    if W * H <= case.get("pw_limit", 150):
        ks = ents
    else:
        ks = set()
        for kx in range(-(W // 2), (W + 1) // 2):
            ks.add((kx, 0))
        for ky in range(-(H // 2), (H + 1) // 2):
            ks.add((0, ky))
        for m in range(1, min(W, H) // 2):
            ks.update([(m, m), (m, -m)])
        for _ in range(12):
            ks.add((rng.randrange(-(W // 2), (W + 1) // 2), rng.randrange(-(H // 2), (H + 1) // 2)))
        ks = sorted(ks)
        if len(ks) > case.get("pw_max", 40):
            ks = rng.sample(ks, case.get("pw_max", 40))
    xs, ys = np.meshgrid(np.arange(W), np.arange(H), indexing="ij")
    pw = leak = 0.0
    for (kx, ky) in ks:
        w = np.cos(2.0 * math.pi * (kx * xs / W + ky * ys / H) + rng.uniform(0.2, 1.2))
        ow = np.asarray(apply_filter(ctx, np.repeat(w[:, :, None], n, axis=2), px, d, how), dtype=float)
        Fw = np.fft.fft2(w)[kx % W, ky % H]
        for i in range(n):
            gk = np.fft.fft2(ow[:, :, i])[kx % W, ky % H] / Fw
            pw = max(pw, abs(gk - G[i, kx % W, ky % H]))
            leak = max(leak, float(np.max(np.abs(ow[:, :, i] - gk.real * w))))
    t.update({"rep": clampi(rep * 1e9 / scale), "keep": clampi(keep * 1e9 / scale), "argmut": bool(argmut or obs["argmut"])})
    t["degen"] = clampi(degen * 1e9)
    t.update({"spread": clampi(spread * 1e9), "mean": clampi(mean * 1e9), "lin": clampi(lin * 1e9), "pw": clampi(pw * 1e9),
              "leak": clampi(leak * 1e9)})
    # composition: d1 then d2 against d1 + d2 at once
    t["hascomp"] = bool(case.get("d2_100"))
    if t["hascomp"]:
        d2 = [x / 100.0 for x in case["d2_100"]]
        o12 = np.asarray(apply_filter(ctx, np.asarray(o_imp, dtype=float), px, d2, how, "b"), dtype=float)
        o2 = np.asarray(apply_filter(ctx, imp, px, d2, how, "b"), dtype=float)
        osum = np.asarray(apply_filter(ctx, imp, px, [a + b for a, b in zip(d, d2)], how, "c"), dtype=float)
        t["d2"] = case["d2_100"]
        t["A2"] = exponents(gains_of(o2, W, H, n))[:, ix, iy].tolist()
        t["A12"] = exponents(gains_of(o12, W, H, n))[:, ix, iy].tolist()
        t["Asum"] = exponents(gains_of(osum, W, H, n))[:, ix, iy].tolist()
    # the same stack and doses in other input forms: single precision array, stack files of every accepted extension,
    # output file written and read back - relative difference to the float64 result (x1e9)
    xres = []
    if case.get("xcheck"):
        from cryocat import cryomap
        import mrcfile
        ref = o_r
        amp = float(np.max(np.abs(ref))) or 1.0

        def relres(o, want_shape=True):
            o = np.asarray(o, dtype=float)
            return clampi(float(np.max(np.abs(o - ref))) / amp * 1e9) if o.shape == ref.shape else CLAMP
        r32 = R.astype(np.float32)
        o32 = quiet(tiltstack.dose_filter, r32, pxv, dose_in)
        xres.append({"name": "float32", "res": relres(o32)})
        zyx32 = np.ascontiguousarray(r32.transpose(2, 1, 0))
        for ext in case["xcheck"]:
            path = os.path.join(ctx.workdir, "stack_%d.%s" % (os.getpid(), ext))
            if ext in ("mrc", "rec", "em"):
                cryomap.write(zyx32, path, transpose=False)
            else:
                mrcfile.write(path, zyx32, overwrite=True)
            before = open(path, "rb").read()
            of = quiet(tiltstack.dose_filter, path, pxv, dose_in)
            same = open(path, "rb").read() == before
            xres.append({"name": "file_" + ext, "res": relres(of) if same else CLAMP})
            os.remove(path)
        outp = os.path.join(ctx.workdir, "filtered_%d.mrc" % os.getpid())
        oo = quiet(tiltstack.dose_filter, Rf, pxv, dose_in, output_file=outp, **kw)
        back = cryomap.read(outp, transpose=False).transpose(2, 1, 0) if os.path.exists(outp) else np.zeros((1,))
        xres.append({"name": "output_file_returned", "res": relres(from_form(oo, form))})
        xres.append({"name": "output_file_written", "res": relres(back)})
        if os.path.exists(outp):
            os.remove(outp)
        if guard.changed() is not None:
            obs["argmut"] = True
    t.update({"form": form, "pxas": pxas, "dosesas": {"array": "array", "list": "list", "file": "file", "csv": "csv"}[how],
              "xres": xres})
    t["argmut"] = bool(t["argmut"] or obs["argmut"])
    return t


def case_sig(case):
    return {"op": "dose_filter", "doses_as": "file" if case["doses_as"] == "file" else "array",
            "square": case["W"] == case["H"], "nimages": 1 if case["n"] == 1 else "2+", "form": case.get("form", "xyz_c")}


def run_traces(ctx, cases, name="trace", batch=40, need_calibration=False):
    calib_total = 0
    for start in range(0, len(cases), batch):
        chunk = cases[start:start + batch]
        live = []
        for case in chunk:
            ctx.ran(case)
            t, err = core.call_guarded(measure, ctx, case)
            if err is not None:
                ctx.fail("call_raises", err, case, case_sig(case))
                continue
            live.append((case, t))
        if not live:
            continue
        wd = ctx.sub("%s_%d" % (name, start // batch))
        path = os.path.join(wd, "traces.ndjson")
        with open(path, "w") as fh:
            for _, t in live:
                fh.write(json.dumps(t, separators=(",", ":")) + "\n")
        res = ctx.tlc("DoseTrace", "SPECIFICATION TraceSpec\nCONSTRAINT Report\n", name="%s_%d" % (name, start // batch),
                      env={"TRACE_FILE": path}, workers=TLC_WORKERS)
        os.remove(path)
        verdicts = {v["tid"]: v for v in res.tagged.get("VERDICT", []) if isinstance(v, dict)}
        if len(verdicts) != len(live):
            raise core.MachineryError("DoseTrace returned %d verdicts for %d traces\n%s" % (len(verdicts), len(live), res.stdout[-2000:]))
        for i, (case, t) in enumerate(live):
            v = verdicts[i + 1]
            calib_total += v.get("calib", 0)
            if v["ok"]:
                continue
            if v["clause"] == "malformed_trace":
                raise core.MachineryError("driver recorded a malformed table: %s" % ({k: case[k] for k in ("W", "H", "n", "d100")},))
            ctx.fail(v["clause"], "DoseTrace rejects the measured exponents (residuals x1e-9: spread=%d mean=%d lin=%d pw=%d leak=%d rep=%d keep=%d argmut=%s)" % (
                t["spread"], t["mean"], t["lin"], t["pw"], t["leak"], t["rep"], t["keep"], t["argmut"]), case, case_sig(case))
    ctx.extra["calibration_points_checked"] = ctx.extra.get("calibration_points_checked", 0) + calib_total
    if need_calibration and calib_total == 0 and not ctx.failures:
        raise core.MachineryError("coverage hole: no measured frequency fell on the calibration grid")


# ---- generator --------------------------------------------------------------------------------------------------
DOSE_MODES = ["random", "random", "sorted_up", "sorted_down", "with_zero", "equal_pair", "constant", "few_values",
              "zero_middle", "ramp_up", "ramp_down", "multiples", "distinct"]


def rand_doses(rng, n, lo=0.0, hi=300.0, need_big=False, mode=None):
    """Per-image doses in [lo, hi] e/A^2 (2 decimals), in any order: random, sorted, with exact zeros, repeated values,
    constant vectors, arithmetic ramps and d*(1..n)."""
    mode = mode or rng.choice(DOSE_MODES)
    ds = [round(rng.uniform(lo, hi), 2) for _ in range(n)]
    if mode == "distinct":          # strictly distinct per-image doses, at least 1 e/A^2 apart, in random order
        step = (hi - lo) / (n + 1)
        ds = [round(lo + (i + 1) * step + rng.uniform(-0.3, 0.3) * min(step, 3.0), 2) for i in range(n)]
        rng.shuffle(ds)
    if mode == "sorted_up":
        ds.sort()
    elif mode == "sorted_down":
        ds.sort(reverse=True)
    elif mode == "with_zero":
        ds[rng.randrange(n)] = 0.0
    elif mode == "equal_pair" and n > 1:
        ds[rng.randrange(n)] = ds[0]
    elif mode == "constant":
        ds = [round(rng.uniform(max(lo, 1.0), hi), 2)] * n
    elif mode == "few_values":
        pool = [round(rng.uniform(lo, hi), 2) for _ in range(2)]
        ds = [rng.choice(pool) for _ in range(n)]
    elif mode == "zero_middle" and n > 2:
        ds[rng.randrange(1, n - 1)] = 0.0
    elif mode in ("ramp_up", "ramp_down"):
        step = round(rng.uniform(0.5, (hi - lo) / max(n, 1)), 2)
        start = round(rng.uniform(lo, max(lo, hi - step * n)), 2)
        ds = [round(start + i * step, 2) for i in range(n)]
        if mode == "ramp_down":
            ds.reverse()
    elif mode == "multiples":
        d = round(rng.uniform(0.5, (hi - lo) / max(n, 1)), 2)
        ds = [round(d * (i + 1), 2) for i in range(n)]
    ds = [min(hi, max(lo, x)) for x in ds]
    if need_big and max(ds) < 50.0 and hi >= 50.0:
        if mode == "constant":
            ds = [round(rng.uniform(50.0, hi), 2)] * n
        else:
            ds[rng.randrange(n)] = round(rng.uniform(50.0, hi), 2)
    return ds


def int_px_case(rng, px, spelling, i):
    """Integer pixel size (Python int / numpy integer) with the image width on the calibration grid, non-zero doses."""
    widths = [L // px for L in GRID_L if L % px == 0 and 4 <= L // px <= 64 and 200 * ((L // px) // 2) >= 10 * L]   # m >= 10 reachable
    W = widths[i % len(widths)]
    H = rng.randint(4, 12)
    n = rng.randint(1, 4)
    return {"W": W, "H": H, "n": n, "mseed": rng.randrange(2 ** 31), "doses_as": ["array", "list", "file", "csv"][i % 4],
            "form": FORMS[i % len(FORMS)], "pxas": spelling, "px": float(px), "lx100": W * px * 100, "ly100": H * px * 100,
            "xexact": True, "yexact": True,
            "d100": [int(round(x * 100)) for x in rand_doses(rng, n, lo=50.0, need_big=True, mode="distinct")]}


def near_dose_case(rng, i):
    """Doses that differ by 1e-3 / 5e-3 e/A^2 inside one stack (three decimals), small enough that nothing saturates."""
    case = rand_case(rng, wh_lo=4, wh_hi=12, nmin=2, nmax=6, comp=False, doses_as=["array", "list", "file", "csv"][i % 4],
                     form=FORMS[i % len(FORMS)], force_grid=False)
    n = case["n"]
    base = [[12498, 12503], [100001, 100004], [5000, 5001], [19990, 19995]][i % 4]
    d1000 = [int(rng.uniform(1.0, 20.0) * 1000) for _ in range(n)]
    a, b = rng.sample(range(n), 2)
    d1000[a], d1000[b] = base[0], base[1]
    case["d1000"] = d1000
    case["d100"] = [int(round(x / 10.0)) for x in d1000]
    case["near"] = [[a, b]]
    case.pop("d2_100", None)
    return case


def rand_case(rng, wh_lo=4, wh_hi=64, nmax=10, area_cap=None, force_grid=None, comp=None, nmin=1, dose_mode=None,
              doses_as=None, form=None):
    while True:
        W, H = rng.randint(wh_lo, wh_hi), rng.randint(wh_lo, wh_hi)
        if rng.random() < 0.15:
            H = W
        if area_cap is None or W * H <= area_cap:
            break
    n = rng.randint(nmin, nmax)
    grid = force_grid if force_grid is not None else rng.random() < 0.6
    case = {"W": W, "H": H, "n": n, "mseed": rng.randrange(2 ** 31),
            "doses_as": doses_as or rng.choice(["array", "array", "list", "file", "csv"]),
            "form": form or rng.choice(["xyz_c", "xyz_c"] + FORMS), "pxas": rng.choice(["float", "float", "np64", "np32", "str"])}
    if rng.random() < 0.25:
        case["xcheck"] = rng.sample(["mrc", "st", "em", "rec", "ali"], 2)
    if grid:
        axis = rng.choice(["x", "y"])
        edge = W if axis == "x" else H
        options = [L for L in GRID_L if 0.5 <= L / edge <= 10.0]
        L = rng.choice(options)
        px = L / edge
        other = H if axis == "x" else W
        exact_other = (other * L * 100) % edge == 0
        l_axis, l_other = L * 100, (other * L * 100) // edge if exact_other else int(round(other * px * 100))
        if axis == "x":
            case.update({"lx100": l_axis, "ly100": l_other, "xexact": True, "yexact": exact_other})
        else:
            case.update({"ly100": l_axis, "lx100": l_other, "yexact": True, "xexact": exact_other})
    else:
        px = round(rng.uniform(0.5, 10.0), 3)
        case.update({"lx100": int(round(W * px * 100)), "ly100": int(round(H * px * 100)), "xexact": False, "yexact": False})
    case["px"] = px
    want_comp = comp if comp is not None else rng.random() < 0.35
    if want_comp:
        d1 = rand_doses(rng, n, 0.0, 150.0, need_big=grid, mode=dose_mode)
        d2 = rand_doses(rng, n, 0.0, 150.0, mode=dose_mode if dose_mode == "constant" else None)
        case["d100"] = [int(round(x * 100)) for x in d1]
        case["d2_100"] = [int(round(x * 100)) for x in d2]
    else:
        case["d100"] = [int(round(x * 100)) for x in rand_doses(rng, n, need_big=grid, mode=dose_mode)]
    return case


# ---- entry points ---------------------------------------------------------------------------------------------------
def replay(ctx, case):
    run_traces(ctx, [case], name="replaytrace")


def run(ctx):
    rng = ctx.rng
    ctx.rule = ("L1: Dose.tla accepts the statement's filter and rejects five wrong variants on grid stacks. L3: stacks of 1..10 "
                "images, W,H in 4..64 independently (even/odd, square and not), pixel sizes 0.5..10 A (60 % constructed so "
                "that on-axis frequencies hit the calibration grid m/200 1/A), doses 0..300 in any order - random, sorted, ramps, constant vectors, repeated values, exact zeros, d*(1..n) - as "
                "ndarray, list and file, "
                "gain of every integer frequency of every image measured on impulse images, cross-checked on random images "
                "and plane waves, composition by filtering twice; exponents -ln(gain) x1000 decided by DoseTrace. "
                "distinct = distinct (sizes, pixel size, doses, measurement seed)")
    ctx.assumptions += [
        "projection alpha (gain = DFT of the filtered impulse image; exponent = -ln(gain) x1000 rounded; gains below "
        "1e-10 are logged as saturated, A = 23000) is trusted",
        "the closed form is decided only at on-axis frequencies on the grid m/200 1/A, m = 10..100, for doses >= 50 e/A^2 "
        "(0.5 %); elsewhere only through the relational clauses (radial key, monotone, proportional, additive)",
        "independence of calls (repeat after overwriting the returned stack, earlier results unchanged, stack and dose "
        "arguments untouched) is read into 'the filter is linear': a function of its arguments",
        "storage forms of the stack: C / Fortran / transposed view with input_order xyz, C array with input_order zyx; "
        "stack sizes 1..10 as quantified plus 11, 12, 16 images (the statement speaks of every tilt image i)",
        "tolerances: 2e-3 in the exponent, 1e-8 on residuals (spreads, linearity, mean); float64 stacks",
        "calibration table generated by tools/gen_critexp.py with decimal from the closed form in the property statement"]
    # the committed calibration table must be what the tool generates from the statement
    tool = os.path.join(core.VERIF, "tools", "gen_critexp.py")
    p = subprocess.run([sys.executable, tool, "--check"], stdout=subprocess.PIPE, stderr=subprocess.STDOUT, text=True)
    if p.returncode != 0:
        raise core.MachineryError("spec/DoseTable.tla is not what tools/gen_critexp.py generates: %s" % p.stdout[-300:])
    only = getattr(ctx, "only", None)

    def want(x):
        return only is None or x in only

    if want("laws"):
        cfgt = ("SPECIFICATION Spec\nCONSTANTS\n DoseVectors <- MCDoseVectors\n Variants <- MCVariants\n"
                + "".join("INVARIANT %s\n" % i for i in L1_INVS))
        ctx.tlc("MC_Dose", cfgt, name="laws", workers=TLC_WORKERS)
        ctx.exhaustive["L1_variants_x_dose_vectors"] = True
    if want("trace"):
        cases = []
        if ctx.quick:
            for _ in range(36):
                cases.append(rand_case(rng, area_cap=1200, nmax=8))
            cases.append(rand_case(rng, wh_lo=40, wh_hi=64, nmax=3, force_grid=True, comp=False))
            cases.append(rand_case(rng, wh_lo=4, wh_hi=9, nmax=10, force_grid=True, comp=True))
            cases.append(rand_case(rng, wh_lo=20, wh_hi=40, nmax=10, area_cap=1000, force_grid=True, comp=True))
            # dose-vector shapes that loaders like to "interpret": constant vectors, d*(1..n), exact zeros in the middle,
            # ramps - each as ndarray, list and file, judged against the PASSED doses (pairing, calibration)
            for i, mode in enumerate(["constant", "constant", "constant", "multiples", "zero_middle", "ramp_down", "few_values",
                                      "ramp_up", "constant"]):
                cases.append(rand_case(rng, area_cap=500, nmin=2, nmax=7, force_grid=True, comp=(i == 8), dose_mode=mode,
                                       doses_as=["array", "list", "file"][i % 3]))
            # stack sizes over the whole range with strictly distinct doses (9, 10 and beyond), every storage form
            # every stack size 1..12 with strictly distinct doses, every storage form, every dose form
            for i, nimg in enumerate(range(1, 13)):
                cases.append(rand_case(rng, wh_lo=4, wh_hi=10, nmin=nimg, nmax=nimg, force_grid=(i % 2 == 0), comp=(i % 4 == 0),
                                       dose_mode="distinct", form=FORMS[i % len(FORMS)],
                                       doses_as=["array", "list", "file", "csv"][i % 4]))
            # the single-image stack once per dose form and once per storage form; sizes 2, 8, 9 with the dose as a list -
            # in EVERY run, whatever the seed (a one-element dose list / 0-d dose array is a classic special case)
            for i, how in enumerate(["list", "array", "file", "csv"]):
                cases.append(rand_case(rng, wh_lo=4, wh_hi=7, nmin=1, nmax=1, force_grid=(i % 2 == 0), comp=(i == 0),
                                       dose_mode="distinct", form="xyz_c", doses_as=how))
            for i, frm in enumerate(FORMS):
                cases.append(rand_case(rng, wh_lo=4, wh_hi=7, nmin=1, nmax=1, force_grid=(i % 2 == 1), comp=False,
                                       dose_mode="distinct", form=frm, doses_as=["list", "array"][i % 2]))
            for i, nimg in enumerate([2, 8, 9]):
                cases.append(rand_case(rng, wh_lo=4, wh_hi=7, nmin=nimg, nmax=nimg, force_grid=True, comp=(i == 0),
                                       dose_mode="distinct", form=FORMS[i], doses_as="list"))
            for i, frm in enumerate(FORMS):
                c = rand_case(rng, area_cap=300, nmin=2, nmax=5, comp=(i % 2 == 0), form=frm, force_grid=True)
                c["xcheck"] = [["mrc", "st", "em", "rec", "ali"][i % 5], ["mrc", "st", "em", "rec", "ali"][(i + 2) % 5]]
                c["pxas"] = ["float", "np64", "np32", "str", "int"][i % 5]
                cases.append(c)
            # integer pixel sizes 1, 2, 10 (and 4, 5) as int / np.int32 / np.int64, judged by the calibration clause
            for i, (pxi, sp) in enumerate([(1, "int"), (2, "npi64"), (10, "npi32"), (5, "int"), (4, "npi32"), (10, "int")]):
                cases.append(int_px_case(rng, pxi, sp, i))
            # doses of two images differing by 1e-3 / 5e-3 e/A^2 (12.498 / 12.503, 100.001 / 100.004 ...)
            for i in range(6):
                cases.append(near_dose_case(rng, i))
            for c in cases:
                c["pw_max"] = 16
        else:
            for _ in range(700):
                cases.append(rand_case(rng, area_cap=2500))
            for _ in range(30):
                cases.append(rand_case(rng, wh_lo=48, wh_hi=64, nmax=10))
            cases.append(rand_case(rng, wh_lo=64, wh_hi=64, nmax=10, force_grid=True, comp=True))
            for i in range(60):
                nimg = [1, 2, 4, 7, 8, 9, 10, 11, 12, 16][i % 10]
                cases.append(rand_case(rng, area_cap=600, nmin=nimg, nmax=nimg, dose_mode="distinct", form=FORMS[i % len(FORMS)],
                                       comp=(i % 3 == 0)))
            for i in range(40):
                cases.append(int_px_case(rng, [1, 2, 10, 5, 4][i % 5], ["int", "npi32", "npi64"][i % 3], i))
            for i in range(60):
                cases.append(near_dose_case(rng, i))
            for i in range(90):
                mode = ["constant", "multiples", "zero_middle", "ramp_down", "few_values", "ramp_up"][i % 6]
                cases.append(rand_case(rng, area_cap=900, nmin=2, force_grid=(i % 2 == 0), dose_mode=mode,
                                       doses_as=["array", "list", "file"][(i // 6) % 3]))
        run_traces(ctx, cases, batch=ctx.pick(40, 30), need_calibration=True)

"""C02 - STAR files read back to the same blocks, columns, rows and values.

L1   MC_Star / MC_StarFull: Parse(Render(doc, layout)) = doc over an exhaustive small scope of documents x layouts,
     Parse(WriterShape(doc)) = doc, column typing, decimal laws (ASSUMEs).
L2   reader: every text TLC renders (exhaustive scope + seeded documents/layouts rendered by StarCases.tla) is written to
     disk, read with Starfile.read and compared field by field with what the specification says a reader must return
     (names, labels, per column numeric-or-text, exact decimal value of numeric tokens, unchanged text).
L3   writer + round trip: seeded lists of tables -> Starfile.write; the bytes of the file are tokenized and parsed inside
     TLC (StarTrace.tla) and compared with the tables (after Rnd6) and with the frames Starfile.read returns.
"""
import json
import os
import string

import pathlib

from .. import argguard, core, motlutil, starutil as su

READ_INVS = ["C02_GrammarUnambiguous", "C02_WriterReadable", "C02_ColumnTypes"]

NAMES = ["data_", "data_particles", "data_optics", "data_stopgap_motivelist", "data_stopgap_wedgelist", "data_stopgap_x"]


def mc_cfg(init, emit, invs):
    lines = ["INIT %s" % init, "NEXT Next", "CONSTANTS", " Emit = %s" % ("TRUE" if emit else "FALSE")]
    lines += ["INVARIANT %s" % i for i in invs]
    if emit:
        lines.append("ACTION_CONSTRAINT EmitRead")
    return "\n".join(lines) + "\n"


# =================================================================================================
# L2 - reader
# =================================================================================================
def read_api(path, variant, nblocks):
    """The call under test, in the forms the library offers."""
    from cryocat.starfileio import Starfile
    v = variant % 3
    if variant % 2 == 1:
        path = pathlib.Path(path)               # str and Path are both accepted
    if v == 0:
        frames, specs, _ = Starfile.read(path)
        return list(frames), list(specs)
    if v == 1:
        sf = Starfile(path)
        return list(sf.frames), list(sf.specifiers)
    frames, specs = [], []
    for k in range(nblocks):
        f, s, _ = Starfile.read(path, data_id=k)
        frames.append(f)
        specs.append(s)
    # the whole-file call tells whether there are more blocks than expected
    allf, alls, _ = Starfile.read(path)
    if len(allf) != nblocks:
        return list(allf), list(alls)
    return frames, specs


def compare_read(ctx, got, expect, case, sig):
    """got: projected frames; expect: Typed(doc) as emitted by TLC.  Field by field; returns True when conforming."""
    if len(got) != len(expect):
        ctx.fail("C02_BlockNames", "reader returned %d blocks, the text has %d (%s)" % (
            len(got), len(expect), su.describe_blocks(got)), case, sig)
        return False
    for bi, (g, e) in enumerate(zip(got, expect)):
        where = "block %d (%s)" % (bi + 1, su.b2s(e["name"]))
        if g["name"] != e["name"]:
            ctx.fail("C02_BlockNames", "%s: specifier %r" % (where, su.b2s(g["name"])), case, sig)
            return False
        if g["labels"] != e["labels"]:
            ctx.fail("C02_Labels", "%s: labels %s expected %s" % (
                where, [su.b2s(x) for x in g["labels"]], [su.b2s(x) for x in e["labels"]]), case, sig)
            return False
        if len(g["rows"]) != len(e["rows"]):
            ctx.fail("C02_Rows", "%s: %d rows expected %d" % (where, len(g["rows"]), len(e["rows"])), case, sig)
            return False
        for k, (gt, et) in enumerate(zip(g["types"], e["types"])):
            if et != "none" and gt != et:
                ctx.fail("C02_ColumnTypes", "%s: column %s read as %s, the tokens are %s" % (
                    where, su.b2s(e["labels"][k]), gt, et), case, sig)
                return False
        for ri, (gr, er) in enumerate(zip(g["rows"], e["rows"])):
            for k, (gc, ec) in enumerate(zip(gr, er)):
                if "num" in ec:
                    ok = "num" in gc and su.float_matches_canon(float(su.fraction_of_canon(gc["num"])), ec["num"])
                else:
                    ok = gc == ec
                if not ok:
                    ctx.fail("C02_Rows", "%s: row %d column %s: read %s, the token is %s" % (
                        where, ri + 1, su.b2s(e["labels"][k]), su.cell_str(gc), su.cell_str(ec)), case, sig)
                    return False
    return True


def text_class(case):
    """Input class of a hand-built text (used in signatures only)."""
    last = bytes(case["lines"][-1]).strip() if case["lines"] else b""
    if case["expect"] and not case["expect"][-1]["rows"] and last.startswith(b"_"):
        return "empty_last_table_at_eof"          # the file ends with the last label line, no newline after it
    return "plain"


def run_read_case(ctx, case):
    """case: {kind: read, lines, expect, variant}"""
    path = os.path.join(ctx.workdir, "rd_%d.star" % os.getpid())
    su.write_lines(path, case["lines"])
    sig = {"op": "read", "text_class": text_class(case)}
    res, err = core.call_guarded(read_api, path, case.get("variant", 0), len(case["expect"]))
    ctx.ran(case)
    if err is not None:
        ctx.fail("call_raises", "Starfile.read: %s" % err, case, sig)
        return
    frames, specs = res
    got = su.project_frames(frames, specs)
    compare_read(ctx, got, case["expect"], case, sig)


# ---- seeded documents and layouts (rendered by TLC) --------------------------------------------------
LETTERS = string.ascii_letters
# every printable ASCII character except '#' (33..126); blanks and '#' are excluded by the quantifier
TEXTCH = "".join(chr(c) for c in range(33, 127) if chr(c) != "#")
PUNCT = "".join(ch for ch in TEXTCH if not ch.isalnum())


def gen_label(rng, used):
    while True:
        s = rng.choice(["rln", "", "_rln", "wrp", ""]) + rng.choice(LETTERS) + "".join(
            rng.choice(LETTERS + string.digits + "_") for _ in range(rng.randint(0, 14)))
        if s not in used:
            used.add(s)
            return s


def gen_num_token(rng):
    k = rng.random()
    sign = rng.choice(["", "", "-", "-", "+"])
    if k < 0.3:
        body = str(rng.randint(0, 10 ** rng.randint(1, 9)))
        if rng.random() < 0.1:
            body = "0" * rng.randint(1, 2) + body
    elif k < 0.75:
        ip = str(rng.randint(0, 10 ** rng.randint(1, 6)))
        fp = "".join(rng.choice(string.digits) for _ in range(rng.randint(0, 7)))
        body = rng.choice([ip + "." + fp, ip + "." + fp, "." + (fp or "5"), ip + "."])
    else:
        ip = str(rng.randint(0, 9999))
        fp = "".join(rng.choice(string.digits) for _ in range(rng.randint(0, 5)))
        body = ip + ("." + fp if fp or rng.random() < 0.3 else "") + rng.choice("eE") + rng.choice(["", "-", "+"]) + str(rng.randint(0, 25))
    return sign + body


def is_safe_text(tok):
    """Text tokens of the quantifier: no blanks, no '#', not starting with '_', evidently not numeric, not a keyword."""
    if not tok or tok[0] == "_" or tok == "loop_":
        return False
    low = tok.lower().lstrip("+-")
    if low in ("nan", "inf", "infinity"):
        return False
    return any(ch in LETTERS and ch not in "eE" for ch in tok)


# non-ASCII text tokens (Latin-1 letters, Greek, micro sign, Angstrom, CJK, an emoji); none of them is whitespace.
# Only generated when the interpreter's default text encoding is UTF-8 (the library opens files with the default encoding).
NONASCII = ["se\u00f1al", "\u03a9x", "\u00b5m", "\u00c52", "na\u00efve", "gr\u00fc\u00dfe", "\u03bbmax", "\u4e2da", "x\U0001f600", "caf\u00e9",
            "\u00e0b", "r\u00e9sum\u00e9_1", "\u0394z", "t\u00f6mo/\u00e5.mrc", "\u65e5\u672cx"]
USE_NONASCII = su.default_encoding_is_utf8()


def gen_text_token(rng):
    while True:
        k = rng.random()
        if k < 0.08 and USE_NONASCII:
            return rng.choice(NONASCII) if rng.random() < 0.7 else rng.choice(NONASCII) + rng.choice(["_a", "k", ".x", "-b"])
        if k < 0.18:
            tok = rng.choice(["data_x", "data_", "TS_01/12.mrc", "a", "12ab", "1e5x", "x1e5", "A", "B", "-x", "+y", "1.2.3v",
                              'ab"c', '"ab"', "'q'", "a,b", "a;b", "a\\b", "a|b", "$x", "x=1", "k:v", '""x', "x'", "`t`", "a,\"b"])
        elif k < 0.55:
            tok = "".join(rng.choice(TEXTCH) for _ in range(rng.randint(1, 14)))
        elif k < 0.8:
            # a word with one or two punctuation characters in it (quotes, commas, backslashes, ...)
            w = [rng.choice(LETTERS + string.digits) for _ in range(rng.randint(1, 8))]
            for _ in range(rng.randint(1, 2)):
                w.insert(rng.randint(0, len(w)), rng.choice(PUNCT))
            tok = "".join(w)
        else:
            tok = "".join(rng.choice(LETTERS + string.digits + "_./:-") for _ in range(rng.randint(1, 14)))
        if is_safe_text(tok):
            return tok


def gen_gap(rng, kinds, lo, hi):
    return [rng.choice(kinds) for _ in range(rng.randint(lo, hi))]


def gen_blanks(rng, lo, hi):
    return [rng.choice([32, 32, 9]) for _ in range(rng.randint(lo, hi))]


def gen_layout(rng):
    anyk = ["blank", "ws", "comment", "icomment"]
    return {"pre": gen_gap(rng, anyk, 0, 3), "between": gen_gap(rng, anyk, 1, 3),
            "afterName": gen_gap(rng, ["blank", "ws"], 0, 2), "afterLabels": gen_gap(rng, anyk, 0, 3),
            "post": gen_gap(rng, ["blank", "ws"], 0, 2), "suffix": rng.choice(["none", "sp", "tab"]),
            "seps": [gen_blanks(rng, 1, 4) for _ in range(rng.randint(1, 3))],
            "lead": gen_blanks(rng, 0, 3) if rng.random() < 0.4 else [], "trail": gen_blanks(rng, 0, 3) if rng.random() < 0.5 else [],
            "crlf": rng.random() < 0.4, "finalNL": rng.random() < 0.6}


def gen_doc(rng, maxb, maxc, maxr):
    nb = rng.randint(1, maxb)
    doc, types = [], []
    names = rng.sample(NAMES, nb) if rng.random() < 0.8 else [rng.choice(NAMES) for _ in range(nb)]
    for b in range(nb):
        nc = rng.randint(1, maxc)
        last = b == nb - 1
        nr = rng.randint(0 if last and rng.random() < 0.25 else 1, maxr)
        used = set()
        labels = [gen_label(rng, used) for _ in range(nc)]
        kinds = [rng.choice(["num", "num", "text"]) for _ in range(nc)]
        cols = []
        for k in kinds:
            if k == "num":
                cols.append([gen_num_token(rng) for _ in range(nr)])
            else:
                col = [gen_text_token(rng) for _ in range(nr)]
                # text columns may hold numeric-looking tokens as long as the column is not purely numeric
                for r in range(1, nr):
                    if rng.random() < 0.25:
                        col[r] = gen_num_token(rng)
                cols.append(col)
        rows = [[su.s2b(cols[k][r]) for k in range(nc)] for r in range(nr)]
        doc.append({"name": su.s2b(names[b]), "labels": [su.s2b(l) for l in labels], "rows": rows})
        types.append(kinds if nr > 0 else ["none"] * nc)
    return doc, types


def run_seeded_reader(ctx, n, maxb, maxc, maxr):
    wd = ctx.sub("cases")
    path = os.path.join(wd, "cases.ndjson")
    with open(path, "w") as fh:
        for i in range(n):
            doc, types = gen_doc(ctx.rng, maxb, maxc, maxr)
            fh.write(json.dumps({"doc": doc, "lay": gen_layout(ctx.rng), "mode": "read", "types": types}) + "\n")
    res = ctx.tlc("StarCases", mc_cfg("CaseInit", True, READ_INVS[:1] + ["C02_DeclaredTypes"]), name="cases",
                  env={"CASE_FILE": path}, workers=1)
    recs = res.tagged.get("RD", [])
    if len(recs) != n:
        raise core.MachineryError("StarCases emitted %d texts for %d cases" % (len(recs), n))
    for rec in sorted(recs, key=lambda r: r["cid"]):
        if not rec["ok"]:
            raise core.MachineryError("StarCases rendered an ill-formed text (case %d)" % rec["cid"])
        run_read_case(ctx, {"kind": "read", "lines": rec["lines"], "expect": rec["expect"], "lay": rec["lay"],
                            "variant": rec["cid"] + ctx.seed})
    return n


# =================================================================================================
# L3 - writer and round trip
# =================================================================================================
def gen_float(rng):
    while True:
        k = rng.random()
        if k < 0.45:
            v = rng.uniform(-1, 1) * 10 ** rng.randint(-2, 6)
        elif k < 0.6:
            v = round(rng.uniform(-1e4, 1e4), rng.randint(0, 5))
        elif k < 0.7:
            v = float(rng.randint(-10 ** 6, 10 ** 6))
        elif k < 0.8:
            v = rng.uniform(-1, 1) * 10 ** rng.randint(-9, -4)          # rounds to (-)0.0 or a few 1e-6
        elif k < 0.9:
            v = rng.choice([0.0, -0.0, 1.0, -1.0, 180.0, -180.0, 0.5, 1e-6, -1e-6, 123456.654321, 9999999.0])
        else:
            v = rng.uniform(-1e7, 1e7)
        if abs(v) < 1e7 and not su.near_rounding_tie(v):
            return float(v)


def gen_table(rng, nr, nc):
    used = set()
    labels = [gen_label(rng, used) for _ in range(nc)]
    kinds = [rng.choice(["int", "float", "float", "text"]) for _ in range(nc)]
    cols = []
    for k in kinds:
        if k == "int":
            hi = rng.choice([9, 1000, 10 ** 6, 10 ** 12])
            col = [rng.randint(-hi, hi) for _ in range(nr)]
            if rng.random() < 0.12:              # block boundaries of the integer types
                for r in range(nr):
                    if rng.random() < 0.5:
                        col[r] = rng.choice([2 ** 31 - 1, 2 ** 31, -2 ** 31, -2 ** 31 - 1, 2 ** 32, 2 ** 53 - 1, 2 ** 53, 10 ** 15])
            cols.append(col)
        elif k == "float":
            cols.append([gen_float(rng) for _ in range(nr)])
        else:
            col = [gen_text_token(rng) for _ in range(nr)]
            for r in range(1, nr):
                if rng.random() < 0.15:
                    col[r] = gen_num_token(rng)
            cols.append(col)
    return {"labels": labels, "kinds": kinds, "cols": cols}


def gen_write_case(rng, idx, size):
    """size: 'small' | 'medium' | 'max'"""
    nb = 1 if isinstance(size, int) else rng.randint(1, 4) if size != "max" else rng.randint(1, 2)
    names = [rng.choice(NAMES) for _ in range(nb)]
    tables = []
    for b in range(nb):
        if isinstance(size, int):
            nr, nc = rng.randint(1, 2), size               # sweep: every column count 1..30 (label numbers #1..#30)
        elif size == "small":
            nr, nc = rng.randint(1, 6), rng.randint(1, 6)
        elif size == "medium":
            nr, nc = rng.randint(1, 60), rng.randint(1, 30)
        else:
            nr, nc = (200, 30) if b == 0 else (rng.randint(1, 20), rng.randint(1, 5))
        if b == nb - 1 and rng.random() < 0.12:
            nr = 0                                  # an empty table only as the last block
        t = gen_table(rng, nr, nc)
        t["name"] = names[b]
        tables.append(t)
    comments = None
    if rng.random() < 0.3:           # the comments option: per block None or a list of comment lines written before the block
        comments = [None if rng.random() < 0.4 else ["c%d %s" % (k, rng.choice(["made by", "_rlnX data_y loop_", "1 2 3", "x"]))
                                                     for k in range(rng.randint(1, 2))] for _ in range(nb)]
    return {"kind": "write", "id": idx, "tables": tables, "numbered": rng.random() < 0.6, "variant": rng.randint(0, 11),
            "comments": comments}


def build_frames(case):
    import pandas as pd
    frames = []
    for t in case["tables"]:
        data = {}
        for lab, kind, col in zip(t["labels"], t["kinds"], t["cols"]):
            if kind == "int":
                data[lab] = pd.Series(col, dtype="int64")
            elif kind == "float":
                data[lab] = pd.Series(col, dtype="float64")
            else:
                data[lab] = pd.Series(col, dtype=object) if case["variant"] % 2 == 0 else pd.Series(col, dtype="str")
        # a table handed to the writer may carry any row labels (sorted / sampled / filtered frames); rows are positional
        frames.append(motlutil.vary_index(pd.DataFrame(data, columns=t["labels"]), case["variant"] + len(frames)))
    return frames


def expect_of(case):
    out = []
    for t in case["tables"]:
        nr = len(t["cols"][0]) if t["cols"] else 0
        types = ["none" if nr == 0 else ("text" if k == "text" else "num") for k in t["kinds"]]
        rows = []
        for r in range(nr):
            row = []
            for k, col in zip(t["kinds"], t["cols"]):
                row.append({"text": su.s2b(col[r])} if k == "text" else {"num": su.canon_of_number(col[r])})
            rows.append(row)
        out.append({"name": su.s2b(t["name"]), "labels": [su.s2b(l) for l in t["labels"]], "types": types, "rows": rows})
    return out


def write_api(frames, path, names, numbered, variant, comments=None):
    """The caller's own containers are handed over (frames / specifiers / comments lists); str or Path."""
    from cryocat.starfileio import Starfile
    if variant % 4 == 1:
        path = pathlib.Path(path)
    kw = {} if comments is None else {"comments": comments}
    if numbered and variant % 3 == 0:
        Starfile.write(frames, path, specifiers=names, **kw)                 # number_columns defaults to True
    else:
        Starfile.write(frames, path, specifiers=names, number_columns=numbered, **kw)


def other_calls(ctx):
    """Unrelated public calls of the module, made between a write and the read of its file (no state may leak)."""
    from cryocat.starfileio import Starfile
    p = os.path.join(ctx.workdir, "other.star")
    with open(p, "w") as fh:
        fh.write("# other\ndata_optics\n\nloop_\n_rlnA #1\n_rlnB #2\n1 x\n2 y\n\ndata_stopgap_q\nloop_\n_k\n\n7.5\n")
    Starfile.read(p)
    Starfile.get_frame_and_comments(p, "data_stopgap_q")
    Starfile.remove_lines(p, [0], data_specifier="data_optics", number_columns=False)
    Starfile.get_specifier_id(["data_a", "data_b"], "data_b")


# corruption switch of the binding demonstration (never set in normal runs)
DEMO = os.environ.get("VERIF_C02_DEMO", "")


def run_write_cases(ctx, cases, name="trace"):
    wd = ctx.sub(name)
    tpath = os.path.join(wd, "traces.ndjson")
    live = []
    earlier = None               # (guard over the frames an earlier read returned, its case)
    with open(tpath, "w") as fh:
        for case in cases:
            frames = build_frames(case)
            names = [t["name"] for t in case["tables"]]
            comments = case.get("comments")
            # the same two paths are written over and over (nothing may be remembered per path)
            path = os.path.join(wd, "w_%s.star" % ("a" if case["id"] % 2 else "b"))
            # what the call has no business touching: the table objects themselves (values, labels, columns, dtypes) and the
            # specifier / comment containers.  (The writer may replace the slots of the frames LIST by rounded copies: the
            # property does not forbid that, the second write below shows it is harmless.)
            guard = argguard.Guard(tables={i: f for i, f in enumerate(frames)}, specifiers=names, comments=comments)
            _, err = core.call_guarded(write_api, frames, path, names, case["numbered"], case["variant"], comments)
            ctx.ran(case)
            if err is not None:
                ctx.fail("call_raises", "Starfile.write: %s" % err, case, {"op": "write"})
                continue
            why = guard.changed()
            if why is not None:
                ctx.fail("C02_ArgumentsUnchanged", "Starfile.write changed what the caller handed in - %s" % why, case,
                         {"op": "write", "arg": why.split(":")[0]})
            lines = su.file_lines(path)
            if case["id"] % 3 == 0:
                # the SAME list / specifier objects written once more, to another path with the other label style: that file and
                # its read-back must satisfy every clause against the ORIGINAL tables (validated by StarTrace like the first)
                path2 = os.path.join(wd, "w_again.star")
                _, err2 = core.call_guarded(write_api, frames, path2, names, not case["numbered"], case["variant"] + 1, comments)
                if err2 is not None:
                    ctx.fail("call_raises", "second Starfile.write with the same argument objects: %s" % err2, case, {"op": "write_again"})
                else:
                    res2, rerr2 = core.call_guarded(read_api, path2, case["variant"] + 1, len(names))
                    read2 = {"ok": rerr2 is None, "blocks": [] if rerr2 is not None else su.project_frames(res2[0], res2[1]), "err": rerr2}
                    fh.write(json.dumps({"id": case["id"], "lines": su.file_lines(path2), "numbered": not case["numbered"],
                                         "expect": expect_of(case), "read": {"ok": read2["ok"], "blocks": read2["blocks"]}}) + "\n")
                    live.append((case, read2, su.file_lines(path2), "write_again"))
                    os.remove(path2)
            if case["id"] % 4 == 0:
                _, oerr = core.call_guarded(other_calls, ctx)
                if oerr is not None:
                    # the auxiliary file is itself a text of the property's class: its calls must work
                    ctx.fail("call_raises", "Starfile calls on an auxiliary two-block file between write and read: %s" % oerr, case,
                             {"op": "auxiliary"})
            res, rerr = core.call_guarded(read_api, path, case["variant"], len(names))
            if earlier is not None:
                why = earlier[0].changed()
                if why is not None:
                    ctx.fail("C02_ResultPersistence", "frames returned by an earlier Starfile.read changed after later calls - %s" % why,
                             {"kind": "write_pair", "first": earlier[1], "second": case}, {"op": "read_written", "aliasing": True})
            earlier = None if rerr is not None else (argguard.Guard(earlier=[res[0], res[1]]), case)
            if rerr is not None:
                read = {"ok": False, "blocks": [], "err": rerr}
            else:
                read = {"ok": True, "blocks": su.project_frames(res[0], res[1])}
            if DEMO == "corrupt_read" and read["ok"] and read["blocks"] and read["blocks"][0]["rows"]:
                read["blocks"][0]["rows"][0][0] = {"text": su.s2b("corrupted")}
            os.remove(path)
            fh.write(json.dumps({"id": case["id"], "lines": lines, "numbered": case["numbered"],
                                 "expect": expect_of(case), "read": {"ok": read["ok"], "blocks": read["blocks"]}}) + "\n")
            live.append((case, read, lines, ""))
    if not live:
        return
    cfg = "SPECIFICATION TraceSpec\nCONSTRAINT Report\n"
    res = ctx.tlc("StarTrace", cfg, name=name, env={"TRACE_FILE": tpath}, workers=1)
    verdicts = {v["tid"]: v for v in res.tagged.get("VERDICT", [])}
    if len(verdicts) != len(live):
        raise core.MachineryError("StarTrace returned %d verdicts for %d traces\n%s" % (
            len(verdicts), len(live), res.stdout[-2000:]))
    for i, (case, read, lines, again) in enumerate(live):
        v = verdicts[i + 1]
        if v["ok"]:
            continue
        clause = v["clause"]
        if clause == "C02_ReadBack":
            ctx.fail("call_raises", "Starfile.read of the written file: %s" % read.get("err"), case, {"op": "read_written"})
            continue
        op = ("read_written" if clause.startswith("C02_Read") else "write") + ("_again" if again else "")
        ctx.fail(clause, "rejected by StarTrace (block %s); numbered=%s names=%s; file head: %r" % (
            v.get("block"), case["numbered"], [t["name"] for t in case["tables"]],
            su.b2s(sum([l + [10] for l in lines[:12]], []))[:300]), case, {"op": op})
    os.remove(tpath)


def parse_in_tlc(ctx, lines_list, name="parse"):
    """Typed(Parse(lines)) for each text, computed by TLC."""
    wd = ctx.sub(name)
    tpath = os.path.join(wd, "texts.ndjson")
    with open(tpath, "w") as fh:
        for lines in lines_list:
            fh.write(json.dumps({"lines": lines}) + "\n")
    res = ctx.tlc("StarTrace", "SPECIFICATION ParseSpec\nCONSTRAINT ParseReport\n", name=name, env={"TRACE_FILE": tpath}, workers=1)
    out = {v["tid"]: v for v in res.tagged.get("PARSED", [])}
    if len(out) != len(lines_list):
        raise core.MachineryError("StarTrace/ParseSpec returned %d parses for %d texts" % (len(out), len(lines_list)))
    return [out[i + 1] for i in range(len(lines_list))]


def replay(ctx, case):
    if case["kind"] == "read":
        # the expectation stored in the case was computed by TLC when the case was found; recompute it from the text
        p = parse_in_tlc(ctx, [case["lines"]])[0]
        if not p["ok"] or p["expect"] != case["expect"]:
            raise core.MachineryError("replayed text does not parse to the stored expectation")
        run_read_case(ctx, case)
    elif case["kind"] == "write":
        run_write_cases(ctx, [case], name="replay")
    elif case["kind"] == "write_pair":
        run_write_cases(ctx, [case["first"], case["second"]], name="replay")
    else:
        raise core.MachineryError("unknown case kind %r" % case.get("kind"))


# =================================================================================================
def run(ctx):
    ctx.rule = ("L2 reader: every (document, layout) text of the exhaustive MC_Star scope (<=2 blocks, <=2 labels, <=2 rows, "
                "token alphabet incl. data_x; gap / separator / label-comment / CRLF / final-newline layouts) plus seeded "
                "documents (<=4 blocks, <=8 labels, <=6 rows, random numeric spellings and text tokens, random layouts) rendered "
                "by TLC, each read by Starfile.read and compared with Typed(doc). L3: seeded lists of 1..4 tables (int / float / "
                "text columns, names data_, data_particles, data_optics, data_stopgap_*, number_columns on/off, an empty table only "
                "last) written by Starfile.write; the file bytes are parsed by Star!Parse in TLC and compared with the tables and "
                "with the frames read back. distinct = distinct texts / table lists")
    ctx.assumptions += [
        "float cells |v| < 1e7 and not within 0.01 of a 7th-decimal rounding tie (DataFrame.round is rint(x*1e6)/1e6; beyond "
        "~1e8 it perturbs the 6th decimal by an ulp, at a tie its outcome is not part of the property)",
        "numeric spellings: [+-] digits [. digits] [e|E [+-] digits] with <= 15 significant digits; text tokens contain a letter "
        "other than e/E, are not nan/inf/infinity/loop_ and do not start with '_'",
        "between two blocks at least one blank or comment line (rows end at the first such line; a data_x token inside rows is data)",
        "comment lines are generated before a block, after the labels and between blocks; blank lines also between name and "
        "loop_ and at the end of the file",
        "the split of the file at LF bytes and the interpretation of Rnd6 inputs (decimal of the float's shortest spelling) are "
        "done by the driver; tokenizing, parsing, typing, rounding and every comparison of the L3 traces are done by TLC",
    ]
    if USE_NONASCII:
        ctx.assumptions.append("non-ASCII text tokens are generated as UTF-8 (the interpreter's default text encoding is UTF-8; the "
                               "library opens STAR files with the default encoding on both sides)")
    else:
        ctx.discard("non-ASCII text tokens not generated: the default text encoding is not UTF-8")
    only = getattr(ctx, "only", None)

    def want(x):
        return not only or x in only

    # ---- L1 + L2: exhaustive scope ------------------------------------------------------------
    if want("mc"):
        if ctx.quick:
            res = ctx.tlc("MC_Star", mc_cfg("QuickInit", True, READ_INVS), name="mc_quick", workers=1)
        else:
            res = ctx.tlc("MC_StarFull", mc_cfg("FullInit", True, READ_INVS), name="mc_full", workers=1)
        recs = res.tagged.get("RD", [])
        if not recs:
            raise core.MachineryError("MC_Star emitted no ReadText transition")
        ctx.exhaustive["L1_%s_scope" % ctx.tier] = True
        keyed = sorted(recs, key=lambda r: core.stable_hash([ctx.seed, r["lines"]]))
        budget = ctx.pick(3000, 60000)
        chosen = keyed[:budget]
        ctx.exhaustive["L2_read_transitions"] = len(chosen) == len(keyed)
        ctx.extra["read_texts_emitted"] = len(recs)
        ctx.extra["read_texts_replayed"] = len(chosen)
        for i, rec in enumerate(chosen):
            if not rec["ok"]:
                raise core.MachineryError("MC_Star rendered an ill-formed text")
            run_read_case(ctx, {"kind": "read", "lines": rec["lines"], "expect": rec["expect"], "lay": rec["lay"],
                                "variant": i + ctx.seed})
    # ---- L2: seeded documents / layouts rendered by TLC ----------------------------------------
    if want("cases"):
        n = run_seeded_reader(ctx, ctx.pick(300, 4000), 4, ctx.pick(6, 8), ctx.pick(5, 6))
        ctx.extra["seeded_texts"] = n
    # ---- L3: writer + round trip --------------------------------------------------------------
    if want("write"):
        nsmall, nmed, nmax = ctx.pick((130, 6, 0), (2400, 120, 12))
        cases = []
        idx = 0
        for size, cnt in (("small", nsmall), ("medium", nmed), ("max", nmax)):
            for _ in range(cnt):
                idx += 1
                cases.append(gen_write_case(ctx.rng, idx, size))
        for nc in range(1, 31):                 # exhaustive small sweep: every column count of the quantifier
            idx += 1
            cases.append(gen_write_case(ctx.rng, idx, nc))
        batch = ctx.pick(400, 300)
        for s in range(0, len(cases), batch):
            run_write_cases(ctx, cases[s:s + batch], name="trace%d" % (s // batch))
        ctx.extra["written_files"] = len(cases)

"""Check context: tiers, seeds, work directories, violation / known-finding protocol, evidence."""
import hashlib
import json
import os
import random
import shutil
import sys
import time
import traceback

from . import tlc as tlcmod

VERIF = os.path.dirname(os.path.dirname(os.path.abspath(__file__)))
REPO = os.environ.get("VERIF_REPO", "/repo")
WORK = os.path.join(VERIF, "work")
REPLAYS = os.path.join(WORK, "replays")
# runs against a scratch tree (self-tests with VERIF_REPO=...) must not overwrite the evidence of /repo
EVIDENCE = os.path.join(VERIF, "evidence") if REPO == "/repo" else os.path.join(WORK, "evidence_scratch")
FINDINGS = os.path.join(VERIF, "known_findings.json")
CASES = os.path.join(VERIF, "cases")


class MachineryError(Exception):
    pass


def import_cryocat():
    """Import cryocat from REPO's working tree and assert that is where it came from."""
    if REPO not in sys.path[:1]:
        sys.path.insert(0, REPO)
    import cryocat  # noqa
    here = os.path.realpath(os.path.dirname(cryocat.__file__))
    if here != os.path.realpath(os.path.join(REPO, "cryocat")):
        raise MachineryError("cryocat imported from %s, expected %s/cryocat" % (here, REPO))
    return cryocat


def assert_cryocat_origin():
    """Every loaded cryocat module must come from REPO (a scratch tree that vanished mid-run would silently fall back
    to the editable install of /repo)."""
    root = os.path.realpath(os.path.join(REPO, "cryocat"))
    for name, mod in list(sys.modules.items()):
        if name == "cryocat" or name.startswith("cryocat."):
            f = getattr(mod, "__file__", None)
            if f and not os.path.realpath(f).startswith(root + os.sep):
                raise MachineryError("module %s was imported from %s, not from %s" % (name, f, root))


def stable_hash(obj):
    return hashlib.sha1(json.dumps(obj, sort_keys=True, default=str).encode()).hexdigest()[:12]


class Failure:
    """One violated clause on one case."""

    def __init__(self, clause, detail, case, signature=None):
        self.clause = clause
        self.detail = detail
        self.case = case
        self.signature = signature or {}


class Ctx:
    def __init__(self, pid_, tier, seed):
        self.pid = pid_
        self.tier = tier
        self.seed = seed
        self.rng = random.Random(seed * 1000003 + int(pid_[1:]))
        self.t0 = time.time()
        self.workdir = os.path.join(WORK, "%s-%s-%d" % (pid_, tier, os.getpid()))
        os.makedirs(self.workdir, exist_ok=True)
        os.makedirs(REPLAYS, exist_ok=True)
        self.states = 0
        self.transitions = 0
        self.traces = 0            # cases executed against the implementation
        self.evaluations = 0
        self.distinct = set()
        self.samples = []
        self.tlc_cmds = []
        self.tlc_runs = []
        self.coverage_actions = {}
        self.assumptions = []
        self.discarded = {}
        self.failures = []
        self.known_lines = []
        self.exhaustive = {}
        self.extra = {}
        self.rule = ""
        self.budget_s = float(os.environ.get("VERIF_BUDGET_S", "0") or 0)
        self.replay_mode = False

    @property
    def quick(self):
        return self.tier == "quick"

    def pick(self, quick, thorough):
        return quick if self.tier == "quick" else thorough

    def sub(self, name):
        d = os.path.join(self.workdir, name)
        os.makedirs(d, exist_ok=True)
        return d

    # ---- TLC -------------------------------------------------------------------------------
    def tlc(self, module, cfg, name=None, must_hold=True, require_actions=(), **kw):
        wd = self.sub(name or module)
        res = tlcmod.run(module, cfg, wd, **kw)
        self.states += res.distinct
        self.transitions += res.generated
        self.tlc_cmds.append(res.cmd)
        self.tlc_runs.append({"module": module, "name": name or module, "distinct": res.distinct,
                              "generated": res.generated, "wall_s": round(res.wall_s, 2),
                              "records": len(res.records) + sum(len(v) for v in res.tagged.values())})
        for a, (d, g) in res.coverage.items():
            old = self.coverage_actions.get(a, (0, 0))
            self.coverage_actions[a] = (old[0] + d, old[1] + g)
        if res.errors:
            raise MachineryError("TLC reported errors in %s: %s\n%s" % (module, res.errors[:3], res.stdout[-3000:]))
        if must_hold and res.violated:
            raise MachineryError("specification %s violates its own property %s (L1 failure, not a code "
                                 "violation)\n%s" % (module, res.violated, res.stdout[-3000:]))
        for a in require_actions:
            if a in res.coverage and res.coverage[a][1] == 0:
                raise MachineryError("coverage hole: action %s of %s never taken" % (a, module))
        return res

    # ---- accounting -----------------------------------------------------------------------
    def ran(self, case, nontrivial=True):
        """Account for one case executed against the implementation."""
        self.traces += 1
        self.evaluations += 1
        if nontrivial:
            self.distinct.add(stable_hash(case))
        if len(self.samples) < 4 or (len(self.samples) < 8 and self.rng.random() < 0.01):
            self.samples.append(_shrink_for_sample(case))

    def discard(self, why):
        self.discarded[why] = self.discarded.get(why, 0) + 1

    def fail(self, clause, detail, case, signature=None):
        sig = {"clause": clause}
        sig.update(signature or {})
        self.failures.append(Failure(clause, detail, case, sig))

    def time_left(self, total):
        return total - (time.time() - self.t0)


def _shrink_for_sample(case, limit=1500):
    s = json.dumps(case, default=str)
    if len(s) <= limit:
        return case
    return {"truncated": s[:limit] + "..."}


# ---- known findings ------------------------------------------------------------------------------
def load_findings(pid_):
    if not os.path.exists(FINDINGS):
        return []
    with open(FINDINGS) as fh:
        data = json.load(fh)
    return [f for f in data.get("findings", []) if f.get("property") == pid_]


def matches(sig, finding_sig):
    """A finding signature matches a failure when every key it names has the same value.
    A value in the finding may be a list of admissible values."""
    for k, v in finding_sig.items():
        have = sig.get(k)
        if isinstance(v, list):
            if have not in v:
                return False
        elif have != v:
            return False
    return True


def write_evidence(ctx, violations, level="model_checking"):
    os.makedirs(EVIDENCE, exist_ok=True)
    cov = {
        "states": int(ctx.states),
        "transitions": int(ctx.transitions),
        "traces_validated_against_impl": int(ctx.traces),
        "samples": ctx.samples[:8] if ctx.samples else [{"note": "no case executed"}],
        "evaluations": int(ctx.evaluations),
        "distinct_nontrivial": len(ctx.distinct),
        "rule": ctx.rule,
        "checker_cmd": ctx.tlc_cmds[0] if ctx.tlc_cmds else "",
        "tlc_runs": ctx.tlc_runs,
        "action_coverage": {k: {"distinct": v[0], "generated": v[1]} for k, v in sorted(ctx.coverage_actions.items())},
        "exhaustive": bool(ctx.exhaustive) and all(ctx.exhaustive.values()),
        "exhaustive_subruns": ctx.exhaustive,
        "discarded": ctx.discarded,
        "known_findings_reported": ctx.known_lines,
    }
    cov.update(ctx.extra)
    ev = {
        "property_id": ctx.pid,
        "tier": ctx.tier,
        "seed": int(ctx.seed),
        "level": level,
        "coverage": cov,
        "assumptions": ctx.assumptions,
        "wall_s": round(time.time() - ctx.t0, 2),
        "violations": int(violations),
    }
    validate_evidence(ev)
    path = os.path.join(EVIDENCE, ctx.pid + ".json")
    tmp = path + ".tmp%d" % os.getpid()
    with open(tmp, "w") as fh:
        json.dump(ev, fh, indent=1, default=str)
    os.replace(tmp, path)
    return path


def validate_evidence(ev):
    """Structural validation against EVIDENCE.schema.json (model_checking level)."""
    for k in ("property_id", "tier", "seed", "level", "coverage", "wall_s"):
        if k not in ev:
            raise MachineryError("evidence lacks %s" % k)
    if ev["tier"] not in ("quick", "thorough"):
        raise MachineryError("bad tier")
    if not isinstance(ev["seed"], int):
        raise MachineryError("seed must be int")
    c = ev["coverage"]
    if ev["level"] == "model_checking":
        if c.get("states", 0) < 1 or c.get("transitions", 0) < 1:
            raise MachineryError("model_checking evidence needs states>=1 and transitions>=1")
        if not isinstance(c.get("samples"), list) or not c["samples"]:
            raise MachineryError("evidence needs samples")
        if c.get("traces_validated_against_impl", -1) < 0:
            raise MachineryError("evidence needs traces_validated_against_impl")


def finish(ctx, keep_work=False):
    """Apply the known-findings filter, print VIOLATION / KNOWN-FINDING lines, write evidence.
    Returns the process exit status."""
    findings = load_findings(ctx.pid)
    open_f = [f for f in findings if f.get("status") == "open"]
    fresh = []
    known_hit = {}
    for fl in ctx.failures:
        hit = None
        for f in open_f:
            if matches(fl.signature, f.get("signature", {})):
                hit = f
                break
        if hit is not None:
            known_hit.setdefault(hit["id"], []).append(fl)
        else:
            fresh.append(fl)
    for f in open_f:
        if f["id"] in known_hit:
            line = "KNOWN-FINDING: property=%s %s [%s; %d case(s) this run]" % (
                ctx.pid, f["description"], f["id"], len(known_hit[f["id"]]))
            print(line)
            ctx.known_lines.append(line)
    seen = set()
    nviol = 0
    for fl in fresh:
        key = stable_hash([fl.signature, fl.case])
        if key in seen:
            continue
        seen.add(key)
        nviol += 1
        if nviol > 25:
            continue
        path = os.path.join(REPLAYS, "%s-%s.json" % (ctx.pid, key))
        with open(path, "w") as fh:
            json.dump({"property": ctx.pid, "clause": fl.clause, "detail": fl.detail,
                       "signature": fl.signature, "case": fl.case}, fh, indent=1, default=str)
        print("VIOLATION property=%s replay=%s" % (ctx.pid, path))
        print("  clause=%s detail=%s" % (fl.clause, str(fl.detail)[:400]))
    ctx.extra["failures_total"] = len(ctx.failures)
    ctx.extra["failures_matched_known"] = sum(len(v) for v in known_hit.values())
    if not ctx.replay_mode:
        # a --replay run re-executes one stored case; it is not a check run and leaves the evidence alone
        write_evidence(ctx, nviol)
    if not keep_work:
        shutil.rmtree(ctx.workdir, ignore_errors=True)
    print("%s %s tier=%s seed=%d states=%d transitions=%d impl_cases=%d violations=%d wall=%.1fs" % (
        "FAIL" if nviol else "OK", ctx.pid, ctx.tier, ctx.seed, ctx.states, ctx.transitions, ctx.traces,
        nviol, time.time() - ctx.t0))
    return 1 if nviol else 0


def call_guarded(fn, *a, **kw):
    """Run the cryoCAT call under test.  Returns (result, None) or (None, 'ExcType: msg')."""
    try:
        return fn(*a, **kw), None
    except MachineryError:
        raise
    except BaseException as e:  # noqa
        if isinstance(e, (KeyboardInterrupt, SystemExit, MemoryError)):
            raise
        tb = traceback.extract_tb(e.__traceback__)
        where = ""
        for fr in reversed(tb):
            if "/cryocat/" in fr.filename:
                where = " at %s:%d" % (os.path.basename(fr.filename), fr.lineno)
                break
        return None, "%s: %s%s" % (type(e).__name__, str(e)[:200], where)

"""Mixed histories on one live Motl (pose operations, set operations, EM round trips) recorded with the full
abstract state after every call and validated by spec/MotlSysTrace.tla.  `scope` selects whose clauses are
enforced ("pose" for C05, "set" for C08); see the module comment of MotlSysTrace.tla."""
import json
import os
import random

import numpy as np

from . import core, geo, motlutil

KEYCOL = {"sid": "subtomo_id", "tomo": "tomo_id", "obj": "object_id", "cls": "class"}
DIMZ = {1: 48, 2: 64, 3: 40}
POSE_OPS = ["update", "scale", "shift", "rotate", "flip"]
SET_OPS = ["subset", "remove", "intersect", "dropdup", "merge_renumber", "renumber_particles", "renumber_objects",
           "em_roundtrip"]
CONV_OPS = ["sg_roundtrip", "relion_roundtrip"]
SCOPE_OF = dict([(o, "pose") for o in POSE_OPS] + [(o, "set") for o in SET_OPS] +
                [("sg_roundtrip", "sg"), ("relion_roundtrip", "relion")])
RELION_VERSIONS = [3.0, 3.1, 4.0]
RELION_PIXELS = [1.0, 2.5, 1.35]


def gen_rows(rng, n, tag0, sids):
    rows = []
    for k in range(n):
        rows.append({"sid": sids[k], "tomo": rng.randint(1, 3), "obj": rng.randint(1, 3), "cls": rng.randint(1, 2),
                     "score": 0, "tag": tag0 + k,
                     "x": [8 * rng.randint(-3, 30) + rng.choice([0, 0, 0, 4, -2]) for _ in range(3)],
                     "s": [rng.choice([0, 0, 4, -4, 3, -7, 12, 1]) for _ in range(3)],
                     "r": rng.choice(geo.all_codes())})
    return rows


def gen_case(rng, idx):
    na, nb = rng.randint(2, 7), rng.randint(1, 5)
    pool = rng.sample(range(1, 40), na + nb)
    a = gen_rows(rng, na, 100, pool[:na])
    # the second list shares some subtomogram numbers with the first (intersection) and repeats some (duplicates)
    bs = [rng.choice(pool[:na]) if rng.random() < 0.5 else pool[na + k] for k in range(nb)]
    b = gen_rows(rng, nb, 200, bs)
    ranks = list(range(1, na + nb + 1))
    rng.shuffle(ranks)
    for r, row in zip(ranks, a + b):
        row["score"] = r
    if rng.random() < 0.4 and na > 2:
        a[rng.randrange(na)]["sid"] = a[0]["sid"]           # a duplicate id inside the first list
    ops = []
    merged = False
    for _ in range(rng.randint(3, 10)):
        name = rng.choice(POSE_OPS + SET_OPS + CONV_OPS)
        if name == "merge_renumber":
            if merged:
                continue
            merged = True
        op = {"name": name}
        if name == "scale":
            op["num"], op["den"] = rng.choice([(2, 1), (3, 1)])
        elif name == "shift":
            op["v"] = [rng.choice([0, 8, -4, 12, 4]) for _ in range(3)]
        elif name == "rotate":
            op["q"] = rng.choice(geo.all_codes())
        elif name == "flip":
            op["kind"] = rng.choice(["none", "table", "table"])
        elif name in ("subset", "remove"):
            op["f"] = rng.choice(["tomo", "obj", "cls"])
            op["nvals"] = rng.randint(1, 2)
            op["pick"] = rng.randint(0, 10 ** 6)
        elif name == "dropdup":
            op["f"] = rng.choice(["sid", "sid", "obj"])
            op["asc"] = rng.random() < 0.5
        elif name == "renumber_objects":
            op["start"] = rng.choice([1, 1, 5])
        ops.append(op)
    return {"kind": "mixed", "id": idx, "a": a, "b": b, "ops": ops, "seed": rng.randint(0, 10 ** 6)}


def rows_to_df(rows, rng):
    n = len(rows)
    cols = motlutil.empty_rows(n)
    for k, r in enumerate(rows):
        cols["subtomo_id"][k], cols["tomo_id"][k], cols["object_id"][k], cols["class"][k] = r["sid"], r["tomo"], r["obj"], r["cls"]
        cols["score"][k] = r["score"] + 0.25
        t = r["tag"]
        cols["geom1"][k], cols["geom2"][k], cols["geom3"][k], cols["geom4"][k], cols["geom5"][k] = t, 3 * t, t + 0.5, 2 * t, -t
        cols["subtomo_mean"][k] = t / 4.0
        cols["x"][k], cols["y"][k], cols["z"][k] = [v / geo.U for v in r["x"]]
        cols["shift_x"][k], cols["shift_y"][k], cols["shift_z"][k] = [v / geo.U for v in r["s"]]
        cols["phi"][k], cols["theta"][k], cols["psi"][k] = geo.euler_for_code(r["r"], rng)
    return motlutil.df_from_cols(cols)


def project(df, tol=1e-9):
    """-> (rows, schema_ok).  Anything that cannot be projected exactly becomes a sentinel the specification rejects."""
    schema_ok = sorted(df.columns) == sorted(motlutil.FIELDS) and len(df.columns) == 20
    rows = []
    if not schema_ok:
        return rows, False
    for _, r in df.iterrows():
        def ival(v):
            return int(v) if np.isfinite(v) and float(v).is_integer() and abs(v) < 10 ** 8 else -1
        t = r["geom1"]
        tag = ival(t)
        if tag >= 0:
            consistent = (r["geom2"] == 3 * t and r["geom3"] == t + 0.5 and r["geom4"] == 2 * t and r["geom5"] == -t
                          and r["subtomo_mean"] == t / 4.0)
            if not consistent:
                tag = -1
        x, rx = geo.to_lattice([r["x"], r["y"], r["z"]])
        s, rs = geo.to_lattice([r["shift_x"], r["shift_y"], r["shift_z"]])
        ang = [r["phi"], r["theta"], r["psi"]]
        code = None
        if all(np.isfinite(a) for a in ang):
            code = geo.matrix_to_code(geo.zxz_matrix(*ang), tol)
        if code is None or max(rx, rs) > tol or not all(np.isfinite(v) for v in x + s):
            code = [0, 0, 0, 0, 0, 0]
            x, s = [0, 0, 0], [0, 0, 0]
        rows.append({"sid": ival(r["subtomo_id"]), "tomo": ival(r["tomo_id"]), "obj": ival(r["object_id"]),
                     "cls": ival(r["class"]), "score": ival(r["score"] - 0.25), "tag": tag, "x": x, "s": s, "r": code})
    return rows, True


def do_op(cm, m, sv, op, st_rows, workdir, variant, shared=None):
    """Returns (new live Motl, the event record without post)."""
    from scipy.spatial.transform import Rotation
    name = op["name"]
    ev = {"name": name}
    if name == "update":
        m.update_coordinates()
    elif name == "scale":
        m.scale_coordinates(op["num"] / op["den"])
        ev.update(num=op["num"], den=op["den"])
    elif name == "shift":
        m.shift_positions(np.array(op["v"], dtype=float) / geo.U)
        ev["v"] = op["v"]
    elif name == "rotate":
        m.apply_rotation(Rotation.from_matrix(geo.code_to_matrix(op["q"])))
        ev["q"] = op["q"]
    elif name == "flip":
        if op["kind"] == "none":
            m.flip_handedness()
        else:
            if shared is not None and "dims" not in shared:
                import pandas as pd
                rows = [[t, 100, 120, DIMZ[t]] for t in sorted(DIMZ)] + [[8, 30, 30, 30]]
                k = variant % len(rows)
                shared["dims"] = pd.DataFrame(np.array(rows[k:] + rows[:k], dtype=float),       # any row order
                                              columns=["tomo_id", "x", "y", "z"])
            # the same dimension table object is handed over at every flip of a history
            m.flip_handedness(shared["dims"] if shared is not None else
                              np.array([[t, 100, 120, DIMZ[t]] for t in sorted(DIMZ)], dtype=float))
        ev["kind"] = op["kind"]
    elif name in ("subset", "remove"):
        present = sorted({r[op["f"]] for r in st_rows})
        rr = random.Random(op["pick"])
        vals = rr.sample(present, min(op["nvals"], len(present))) if present else [1]
        if name == "remove" and rr.random() < 0.3:
            vals = vals + [99]                       # a value that does not occur
        ev.update(f=op["f"], vals=vals)
        fv = [float(v) for v in vals]
        if name == "subset":
            m = m.get_motl_subset(fv, feature_id=KEYCOL[op["f"]])
        else:
            m.remove_feature(KEYCOL[op["f"]], fv)
    elif name == "intersect":
        m = cm.Motl.get_motl_intersection(m, sv)
    elif name == "dropdup":
        m.drop_duplicates(duplicates_column=KEYCOL[op["f"]], decision_column="score", decision_sort_ascending=bool(op["asc"]))
        ev.update(f=op["f"], asc=bool(op["asc"]))
    elif name == "merge_renumber":
        m = cm.Motl.merge_and_renumber([m, sv])
    elif name == "renumber_particles":
        m.renumber_particles()
    elif name == "renumber_objects":
        m.renumber_objects_sequentially(op["start"])
        ev["start"] = op["start"]
    elif name == "em_roundtrip":
        path = os.path.join(workdir, "mixed_%d.em" % variant)
        if isinstance(m, cm.EmMotl):
            m.write_out(path)                        # a loaded list is an EmMotl: its write_out takes the path only
        elif variant % 2:
            m.write_out(path, "emmotl")
        else:
            cm.EmMotl(m.df).write_out(path)
        m = cm.Motl.load(path)
        os.remove(path)
    elif name == "sg_roundtrip":
        # particle list -> STOPGAP form -> particle list, in memory or through a .star file
        path = os.path.join(workdir, "mixed_%d.star" % variant)
        v = variant % 4
        src = m.df                                   # the format classes take a table or a path (not a plain Motl)
        if v == 0:
            m = cm.StopgapMotl(cm.StopgapMotl.convert_to_sg_motl(m.df))
        elif v == 1:
            cm.emmotl2stopgap(src, path)
            m = cm.stopgap2emmotl(path)
        elif v == 2:
            cm.StopgapMotl(src).write_out(path)
            m = cm.StopgapMotl(path)
        else:
            m = cm.Motl.load(cm.StopgapMotl.convert_to_sg_motl(m.df), "stopgap")
        ev["via"] = ["memory", "file", "file", "memory"][v]
        if os.path.exists(path):
            os.remove(path)
    elif name == "relion_roundtrip":
        # particle list -> RELION 3.0 / 3.1 / 4.0 form -> particle list, in memory or through a STAR file
        path = os.path.join(workdir, "mixed_%d_relion.star" % variant)
        ver = RELION_VERSIONS[variant % 3]
        px = RELION_PIXELS[(variant // 3) % 3]
        r = cm.RelionMotl(m.df, version=ver, pixel_size=px, binning=1.0)
        if (variant // 9) % 2 == 0:
            m = cm.RelionMotl(r.create_relion_df(), version=ver, pixel_size=px, binning=1.0)
            ev["via"] = "memory"
        else:
            r.write_out(path, write_optics=bool(ver >= 3.1 and (variant // 18) % 2 == 0))
            m = cm.RelionMotl(path, version=ver, pixel_size=px, binning=1.0)
            ev["via"] = "file"
            os.remove(path)
        ev["ver"] = int(round(10 * ver))
    else:
        raise core.MachineryError("unknown op %r" % (op,))
    return m, ev


def resync(cm, m, name, st_rows):
    """Harness step after a format round trip (not judged): the formats do not carry the geom* / subtomo_mean fields
    the projection keeps its row tags in, and a STAR file holds angles to STAR precision.  Returns
    (plain Motl with the tags re-installed by row position and the pose snapped back onto the exact domain,
    geom3 as the round trip returned it)."""
    df = m.df.copy().reset_index(drop=True)
    def ival(v):
        return int(v) if np.isfinite(v) and float(v).is_integer() and abs(v) < 10 ** 8 else -1
    geom3 = [ival(v) for v in df["geom3"].to_numpy(dtype=float)] if "geom3" in df.columns else []
    if sorted(df.columns) != sorted(motlutil.FIELDS) or len(df) != len(st_rows):
        return cm.Motl(df) if sorted(df.columns) == sorted(motlutil.FIELDS) else m, geom3
    df = df.astype(float)
    for k, r in enumerate(st_rows):
        t = r["tag"]
        for f, v in (("geom1", t), ("geom2", 3 * t), ("geom3", t + 0.5), ("geom4", 2 * t), ("geom5", -t), ("subtomo_mean", t / 4.0)):
            df.loc[k, f] = v
        if name == "relion_roundtrip":               # RELION form carries neither the score nor the object number
            df.loc[k, "score"], df.loc[k, "object_id"] = r["score"] + 0.25, r["obj"]
    rows, _ = project(df, 2e-5)
    for k, r in enumerate(rows):
        if r["r"][0] != 0:
            for f, v in zip(("x", "y", "z", "shift_x", "shift_y", "shift_z"), r["x"] + r["s"]):
                df.loc[k, f] = v / geo.U
            df.loc[k, "phi"], df.loc[k, "theta"], df.loc[k, "psi"] = geo.euler_for_code(r["r"])
    return cm.Motl(df), geom3


def execute(ctx, case, scope):
    from cryocat import cryomotl as cm
    rng = random.Random(case["seed"])
    adf = motlutil.vary_index(rows_to_df(case["a"], rng), case["seed"])
    if case["seed"] % 3 == 0:
        adf = motlutil.int_positions(adf)
    m = cm.Motl(motlutil.vary_columns(adf, case["seed"] // 2))
    sv = cm.Motl(motlutil.vary_columns(motlutil.vary_index(rows_to_df(case["b"], rng), case["seed"] // 4), case["seed"] // 5))
    shared = {}
    st, _ = project(m.df)
    b_rows, _ = project(sv.df)
    if st != case["a"] or b_rows != case["b"]:
        raise core.MachineryError("interpretation/projection are not inverse on the initial lists")
    events = []
    for i, op in enumerate(case["ops"]):
        if len(st) == 0 and op["name"] not in ("merge_renumber",):
            break                                    # an emptied list ends the history
        own = SCOPE_OF[op["name"]] == scope
        res, err = core.call_guarded(do_op, cm, m, sv, op, st, ctx.workdir, case["seed"] + i, shared)
        if err is not None:
            if own:
                ctx.fail("call_raises", "step %d %s: %s" % (i + 1, op, err), case, {"op": op["name"], "layer": "mixed"})
            break                                    # a call of the other property that raises only ends the history
        m, ev = res
        if op["name"] in CONV_OPS:
            m, ev["geom3"] = resync(cm, m, op["name"], st)
        st, schema_ok = project(m.df)
        ev["post"] = st
        ev["schema_ok"] = bool(schema_ok)
        events.append(ev)
        if not schema_ok:
            break
    ctx.ran(case)
    return {"init": case["a"], "b": case["b"], "ev": events}


def run_mixed(ctx, scope, cases):
    traces = [execute(ctx, c, scope) for c in cases]
    wd = ctx.sub("mixed_" + scope)
    path = os.path.join(wd, "traces.ndjson")
    with open(path, "w") as fh:
        for t in traces:
            fh.write(json.dumps(t) + "\n")
    cfg = 'SPECIFICATION TraceSpec\nCONSTANTS\n Scope = "%s"\nCONSTRAINT Report\n' % scope
    res = ctx.tlc("MotlSysTrace", cfg, name="mixed_" + scope, env={"TRACE_FILE": path}, workers=1)
    verdicts = {v["tid"]: v for v in res.tagged.get("VERDICT", [])}
    if len(verdicts) != len(traces):
        raise core.MachineryError("MotlSysTrace: %d verdicts for %d traces\n%s" % (len(verdicts), len(traces), res.stdout[-2000:]))
    for i, case in enumerate(cases):
        v = verdicts[i + 1]
        if not v["ok"]:
            ev = traces[i]["ev"][v["step"] - 1]
            ctx.fail(v["clause"], "mixed history rejected by MotlSysTrace at step %d (%s)" % (
                v["step"], {k: ev[k] for k in ev if k != "post"}), dict(case, scope=scope), {"op": ev["name"], "layer": "mixed"})


def run(ctx, scope, n):
    cases = [gen_case(ctx.rng, i + 1) for i in range(n)]
    for a in range(0, len(cases), 500):
        run_mixed(ctx, scope, cases[a:a + 500])

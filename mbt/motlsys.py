"""Mixed histories on one live Motl (pose operations, set operations, EM round trips) recorded with the full
abstract state after every call and validated by spec/MotlSysTrace.tla.  `scope` selects whose clauses are
enforced ("pose" for C05, "set" for C08, "sg" for C04, "relion" for C03, "spatial" for C09, "sym" for C10); see the
module comment of MotlSysTrace.tla."""
import json
import os
import random

import numpy as np

from . import core, geo, motlutil

KEYCOL = {"sid": "subtomo_id", "tomo": "tomo_id", "obj": "object_id", "cls": "class"}
DIMZ = {1: 48, 2: 64, 3: 40}
POSE_OPS = ["update", "scale", "shift", "rotate", "flip"]
SET_OPS = ["subset", "remove", "intersect", "dropdup", "merge_renumber", "renumber_particles", "renumber_objects",
           "em_roundtrip"]
CONV_OPS = ["sg_roundtrip", "relion_roundtrip"]
SPATIAL_OPS = ["trim", "oob", "mask_clean", "points_clean"]
SCOPE_OF = dict([(o, "pose") for o in POSE_OPS] + [(o, "set") for o in SET_OPS] +
                [("sg_roundtrip", "sg"), ("relion_roundtrip", "relion"), ("query", "set"), ("split", "sym")] +
                [(o, "spatial") for o in SPATIAL_OPS])
DIMXY = (26, 31)                       # x / y size of the tomograms 1..3 in the shared dimension table (z: DIMZ)
SPLIT_OFFSETS = [(24, 8, 16), (16, 0, 0), (0, 0, 12), (0, 0, 0), (-5, 12, 3), (4, 4, 0), (8, -16, 4)]
TIE_OFFSETS = [((3, 4, 0), 5), ((6, 8, 0), 10), ((2, 3, 6), 7), ((1, 4, 8), 9), ((0, 0, 8), 8), ((4, 4, 2), 6)]
RELION_VERSIONS = [3.0, 3.1, 4.0]
RELION_PIXELS = [1.0, 2.5, 1.35]


def gen_rows(rng, n, tag0, sids, low=-3):
    rows = []
    for k in range(n):
        rows.append({"sid": sids[k], "tomo": rng.randint(1, 3), "obj": rng.randint(1, 3), "cls": rng.randint(1, 2),
                     "score": 0, "tag": tag0 + k,
                     "x": [8 * rng.randint(low, 30) + rng.choice([0, 0, 0, 4, -2]) for _ in range(3)],
                     "s": [rng.choice([0, 0, 4, -4, 3, -7, 12, 1]) for _ in range(3)],
                     "r": rng.choice(geo.all_codes())})
    return rows


def gen_case(rng, idx):
    na, nb = rng.randint(2, 7), rng.randint(1, 5)
    pool = rng.sample(range(1, 40), na + nb)
    # most histories start away from the lower faces (see the oob step: the open C09 finding is kept out of the way)
    low = -3 if rng.random() < 0.2 else rng.choice([4, 6, 9])
    a = gen_rows(rng, na, 100, pool[:na], low)
    # the second list shares some subtomogram numbers with the first (intersection) and repeats some (duplicates)
    bs = [rng.choice(pool[:na]) if rng.random() < 0.5 else pool[na + k] for k in range(nb)]
    b = gen_rows(rng, nb, 200, bs, low)
    ranks = list(range(1, na + nb + 1))
    rng.shuffle(ranks)
    for r, row in zip(ranks, a + b):
        row["score"] = r
    if rng.random() < 0.4 and na > 2:
        a[rng.randrange(na)]["sid"] = a[0]["sid"]           # a duplicate id inside the first list
    ops = []
    merged = False
    expanded = False
    for _ in range(rng.randint(3, 10)):
        name = rng.choice(POSE_OPS + SET_OPS + CONV_OPS + SPATIAL_OPS + ["split", "query"])
        if name == "merge_renumber":
            if merged:
                continue
            merged = True
        if name == "split":
            if expanded:
                continue
            expanded = True
        op = {"name": name}
        if name in SPATIAL_OPS or name in ("split", "query"):
            op["pick"] = rng.randint(0, 10 ** 6)
        if name == "trim":
            op["start"] = [rng.randint(1, 3) for _ in range(3)]
            op["end"] = [rng.randint(16, 34) for _ in range(3)]
        elif name == "split":
            op["n"] = rng.choice([1, 2, 2, 4, 4])
            op["off"] = list(rng.choice(SPLIT_OFFSETS))
        elif name == "query":
            op["f"] = rng.choice(["sid", "tomo", "obj", "cls"])
            op["which"] = rng.choice(["split", "unique"])
        if name == "scale":
            op["num"], op["den"] = rng.choice([(2, 1), (3, 1)])
        elif name == "shift":
            op["v"] = [rng.choice([0, 8, -4, 12, 4]) for _ in range(3)]
        elif name == "rotate":
            op["q"] = rng.choice(geo.all_codes())
        elif name == "flip":
            op["kind"] = rng.choice(["none", "table", "table"])
        elif name in ("subset", "remove"):
            op["f"] = rng.choice(["tomo", "obj", "cls"])
            op["nvals"] = rng.randint(1, 2)
            op["pick"] = rng.randint(0, 10 ** 6)
        elif name == "dropdup":
            op["f"] = rng.choice(["sid", "sid", "obj"])
            op["asc"] = rng.random() < 0.5
        elif name == "renumber_objects":
            op["start"] = rng.choice([1, 1, 5])
        ops.append(op)
    return {"kind": "mixed", "id": idx, "a": a, "b": b, "ops": ops, "seed": rng.randint(0, 10 ** 6)}


def rows_to_df(rows, rng):
    n = len(rows)
    cols = motlutil.empty_rows(n)
    for k, r in enumerate(rows):
        cols["subtomo_id"][k], cols["tomo_id"][k], cols["object_id"][k], cols["class"][k] = r["sid"], r["tomo"], r["obj"], r["cls"]
        cols["score"][k] = r["score"] + 0.25
        t = r["tag"]
        cols["geom1"][k], cols["geom2"][k], cols["geom3"][k], cols["geom4"][k], cols["geom5"][k] = t, 3 * t, t + 0.5, 2 * t, -t
        cols["subtomo_mean"][k] = t / 4.0
        cols["x"][k], cols["y"][k], cols["z"][k] = [v / geo.U for v in r["x"]]
        cols["shift_x"][k], cols["shift_y"][k], cols["shift_z"][k] = [v / geo.U for v in r["s"]]
        cols["phi"][k], cols["theta"][k], cols["psi"][k] = geo.euler_for_code(r["r"], rng)
    return motlutil.df_from_cols(cols)


def project(df, tol=1e-9):
    """-> (rows, schema_ok).  Anything that cannot be projected exactly becomes a sentinel the specification rejects."""
    schema_ok = sorted(df.columns) == sorted(motlutil.FIELDS) and len(df.columns) == 20
    rows = []
    if not schema_ok:
        return rows, False
    for _, r in df.iterrows():
        def ival(v):
            return int(v) if np.isfinite(v) and float(v).is_integer() and abs(v) < 10 ** 8 else -1
        t = r["geom1"]
        tag = ival(t)
        if tag >= 0:
            consistent = (r["geom2"] == 3 * t and r["geom3"] == t + 0.5 and r["geom4"] == 2 * t and r["geom5"] == -t
                          and r["subtomo_mean"] == t / 4.0)
            if not consistent:
                tag = -1
        x, rx = geo.to_lattice([r["x"], r["y"], r["z"]])
        s, rs = geo.to_lattice([r["shift_x"], r["shift_y"], r["shift_z"]])
        ang = [r["phi"], r["theta"], r["psi"]]
        code = None
        if all(np.isfinite(a) for a in ang):
            code = geo.matrix_to_code(geo.zxz_matrix(*ang), tol)
        if code is None or max(rx, rs) > tol or not all(np.isfinite(v) for v in x + s):
            code = [0, 0, 0, 0, 0, 0]
            x, s = [0, 0, 0], [0, 0, 0]
        rows.append({"sid": ival(r["subtomo_id"]), "tomo": ival(r["tomo_id"]), "obj": ival(r["object_id"]),
                     "cls": ival(r["class"]), "score": ival(r["score"] - 0.25), "tag": tag, "x": x, "s": s, "r": code})
    return rows, True


def do_op(cm, m, sv, op, st_rows, workdir, variant, shared=None):
    """Returns (new live Motl, the event record without post)."""
    from scipy.spatial.transform import Rotation
    name = op["name"]
    ev = {"name": name}
    if name == "update":
        m.update_coordinates()
    elif name == "scale":
        m.scale_coordinates(op["num"] / op["den"])
        ev.update(num=op["num"], den=op["den"])
    elif name == "shift":
        m.shift_positions(np.array(op["v"], dtype=float) / geo.U)
        ev["v"] = op["v"]
    elif name == "rotate":
        m.apply_rotation(Rotation.from_matrix(geo.code_to_matrix(op["q"])))
        ev["q"] = op["q"]
    elif name == "flip":
        if op["kind"] == "none":
            m.flip_handedness()
        else:
            if shared is not None and "dims" not in shared:
                import pandas as pd
                shared_dims(shared, variant)
            # the same dimension table object is handed over at every flip / out-of-bounds call of a history
            m.flip_handedness(shared["dims"] if shared is not None else
                              np.array([[t, DIMXY[0], DIMXY[1], DIMZ[t]] for t in sorted(DIMZ)], dtype=float))
        ev["kind"] = op["kind"]
    elif name in ("subset", "remove"):
        present = sorted({r[op["f"]] for r in st_rows})
        rr = random.Random(op["pick"])
        vals = rr.sample(present, min(op["nvals"], len(present))) if present else [1]
        if name == "remove" and rr.random() < 0.3:
            vals = vals + [99]                       # a value that does not occur
        ev.update(f=op["f"], vals=vals)
        fv = [float(v) for v in vals]
        if name == "subset":
            m = m.get_motl_subset(fv, feature_id=KEYCOL[op["f"]])
        else:
            m.remove_feature(KEYCOL[op["f"]], fv)
    elif name == "intersect":
        m = cm.Motl.get_motl_intersection(m, sv)
    elif name == "dropdup":
        m.drop_duplicates(duplicates_column=KEYCOL[op["f"]], decision_column="score", decision_sort_ascending=bool(op["asc"]))
        ev.update(f=op["f"], asc=bool(op["asc"]))
    elif name == "merge_renumber":
        m = cm.Motl.merge_and_renumber([m, sv])
    elif name == "renumber_particles":
        m.renumber_particles()
    elif name == "renumber_objects":
        m.renumber_objects_sequentially(op["start"])
        ev["start"] = op["start"]
    elif name == "em_roundtrip":
        path = os.path.join(workdir, "mixed_%d.em" % variant)
        if isinstance(m, cm.EmMotl):
            m.write_out(path)                        # a loaded list is an EmMotl: its write_out takes the path only
        elif variant % 2:
            m.write_out(path, "emmotl")
        else:
            cm.EmMotl(m.df).write_out(path)
        m = cm.Motl.load(path)
        os.remove(path)
    elif name == "sg_roundtrip":
        # particle list -> STOPGAP form -> particle list, in memory or through a .star file
        path = os.path.join(workdir, "mixed_%d.star" % variant)
        v = variant % 4
        src = m.df                                   # the format classes take a table or a path (not a plain Motl)
        if v == 0:
            m = cm.StopgapMotl(cm.StopgapMotl.convert_to_sg_motl(m.df))
        elif v == 1:
            cm.emmotl2stopgap(src, path)
            m = cm.stopgap2emmotl(path)
        elif v == 2:
            cm.StopgapMotl(src).write_out(path)
            m = cm.StopgapMotl(path)
        else:
            m = cm.Motl.load(cm.StopgapMotl.convert_to_sg_motl(m.df), "stopgap")
        ev["via"] = ["memory", "file", "file", "memory"][v]
        if os.path.exists(path):
            os.remove(path)
    elif name == "relion_roundtrip":
        # particle list -> RELION 3.0 / 3.1 / 4.0 form -> particle list, in memory or through a STAR file
        path = os.path.join(workdir, "mixed_%d_relion.star" % variant)
        ver = RELION_VERSIONS[variant % 3]
        px = RELION_PIXELS[(variant // 3) % 3]
        r = cm.RelionMotl(m.df, version=ver, pixel_size=px, binning=1.0)
        if (variant // 9) % 2 == 0:
            m = cm.RelionMotl(r.create_relion_df(), version=ver, pixel_size=px, binning=1.0)
            ev["via"] = "memory"
        else:
            r.write_out(path, write_optics=bool(ver >= 3.1 and (variant // 18) % 2 == 0))
            m = cm.RelionMotl(path, version=ver, pixel_size=px, binning=1.0)
            ev["via"] = "file"
            os.remove(path)
        ev["ver"] = int(round(10 * ver))
    elif name in SPATIAL_OPS and not snap_positions(m, st_rows):
        return None
    elif name == "trim":
        v = variant % 3
        if v == 0:
            m.adapt_to_trimming(np.array(op["start"]), np.array(op["end"]))
        elif v == 1:
            m.adapt_to_trimming(list(op["start"]), tuple(op["end"]))
        else:
            m.adapt_to_trimming(trim_coord_start=np.array(op["start"], dtype=float), trim_coord_end=list(op["end"]))
        ev.update(start=op["start"], end=op["end"])
    elif name == "oob":
        if shared is None:
            shared = {}
        if "dims" not in shared:
            shared_dims(shared, variant)
        table = shared["dims_rows"]
        rr = random.Random(op["pick"])
        # the open finding of C09 (a particle outside through a lower face only is kept) is kept out of these histories:
        # only (boundary type, box size) choices for which the current list has no such particle are made
        choices = [(k, b) for k in ("center", "whole") for b in range(1, 17) if not lower_face_only(st_rows, table, k, b)]
        if not choices:
            return None
        kind, box = rr.choice(choices)
        if kind == "center" and rr.random() < 0.5:
            box = 0
        d = shared["dims"]
        if kind == "whole":
            if variant % 2:
                m.remove_out_of_bounds_particles(d, boundary_type="whole", box_size=box)
            else:
                m.remove_out_of_bounds_particles(d, "whole", box)
        elif box:
            if variant % 2:
                m.remove_out_of_bounds_particles(d, boundary_type="center", box_size=box)
            else:
                m.remove_out_of_bounds_particles(d, box_size=box)
        elif variant % 2:
            m.remove_out_of_bounds_particles(d)
        else:
            m.remove_out_of_bounds_particles(d, "center")
        ev.update(kind=kind, box=box, dims=[[int(v) for v in r] for r in table])
    elif name == "mask_clean":
        rr = random.Random(op["pick"])
        tl = rr.sample([1, 2, 3], rr.randint(1, 3))
        if rr.random() < 0.4:
            tl.insert(rr.randint(0, len(tl)), 8)               # a tomogram without particles, anywhere in the list
        form = rr.choice(["array", "array", "em", "mrc", "rec", "mixed"])
        masks, args = [], []
        for j, t in enumerate(tl):
            shape = [rr.randint(6, 14) for _ in range(3)]
            lo = [rr.randint(0, shape[i] - 1) for i in range(3)]
            hi = [rr.randint(lo[i], shape[i] - 1) for i in range(3)]
            inv = int(rr.random() < 0.4)
            masks.append([t, shape, lo, hi, inv])
            arr = np.ones(tuple(shape), dtype=np.float32) if not inv else np.zeros(tuple(shape), dtype=np.float32)
            arr[lo[0]:hi[0] + 1, lo[1]:hi[1] + 1, lo[2]:hi[2] + 1] = 0.0 if not inv else 1.0
            fm = form if form != "mixed" else ["array", "em", "mrc", "rec"][(variant + j) % 4]
            args.append(store_mask(arr, fm, workdir, "%d_%d" % (variant, j)))
        tomo_list = [tl, np.array(tl), [float(t) for t in tl]][variant % 3]
        if variant % 4 == 0:
            m = m.clean_by_tomo_mask(tomo_list, args, inplace=False)
        else:
            m.clean_by_tomo_mask(tomo_list, args)
        for a in args:
            if isinstance(a, str) and os.path.exists(a):
                os.remove(a)
        ev.update(tl=tl, masks=masks, form=form)
    elif name == "points_clean":
        import pandas as pd
        rr = random.Random(op["pick"])
        pts = []
        radius = rr.choice([0, 4, 8, 12, 17, 24, 33])
        if st_rows and rr.random() < 0.5:                       # a point exactly on the radius of a particle
            vec, ln = rr.choice(TIE_OFFSETS)
            k = rr.choice([1, 2, 4])
            radius = ln * k
            src = rr.choice(st_rows)
            v = list(vec)
            rr.shuffle(v)
            pts.append([src["tomo"]] + [src["x"][i] + src["s"][i] + k * v[i] * rr.choice([-1, 1]) for i in range(3)])
        for _ in range(rr.randint(0 if pts else 1, 3)):
            src = rr.choice(st_rows)
            t = src["tomo"] if rr.random() < 0.8 else rr.choice([1, 2, 3, 8])
            pts.append([t] + [src["x"][i] + src["s"][i] + rr.randint(-20, 20) for i in range(3)])
        df = pd.DataFrame({"tomo_id": [float(q[0]) for q in pts], "x": [q[1] / geo.U for q in pts],
                           "y": [q[2] / geo.U for q in pts], "z": [q[3] / geo.U for q in pts]})
        if variant % 3 == 1:
            df = df[["z", "tomo_id", "y", "x"]]
        if variant % 2:
            m = m.clean_by_distance_to_points(df, radius / geo.U, inplace=False)
        else:
            m.clean_by_distance_to_points(df, radius / geo.U)
        ev.update(pts=pts, r=radius)
    elif name == "split":
        # exact on the cube group for C1, C2, C4; parents must be identifiable by their number
        if len(st_rows) > 6 or len({r["sid"] for r in st_rows}) != len(st_rows):
            return None
        n = op["n"]
        sym = ["C%d" % n, "c%d" % n, int(n), float(n), np.int64(n)][variant % 5]
        off = [v / geo.U for v in op["off"]]
        m = m.split_in_asymmetric_subunits(sym, off if variant % 2 else np.array(off))
        ev.update(n=n, off=op["off"])
    elif name == "query":
        col = KEYCOL[op["f"]]
        ev.update(f=op["f"], which=op["which"])
        if op["which"] == "split":
            parts = m.split_by_feature(col)
            ev["parts"] = [project(p.df)[0] for p in parts]
        else:
            vals = np.asarray(m.get_unique_values(col), dtype=float).ravel()
            ev["uniq"] = [int(v) if float(v).is_integer() else -1 for v in vals]
    else:
        raise core.MachineryError("unknown op %r" % (op,))
    return m, ev


def snap_positions(m, st_rows):
    """Harness step before a spatial filter (not judged): the logged state is the table projected onto the 1/8-voxel
    lattice within 1e-9, but rotations by multiples of 90 degrees leave residues of ~1e-16 in positions and shifts; the
    filters compare with exact bounds (faces, radii, voxel edges), so the live position columns are set to the exact
    lattice values of the logged state first.  False when the state is not exact (the step is then not made)."""
    if len(m.df) != len(st_rows) or any(r["r"][0] == 0 for r in st_rows):
        return False
    df = m.df
    for j, f in enumerate(("x", "y", "z")):
        for col, key in ((f, "x"), ("shift_" + f, "s")):
            vals = np.array([r[key][j] / geo.U for r in st_rows], dtype=float)
            if df[col].dtype.kind in "iu" and np.array_equal(np.rint(vals), vals):
                vals = vals.astype(df[col].dtype)           # an integer-typed column stays integer-typed
            df[col] = vals
    return True


def shared_dims(shared, variant):
    """The dimension table of a history (one object for every flip / out-of-bounds call): tomograms 1..3 and a
    tomogram without particles, in any row order."""
    import pandas as pd
    rows = [[t, DIMXY[0], DIMXY[1], DIMZ[t]] for t in sorted(DIMZ)] + [[8, 30, 30, 30]]
    k = variant % len(rows)
    shared["dims_rows"] = rows[k:] + rows[:k]
    shared["dims"] = pd.DataFrame(np.array(shared["dims_rows"], dtype=float), columns=["tomo_id", "x", "y", "z"])


def lower_face_only(rows, table, kind, box):
    """Generator filter (not a verdict): does the list hold a particle whose centre / box leaves its tomogram through
    lower faces only?  Such states are not offered to the oob step (open finding F-C09-lower-face)."""
    dims = {int(r[0]): r[1:] for r in table}
    h = 8 * ((box + 1) // 2) if kind == "whole" else 0
    for r in rows:
        c = [r["x"][i] + r["s"][i] for i in range(3)]
        d = dims.get(r["tomo"])
        if d is None:
            return True
        low = any(c[i] - h < 0 for i in range(3))
        up = any(c[i] + h >= 8 * d[i] for i in range(3))
        if low and not up:
            return True
    return False


def store_mask(arr, form, workdir, tag):
    """A mask as array or as a file written from scratch with the independent writers (x fastest)."""
    if form == "array":
        return arr
    from . import parsers
    path = os.path.join(workdir, "mixed_mask_%s.%s" % (tag, form))
    dims = tuple(int(v) for v in arr.shape)
    values = [float(v) for v in arr.transpose(2, 1, 0).ravel()]
    if form == "em":
        parsers.write_em(path, dims, "float32", values)
    else:
        parsers.write_mrc(path, dims, "float32", values)
    return path


def project_split(df):
    """Projection of the table split_in_asymmetric_subunits returned: geom2 / geom5 carry the subunit index and the
    parent's number (logged as k / parent), so the row tag is recovered from geom1 and checked on the other tag fields."""
    schema_ok = sorted(df.columns) == sorted(motlutil.FIELDS) and len(df.columns) == 20
    if not schema_ok:
        return [], False
    tmp = df.copy().reset_index(drop=True).astype(float)
    k_par = [(tmp.loc[i, "geom2"], tmp.loc[i, "geom5"]) for i in range(len(tmp))]
    for i in range(len(tmp)):
        t = tmp.loc[i, "geom1"]
        tmp.loc[i, "geom2"], tmp.loc[i, "geom5"] = 3 * t, -t
    rows, _ = project(tmp)

    def ival(v):
        return int(v) if np.isfinite(v) and float(v).is_integer() and abs(v) < 10 ** 8 else -1
    for r, (k, par) in zip(rows, k_par):
        r["k"], r["parent"] = ival(k), ival(par)
    return rows, True


def resync_split(cm, m, rows):
    """Harness step after a symmetry expansion (not judged): the row count changed and the subunits of a parent share
    its tag fields, so every row gets a fresh tag (10000 + 10 tag + k) installed in the tag fields."""
    df = m.df.copy().reset_index(drop=True).astype(float)
    if len(df) != len(rows):
        return m
    for i, r in enumerate(rows):
        t = 10000 + 10 * max(r["tag"], 0) + max(r["k"], 0) % 10
        for f, v in (("geom1", t), ("geom2", 3 * t), ("geom3", t + 0.5), ("geom4", 2 * t), ("geom5", -t), ("subtomo_mean", t / 4.0)):
            df.loc[i, f] = v
    return cm.Motl(df)


def resync(cm, m, name, st_rows):
    """Harness step after a format round trip (not judged): the formats do not carry the geom* / subtomo_mean fields
    the projection keeps its row tags in, and a STAR file holds angles to STAR precision.  Returns
    (plain Motl with the tags re-installed by row position and the pose snapped back onto the exact domain,
    geom3 as the round trip returned it)."""
    df = m.df.copy().reset_index(drop=True)
    def ival(v):
        return int(v) if np.isfinite(v) and float(v).is_integer() and abs(v) < 10 ** 8 else -1
    geom3 = [ival(v) for v in df["geom3"].to_numpy(dtype=float)] if "geom3" in df.columns else []
    if sorted(df.columns) != sorted(motlutil.FIELDS) or len(df) != len(st_rows):
        return cm.Motl(df) if sorted(df.columns) == sorted(motlutil.FIELDS) else m, geom3
    df = df.astype(float)
    for k, r in enumerate(st_rows):
        t = r["tag"]
        for f, v in (("geom1", t), ("geom2", 3 * t), ("geom3", t + 0.5), ("geom4", 2 * t), ("geom5", -t), ("subtomo_mean", t / 4.0)):
            df.loc[k, f] = v
        if name == "relion_roundtrip":               # RELION form carries neither the score nor the object number
            df.loc[k, "score"], df.loc[k, "object_id"] = r["score"] + 0.25, r["obj"]
    rows, _ = project(df, 2e-5)
    for k, r in enumerate(rows):
        if r["r"][0] != 0:
            for f, v in zip(("x", "y", "z", "shift_x", "shift_y", "shift_z"), r["x"] + r["s"]):
                df.loc[k, f] = v / geo.U
            df.loc[k, "phi"], df.loc[k, "theta"], df.loc[k, "psi"] = geo.euler_for_code(r["r"])
    return cm.Motl(df), geom3


def execute(ctx, case, scope):
    from cryocat import cryomotl as cm
    rng = random.Random(case["seed"])
    adf = motlutil.vary_index(rows_to_df(case["a"], rng), case["seed"])
    if case["seed"] % 3 == 0:
        adf = motlutil.int_positions(adf)
    m = cm.Motl(motlutil.vary_columns(adf, case["seed"] // 2))
    sv = cm.Motl(motlutil.vary_columns(motlutil.vary_index(rows_to_df(case["b"], rng), case["seed"] // 4), case["seed"] // 5))
    shared = {}
    st, _ = project(m.df)
    b_rows, _ = project(sv.df)
    if st != case["a"] or b_rows != case["b"]:
        raise core.MachineryError("interpretation/projection are not inverse on the initial lists")
    events = []
    for i, op in enumerate(case["ops"]):
        if len(st) == 0 and op["name"] not in ("merge_renumber",):
            break                                    # an emptied list ends the history
        own = SCOPE_OF[op["name"]] == scope
        res, err = core.call_guarded(do_op, cm, m, sv, op, st, ctx.workdir, case["seed"] + i, shared)
        if err is not None:
            if own:
                ctx.fail("call_raises", "step %d %s: %s" % (i + 1, op, err), case, {"op": op["name"], "layer": "mixed"})
            break                                    # a call of the other property that raises only ends the history
        if res is None:
            continue                                 # the step is not generated on this state (see do_op)
        m, ev = res
        if op["name"] in CONV_OPS:
            m, ev["geom3"] = resync(cm, m, op["name"], st)
        if op["name"] == "split":
            ev["post"], schema_ok = project_split(m.df)
            if schema_ok:
                m = resync_split(cm, m, ev["post"])
            st, ok2 = project(m.df)
            ev["next"] = st
            ev["schema_ok"] = bool(schema_ok and ok2)
            events.append(ev)
            if not ev["schema_ok"]:
                break
            continue
        st, schema_ok = project(m.df)
        ev["post"] = st
        ev["schema_ok"] = bool(schema_ok)
        events.append(ev)
        if not schema_ok:
            break
    ctx.ran(case)
    return {"init": case["a"], "b": case["b"], "ev": events}


def run_mixed(ctx, scope, cases):
    traces = [execute(ctx, c, scope) for c in cases]
    wd = ctx.sub("mixed_" + scope)
    path = os.path.join(wd, "traces.ndjson")
    with open(path, "w") as fh:
        for t in traces:
            fh.write(json.dumps(t) + "\n")
    cfg = 'SPECIFICATION TraceSpec\nCONSTANTS\n Scope = "%s"\nCONSTRAINT Report\n' % scope
    res = ctx.tlc("MotlSysTrace", cfg, name="mixed_" + scope, env={"TRACE_FILE": path}, workers=1)
    verdicts = {v["tid"]: v for v in res.tagged.get("VERDICT", [])}
    if len(verdicts) != len(traces):
        raise core.MachineryError("MotlSysTrace: %d verdicts for %d traces\n%s" % (len(verdicts), len(traces), res.stdout[-2000:]))
    counts = ctx.extra.setdefault("mixed_judged_steps_" + scope, {})
    for v in verdicts.values():
        for nm in v.get("judged", []):
            counts[nm] = counts.get(nm, 0) + 1
    for i, case in enumerate(cases):
        v = verdicts[i + 1]
        if not v["ok"]:
            ev = traces[i]["ev"][v["step"] - 1]
            ctx.fail(v["clause"], "mixed history rejected by MotlSysTrace at step %d (%s)" % (
                v["step"], {k: ev[k] for k in ev if k not in ("post", "next", "parts", "masks", "dims")}), dict(case, scope=scope),
                {"op": ev["name"], "layer": "mixed"})


def run(ctx, scope, n):
    cases = [gen_case(ctx.rng, i + 1) for i in range(n)]
    for a in range(0, len(cases), 500):
        run_mixed(ctx, scope, cases[a:a + 500])

---------------------------- MODULE StopgapTrace ----------------------------
(***************************************************************************)
(* C04, file path.  One trace = one list written by StopgapMotl.write_out  *)
(* (or emmotl2stopgap) and loaded back:                                    *)
(*   rows, update, reset   the abstract list and the arguments             *)
(*   gamma                 the reals the value tokens stand for, as exact  *)
(*                         decimals [neg, digits, exp]                     *)
(*   spell                 byte spelling of the STOPGAP column names, of    *)
(*                         the block name and of the half-set letters      *)
(*   lines                 the bytes of the written file, split at LF      *)
(*   loaded                the 14 fields of the list loaded back from the  *)
(*                         file, as decimals                               *)
(* The expected STOPGAP table is computed here with StopgapConv!ToSg, the  *)
(* file is parsed here with Star!Parse, numbers are compared after         *)
(* rounding to 6 decimals (STAR precision).                                *)
(***************************************************************************)
EXTENDS Star, Json, IOUtils

CONSTANT U

SC == INSTANCE StopgapConv WITH InitLists <- {}, EmitMode <- "none", rows <- <<>>, sg <- <<>>, back <- <<>>,
                               pc <- "", op <- [name |-> ""], cid <- 0

Traces == ndJsonDeserialize(IOEnv.TRACE_FILE)

VARIABLES tid, done, clause, at
vars == <<tid, done, clause, at>>

Pow10 == <<1000000000, 100000000, 10000000, 1000000, 100000, 10000, 1000, 100, 10, 1>>
\* n * 10^e as an exact decimal (|n| < 2^31)
IntCanonE(n, e) == LET a == IF n < 0 THEN -n ELSE n
                   IN  Normalize(n < 0, [i \in 1..10 |-> (a \div Pow10[i]) % 10], e)
LatCanon(v) == IntCanonE(v * (1000 \div U), -3)          \* v / U voxels; U divides 1000

LatticeCols == {"orig_x", "orig_y", "orig_z", "x_shift", "y_shift", "z_shift"}
IntCols == {"subtomo_num", "motl_idx"}
NumericCols == SC!SharedSg \cup {"motl_idx"}

\* subtomogram numbers are  sidk * 10^9 + v  (composite ids beyond 2^31; v < 10^9 keeps TLC's integers small)
BigCanon(k, v) == IF k = 0 THEN IntCanonE(v, 0)
                  ELSE Normalize(FALSE, [i \in 1..10 |-> (k \div Pow10[i]) % 10] \o [i \in 1..9 |-> (v \div Pow10[i + 1]) % 10], 0)
Gamma(t, c, v) == IF c \in LatticeCols THEN LatCanon(v)
                  ELSE IF c = "subtomo_num" \/ (c = "motl_idx" /\ ~t.reset) THEN BigCanon(t.sidk, v)
                  ELSE IF c \in IntCols THEN IntCanonE(v, 0) ELSE t.gamma[v]

ColIndex(labels, name) == LET K == {k \in 1..Len(labels) : labels[k] = name} IN IF Cardinality(K) = 1 THEN SetMin(K) ELSE 0

\* <<first violated clause or "none", particle index>>
Verdict(t) ==
    LET live == SC!ApplyHist(t.rows, t.hist)
        r == IF t.update THEN SC!UpdateAll(live) ELSE live
        S == SC!ToSg(r, t.reset)
        N == Len(r)
        P == Parse(t.lines)
        blk == P.blocks[1]
        Cols == NumericCols \cup {"halfset"}
        idx == [c \in Cols |-> ColIndex(blk.labels, t.spell[c])]
        BadNum == {i \in 1..N : \E c \in NumericCols :
                      LET tok == blk.rows[i][idx[c]]
                      IN  ~IsNumeric(tok) \/ RoundTo6(NumCanon(tok)) # RoundTo6(Gamma(t, c, S[i][c]))}
        BadHalf == {i \in 1..N : blk.rows[i][idx["halfset"]] # t.spell[S[i].halfset]}
        BadLoad == {i \in 1..N : \E f \in SC!MotlFields :
                      RoundTo6(t.loaded.cols[f][i]) # RoundTo6(Gamma(t, SC!Renaming[f], r[i][f]))}
    IN  IF ~P.ok \/ Len(P.blocks) # 1 THEN <<"C04_FileWellFormed", 0>>
        ELSE IF blk.name # t.spell.block THEN <<"C04_FileBlockName", 0>>
        ELSE IF \E c \in Cols : idx[c] = 0 THEN <<"C04_FileColumns", 0>>
        ELSE IF ~SuffixOK(blk, FALSE) THEN <<"C04_FileColumns", 0>>
        ELSE IF Len(blk.rows) # N THEN <<"C04_FileRowCount", 0>>
        ELSE IF BadNum # {} THEN <<"C04_FileValues", SetMin(BadNum)>>
        ELSE IF BadHalf # {} THEN <<"C04_FileHalfset", SetMin(BadHalf)>>
        ELSE IF ~t.loaded.ok THEN <<"C04_LoadBack", 0>>
        ELSE IF t.loaded.n # N \/ \E f \in SC!MotlFields : Len(t.loaded.cols[f]) # N THEN <<"C04_FileRoundTripCount", 0>>
        ELSE IF BadLoad # {} THEN <<"C04_FileRoundTrip", SetMin(BadLoad)>>
        ELSE <<"none", 0>>

TraceInit == tid \in 1..Len(Traces) /\ done = FALSE /\ clause = "none" /\ at = 0
TraceNext == /\ ~done
             /\ LET v == Verdict(Traces[tid]) IN clause' = v[1] /\ at' = v[2]
             /\ done' = TRUE /\ UNCHANGED tid
TraceSpec == TraceInit /\ [][TraceNext]_vars

Report == \/ ~done
          \/ PrintT(<<"VERDICT", ToJson([tid |-> tid, ok |-> clause = "none", clause |-> clause, particle |-> at])>>)
=============================================================================

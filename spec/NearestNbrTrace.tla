-------------------------- MODULE NearestNbrTrace --------------------------
(***************************************************************************)
(* C18, code -> spec.  nnana.get_nn_stats is run on random real-valued     *)
(* particle lists (1..200 particles, 1..4 tomograms, tomogram sets that    *)
(* need not coincide, coincident lists, non-zero shifts, k in 1..5, any    *)
(* pixel size) and again after every tomogram has been moved rigidly.      *)
(* One trace = one pair of lists; one "query" event per judged query       *)
(* particle and one "moved" event per judged query after the motion.       *)
(*                                                                         *)
(* What the driver logs (projection):                                      *)
(*  cand  the brute-force distance relation of the query: for the (at most *)
(*        8) closest same-tomogram particles of the second list and every  *)
(*        reported neighbour that is a same-tomogram particle, the pair    *)
(*        [sid, d] with d = |complete position difference| * pixel size in *)
(*        units of 1e-4 (all pairs, no search structure);  ncand = number  *)
(*        of same-tomogram particles of the second list                    *)
(*  rep   the rows the implementation reported for the query, in table     *)
(*        order: neighbour sid, reported distance (1e-4), whether that sid *)
(*        is a same-tomogram particle of the second list, and residuals    *)
(*        (1e-7) of the payload identities of NearestNbr.tla!Row:          *)
(*        world offset, particle-frame offset R_a^-1 off, relative         *)
(*        orientation R_a^-1 R_b (matrix and its z-axis); reported angular *)
(*        distance and the angle of R_a^-1 R_b (1e-4 degree)               *)
(* This module decides: count, same tomogram, optimality, ascending order, *)
(* payload, and invariance under the rigid motion.                         *)
(***************************************************************************)
EXTENDS Integers, Sequences, FiniteSets, TLC, Json, IOUtils

CONSTANTS DistTol,    \* 1e-4 units (distance x pixel size)
          ResTol,     \* 1e-7 units (offset and rotation residuals)
          AngTol,     \* 1e-4 degree
          MovedDistTol \* 1e-9 (distance of the moved lists against the Euclidean distance of the moved positions)

Traces == ndJsonDeserialize(IOEnv.TRACE_FILE)

VARIABLES tid, l, ok, clause
vars == <<tid, l, ok, clause>>

Events == Traces[tid].ev

Abs(n) == IF n < 0 THEN -n ELSE n
Min(x, y) == IF x <= y THEN x ELSE y
Idx(s) == DOMAIN s

\* brute-force distance of a sid in the logged relation (sids are unique in the second list)
CandD(e, sid) == LET c == CHOOSE j \in Idx(e.cand) : e.cand[j].sid = sid IN e.cand[c].d
CandSids(e) == { e.cand[j].sid : j \in Idx(e.cand) }
RepSids(e) == { e.rep[r].nn : r \in Idx(e.rep) }

QueryFailing(e) ==
    IF Len(e.rep) # Min(e.k, e.ncand) THEN "C18_Count"
    ELSE IF \E r \in Idx(e.rep) : ~e.rep[r].same_tomo \/ e.rep[r].nn \notin CandSids(e) \/ e.rep[r].q # e.q
        THEN "C18_SameTomogramOnly"
    ELSE IF Cardinality(RepSids(e)) # Len(e.rep) THEN "C18_Optimal"
    ELSE IF \E r \in Idx(e.rep) : Abs(e.rep[r].d - CandD(e, e.rep[r].nn)) > DistTol THEN "C18_DistanceIsEuclidTimesPixel"
    ELSE IF \E r \in Idx(e.rep) : r > 1 /\ ~(CandD(e, e.rep[r - 1].nn) < CandD(e, e.rep[r].nn)) THEN "C18_Ascending"
    ELSE IF \E j \in Idx(e.cand) : e.cand[j].sid \notin RepSids(e) /\
                \E r \in Idx(e.rep) : ~(e.cand[j].d > CandD(e, e.rep[r].nn)) THEN "C18_Optimal"
    ELSE IF \E r \in Idx(e.rep) : e.rep[r].off_res > ResTol \/ e.rep[r].off_res < 0 THEN "C18_Payload_offset"
    ELSE IF \E r \in Idx(e.rep) : e.rep[r].foff_res > ResTol \/ e.rep[r].foff_res < 0 THEN "C18_Payload_particle_frame"
    ELSE IF \E r \in Idx(e.rep) : Abs(e.rep[r].ang - e.rep[r].ang_gt) > AngTol \/ e.rep[r].ang < 0 THEN "C18_Payload_angular_distance"
    ELSE IF \E r \in Idx(e.rep) : e.rep[r].rel_res > ResTol \/ e.rep[r].rel_res < 0
                                  \/ e.rep[r].relz_res > ResTol \/ e.rep[r].relz_res < 0 THEN "C18_Payload_relative_orientation"
    ELSE "none"

\* after the rigid motion: same neighbours in the same order; distance, particle-frame offset, angular distance and
\* relative orientation unchanged
MovedFailing(e) ==
    IF e.nn_after # e.nn_before THEN "C18_MotionInvariant_neighbours"
    ELSE IF \E r \in Idx(e.dd) : e.dd[r] > DistTol \/ e.dd[r] < 0 THEN "C18_MotionInvariant_distance"
    \* wherever the tomogram has been moved to (translations up to 1e7 voxels), the reported distance is the Euclidean
    \* distance of the positions as stored, to float64 rounding - also with few candidates relative to k
    ELSE IF \E r \in Idx(e.dm) : e.dm[r] > MovedDistTol \/ e.dm[r] < 0 THEN "C18_DistanceIsEuclidTimesPixel"
    ELSE IF \E r \in Idx(e.df) : e.df[r] > DistTol \/ e.df[r] < 0 THEN "C18_MotionInvariant_particle_frame"
    ELSE IF \E r \in Idx(e.da) : e.da[r] > AngTol \/ e.da[r] < 0 THEN "C18_MotionInvariant_angular_distance"
    ELSE IF \E r \in Idx(e.dr) : e.dr[r] > ResTol \/ e.dr[r] < 0 THEN "C18_MotionInvariant_relative_orientation"
    ELSE "none"

Failing(e) == CASE e.kind = "query" -> QueryFailing(e)
                [] e.kind = "moved" -> MovedFailing(e)

TraceInit == /\ tid \in 1..Len(Traces)
             /\ l = 1
             /\ ok = TRUE
             /\ clause = "none"

TraceNext == /\ ok
             /\ l <= Len(Events)
             /\ LET c == Failing(Events[l]) IN ok' = (c = "none") /\ clause' = c
             /\ l' = l + 1
             /\ UNCHANGED tid

TraceSpec == TraceInit /\ [][TraceNext]_vars

Report == \/ (ok /\ l <= Len(Events))
          \/ PrintT(<<"VERDICT", ToJson([tid |-> tid, ok |-> ok, clause |-> clause, step |-> l - 1])>>)
=============================================================================

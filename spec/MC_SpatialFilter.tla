------------------------- MODULE MC_SpatialFilter -------------------------
(* Configurations of SpatialFilter.tla: the exhaustive small scope (one coordinate sweeps every face of two
   tomograms with different dimensions) and the file-driven scope (random lists written by the driver). *)
EXTENDS SpatialFilter, IOUtils, SequencesExt

P(id, t, x, s) == [id |-> id, t |-> t, x |-> x, s |-> s]

SmallDims == (1 :> <<6, 5, 7>>) @@ (2 :> <<4, 8, 5>>)

\* complete coordinates (lattice units) that sweep both faces of an axis of length n voxels, for the centre test
\* and for boxes 2 and 4 (half-widths 8 and 16)
Sweep(n) == { -8, -1, 0, 1, 7, 8, 9, 15, 16, 17,
              8 * n - 17, 8 * n - 16, 8 * n - 15, 8 * n - 9, 8 * n - 8, 8 * n - 7, 8 * n - 1, 8 * n, 8 * n + 8 }
\* split of a complete coordinate into extraction position (whole voxels) and shift
Splits(c) == { <<c - sh, sh>> : sh \in { 0, -3, 4 } }

Inside1 == <<24, 16, 24>>      \* clearly inside both tomograms, for every box used
Mid(t) == [i \in 1..3 |-> IF SmallDims[t][i] >= 6 THEN 24 ELSE 16]

\* particle 1: tomogram t, axis a at complete coordinate c (split into x + s), other axes in the middle;
\* particle 2: fixed, in the other tomogram
SweepXS(a) == UNION { Splits(c) : c \in UNION { Sweep(SmallDims[u][a]) : u \in 1..2 } }
ListOf(t, a, xs) == << P(1, t, [i \in 1..3 |-> IF i = a THEN xs[1] ELSE Mid(t)[i]], [i \in 1..3 |-> IF i = a THEN xs[2] ELSE 0]),
                       P(2, 3 - t, <<24, 24, 24>>, <<1, -2, 3>>) >>
Lists == UNION { UNION { { ListOf(t, a, xs) : xs \in SweepXS(a) } : a \in 1..3 } : t \in 1..2 }

Pt(t, pos) == [t |-> t, pos |-> pos]
MaskA == [shape |-> <<6, 5, 7>>, zero |-> { <<i, j, k>> : i \in 0..5, j \in 0..4, k \in 0..6 } \ { <<i, j, k>> : i \in 2..3, j \in 1..2, k \in 2..4 }]
MaskB == [shape |-> <<4, 8, 5>>, zero |-> { <<i, j, k>> : i \in 0..1, j \in 0..7, k \in 0..4 }]
\* mask of a tomogram that holds no particle (all zero: whatever is looked up in it is removed)
MaskC == [shape |-> <<7, 8, 7>>, zero |-> { <<i, j, k>> : i \in 0..6, j \in 0..7, k \in 0..6 }]

SmallOps == { [name |-> "oob", kind |-> "center", box |-> 0],
              [name |-> "oob", kind |-> "center", box |-> 4],       \* a box size given with 'center' is ignored
              [name |-> "oob", kind |-> "whole", box |-> 2],
              [name |-> "oob", kind |-> "whole", box |-> 4],
              [name |-> "trim", start |-> <<1, 1, 1>>, end |-> <<6, 5, 7>>],
              [name |-> "trim", start |-> <<2, 1, 3>>, end |-> <<4, 4, 5>>],
              [name |-> "trim", start |-> <<3, 2, 2>>, end |-> <<3, 6, 6>>],
              [name |-> "points", pts |-> { Pt(1, <<24, 16, 24>>), Pt(2, <<100, 100, 100>>) }, r |-> 9],
              [name |-> "points", pts |-> { Pt(1, <<0, 16, 24>>), Pt(1, <<24, 0, 24>>), Pt(1, <<24, 16, 0>>),
                                            Pt(2, <<16, 16, 16>>) }, r |-> 20],
              [name |-> "mask", form |-> "array", tl |-> {1, 2}, masks |-> (1 :> MaskA) @@ (2 :> MaskB)],
              [name |-> "mask", form |-> "mrc", tl |-> {1, 2}, masks |-> (1 :> MaskA) @@ (2 :> MaskB)],
              [name |-> "mask", form |-> "em", tl |-> {1}, masks |-> (1 :> MaskA)],
              [name |-> "mask", form |-> "rec", tl |-> {1, 2, 3}, masks |-> (1 :> MaskA) @@ (2 :> MaskB) @@ (3 :> MaskC)],
              [name |-> "mask", form |-> "mixed", tl |-> {1, 2, 3}, masks |-> (1 :> MaskA) @@ (2 :> MaskB) @@ (3 :> MaskC)] }

\* two calls on the same list with the same argument objects
SmallChains == { <<[name |-> "oob", kind |-> "whole", box |-> 4], [name |-> "oob", kind |-> "center", box |-> 0]>>,
                 <<[name |-> "oob", kind |-> "whole", box |-> 2], [name |-> "oob", kind |-> "whole", box |-> 2]>>,
                 <<[name |-> "oob", kind |-> "center", box |-> 0], [name |-> "trim", start |-> <<2, 1, 2>>, end |-> <<5, 5, 6>>],
                   [name |-> "oob", kind |-> "whole", box |-> 2]>> }

\* dimension table with a tomogram that holds no particle
SmallDims3 == SmallDims @@ (3 :> <<7, 8, 7>>)
SmallCases == { [id |-> 0, ps |-> l, dims |-> SmallDims3, ops |-> <<o>>] : l \in Lists, o \in SmallOps }
               \cup { [id |-> 0, ps |-> l, dims |-> SmallDims3, ops |-> ch] : l \in Lists, ch \in SmallChains }

\* JSON form of a case, for the driver (the interpretation needs the inputs, too)
OpJ(o) == CASE o.name = "points" -> [name |-> "points", r |-> o.r,
                                     pts |-> SetToSeq({ <<q.t, q.pos[1], q.pos[2], q.pos[3]>> : q \in o.pts })]
            [] o.name = "mask" -> [name |-> "mask", form |-> o.form, tl |-> SetToSeq(o.tl),
                                   masks |-> SetToSeq({ <<t, o.masks[t].shape, SetToSeq(o.masks[t].zero)>> : t \in DOMAIN o.masks })]
            [] OTHER -> o
CaseJ == [id |-> cs.id, ps |-> PJ(cs.ps),
          dims |-> SetToSeq({ <<t, cs.dims[t][1], cs.dims[t][2], cs.dims[t][3]>> : t \in DOMAIN cs.dims }),
          ops |-> [k \in DOMAIN cs.ops |-> OpJ(cs.ops[k])]]
EmitBoth == \/ ~done
            \/ PrintT(<<"SMALL", ToJson([case |-> CaseJ, step |-> nc, ps |-> PJ(res.ps), status |-> res.status, amb |-> res.amb])>>)

\* ---- file scope
PsOf(x) == [k \in DOMAIN x |-> P(x[k][1], x[k][2], <<x[k][3], x[k][4], x[k][5]>>, <<x[k][6], x[k][7], x[k][8]>>)]
DimsOf(d) == [t \in { d[k][1] : k \in DOMAIN d } |->
                 LET k == CHOOSE k \in DOMAIN d : d[k][1] = t IN <<d[k][2], d[k][3], d[k][4]>>]
OpOf(o) == CASE o.name = "points" ->
                 [name |-> "points", r |-> o.r,
                  pts |-> { Pt(o.pts[k][1], <<o.pts[k][2], o.pts[k][3], o.pts[k][4]>>) : k \in DOMAIN o.pts }]
             [] o.name = "mask" ->
                 [name |-> "mask", form |-> o.form, tl |-> { o.tl[k] : k \in DOMAIN o.tl },
                  masks |-> [t \in { o.masks[k][1] : k \in DOMAIN o.masks } |->
                                LET k == CHOOSE k \in DOMAIN o.masks : o.masks[k][1] = t
                                IN  [shape |-> o.masks[k][2],
                                     zero |-> { <<o.masks[k][3][j][1], o.masks[k][3][j][2], o.masks[k][3][j][3]>> : j \in DOMAIN o.masks[k][3] }]]]
             [] o.name = "trim" -> [name |-> "trim", start |-> o.start, end |-> o.end]
             [] OTHER -> o
FileCases == LET recs == ndJsonDeserialize(IOEnv.CASE_FILE)
             IN  { [id |-> recs[k].id, ps |-> PsOf(recs[k].ps), dims |-> DimsOf(recs[k].dims),
                     ops |-> [m \in DOMAIN recs[k].ops |-> OpOf(recs[k].ops[m])]] : k \in DOMAIN recs }
=============================================================================

--------------------------- MODULE SymExpandTrace ---------------------------
(***************************************************************************)
(* C10, code -> spec.  One record per call of split_in_asymmetric_subunits *)
(* on a random real-valued list:                                           *)
(*   [id, n, parents (input subtomogram numbers), nrows, frame,            *)
(*    groups = <<  <<geom5, << <<geom2, sid, j, rj, rs, rp, int, ms, inh>>, ... >> >>, ... >>] *)
(* rows are grouped by the recorded parent (geom5) and sorted by geom2;    *)
(*  j  = index of the element of {Rz(360 j/n)} nearest to R_parent^-1 R_out*)
(*  rj = distance to it, rs = |R_out(next k) - R_out(k) Rz(360/n)| (the     *)
(*       successor of k = n is k = 1), rp = |pos_out - (centre + R_out s)|, *)
(*       all max-norms x 1e7;  int = x,y,z integral;  ms = max|shift| x 1e6;*)
(*  inh = the inherited fields are bit-identical to the parent's.           *)
(* The clauses are those of SymExpand.tla read on the observations; either  *)
(* start of the subunit index is accepted.                                  *)
(***************************************************************************)
EXTENDS Integers, Sequences, FiniteSets, TLC, Json, IOUtils

CONSTANTS Tol           \* residual bound (1e-7 units)

Traces == ndJsonDeserialize(IOEnv.TRACE_FILE)

VARIABLES tid, done
vars == <<tid, done>>

Rows(g) == g[2]
G2(r) == r[1]
Sid(r) == r[2]
J(r) == r[3]

CountOK(t) == /\ Len(t.groups) = Len(t.parents)
              /\ { t.groups[g][1] : g \in DOMAIN t.groups } = { t.parents[i] : i \in DOMAIN t.parents }
              /\ \A g \in DOMAIN t.groups : Len(Rows(t.groups[g])) = t.n
              /\ t.nrows = t.n * Len(t.parents)

IndicesOK(t) == \A g \in DOMAIN t.groups : \A k \in 1..t.n : G2(Rows(t.groups[g])[k]) = k

AllSids(t) == UNION { { Sid(Rows(t.groups[g])[k]) : k \in DOMAIN Rows(t.groups[g]) } : g \in DOMAIN t.groups }
UniqueOK(t) == Cardinality(AllSids(t)) = t.nrows

InheritOK(t) == \A g \in DOMAIN t.groups : \A k \in DOMAIN Rows(t.groups[g]) : Rows(t.groups[g])[k][9] = 1

OrbitOK(t) == \A g \in DOMAIN t.groups :
                 LET rs == Rows(t.groups[g]) IN
                 /\ \A k \in 1..t.n : rs[k][4] <= Tol /\ rs[k][5] <= Tol
                 /\ \A k \in 1..(t.n - 1) : J(rs[k + 1]) = (J(rs[k]) + 1) % t.n
                 /\ { J(rs[k]) : k \in 1..t.n } = 0..(t.n - 1)
                 /\ J(rs[1]) \in {0, 1 % t.n}

PositionOK(t) == \A g \in DOMAIN t.groups : \A k \in DOMAIN Rows(t.groups[g]) : Rows(t.groups[g])[k][6] <= Tol

IntegralOK(t) == \A g \in DOMAIN t.groups : \A k \in DOMAIN Rows(t.groups[g]) :
                    Rows(t.groups[g])[k][7] = 1 /\ Rows(t.groups[g])[k][8] <= 500001

\* frame condition observed by the driver's argument guard: the offset vector and the list the method is called on are
\* as before the call, and a second expansion leaves the result of the first one alone ("" = nothing changed)
Failing(t) == IF t.frame # "" THEN "C10_ArgumentsUntouched"
              ELSE IF ~CountOK(t) THEN "C10_Count"
              ELSE IF ~IndicesOK(t) THEN "C10_Indices"
              ELSE IF ~UniqueOK(t) THEN "C10_UniqueIds"
              ELSE IF ~InheritOK(t) THEN "C10_Inherit"
              ELSE IF ~OrbitOK(t) THEN "C10_Orbit"
              ELSE IF ~PositionOK(t) THEN "C10_MapsBack"
              ELSE IF ~IntegralOK(t) THEN "C10_Integral"
              ELSE "none"

TraceInit == tid \in 1..Len(Traces) /\ done = FALSE
TraceNext == ~done /\ done' = TRUE /\ UNCHANGED tid
TraceSpec == TraceInit /\ [][TraceNext]_vars

Report == \/ ~done
          \/ LET c == Failing(Traces[tid])
             IN  PrintT(<<"VERDICT", ToJson([tid |-> tid, id |-> Traces[tid].id, ok |-> (c = "none"), clause |-> c])>>)
=============================================================================

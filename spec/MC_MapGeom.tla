----------------------------- MODULE MC_MapGeom -----------------------------
(* Model-checking scopes of MapGeom.tla. *)
EXTENDS MapGeom

Tri(m) == FromZXZ(m % 4, (m \div 4) % 4, (m \div 16) % 4)

\* ---- rotation: all 24 rotations x odd, even, non-cubic boxes
\* odd, even, non-cubic boxes; the smallest box with an interior voxel; boxes with a 1- or 2-voxel axis (nothing decided,
\* but still a map of that shape)
MCRotDims == { <<5, 5, 5>>, <<6, 6, 6>>, <<5, 6, 7>>, <<8, 6, 6>>, <<3, 3, 3>>, <<4, 3, 5>>, <<1, 5, 5>>, <<2, 6, 4>> }
MCRotCases == { [dims |-> dd, R |-> r] : dd \in MCRotDims, r \in All }
MCRotCasesBig == { [dims |-> dd, R |-> r] : dd \in MCRotDims \cup { <<7, 7, 7>>, <<9, 8, 10>>, <<12, 12, 12>> }, r \in All }

\* ---- placement
Cell(o, hi) == [o |-> o, hi |-> hi]
\* chiral templates (no rotation but the identity maps the above-threshold cells onto themselves), each with one
\* below-threshold voxel that must never be stamped
Tmpl8 == [S |-> 8, cells |-> << Cell(<<0, 0, 0>>, TRUE), Cell(<<1, 0, 0>>, TRUE), Cell(<<2, 0, 0>>, TRUE),
                                Cell(<<0, 1, 0>>, TRUE), Cell(<<0, 0, -1>>, TRUE), Cell(<<0, -2, 0>>, FALSE) >>]
Tmpl6 == [S |-> 6, cells |-> << Cell(<<0, 0, 0>>, TRUE), Cell(<<1, 0, 0>>, TRUE), Cell(<<0, -1, 0>>, TRUE),
                                Cell(<<1, 1, -1>>, TRUE), Cell(<<-1, 0, 1>>, FALSE) >>]
Chiral(tmpl) == \A r \in All : r # Id => { Apply(r, o) : o \in HiOffsets(tmpl) } # HiOffsets(tmpl)

MCCDims == <<12, 10, 9>>
\* n poses at lattice positions from -1 .. dim+2 (partly and fully outside included), orientations walking through the group
PoseSeq(n, k) == [i \in 1..n |-> [pos |-> << ((3 * i + k) % 15) - 1, ((5 * i + 2 * k) % 13) - 1, ((7 * i + 3 * k) % 12) - 1 >>,
                                  R |-> Tri((7 * i + 11 * k) % 64), colour |-> 1 + ((i + k) % 4)]]
\* the same pose twice in the list (the later entry wins), and a list entry far outside the container
MCRepeatCases == { [cdims |-> MCCDims, tmpl |-> t, poses |-> << [pos |-> <<6, 5, 4>>, R |-> r, colour |-> 1], [pos |-> <<3, 8, 2>>, R |-> Rx1, colour |-> 2],
                                                              [pos |-> <<6, 5, 4>>, R |-> r, colour |-> 3], [pos |-> <<40, -30, 5>>, R |-> r, colour |-> 4] >>]
                      : t \in {Tmpl8, Tmpl6}, r \in {Id, Rz1, Mul(Rx1, Ry1)} }
MCPlaceCases == MCRepeatCases \cup { [cdims |-> MCCDims, tmpl |-> t, poses |-> PoseSeq(n, k)] :
                     t \in {Tmpl8, Tmpl6}, n \in {1, 2, 3, 5, 8, 13, 20}, k \in 0..2 }
                \cup { [cdims |-> MCCDims, tmpl |-> Tmpl8, poses |-> << [pos |-> <<6, 5, 4>>, R |-> r, colour |-> 3] >>] : r \in All }
MCPlaceCasesBig == MCPlaceCases \cup { [cdims |-> cd, tmpl |-> t, poses |-> PoseSeq(n, k)] :
                     cd \in {MCCDims, <<9, 14, 11>>}, t \in {Tmpl8, Tmpl6}, n \in 1..20, k \in 3..6 }

\* ---- one template per pose (list input); several poses share one orientation (incl. the default 0,0,0 = Id)
Tmpl8b == [S |-> 8, cells |-> << Cell(<<0, 0, 0>>, TRUE), Cell(<<-1, 0, 0>>, TRUE), Cell(<<0, 2, 0>>, TRUE),
                                 Cell(<<0, 0, 1>>, TRUE), Cell(<<1, 1, 0>>, FALSE) >>]
TmplOf(m) == CASE m % 3 = 0 -> Tmpl8 [] m % 3 = 1 -> Tmpl6 [] OTHER -> Tmpl8b
\* orientations repeat with period 2 or 3 (so poses with different templates share an orientation); k = 0 starts at Id
ListPoses(n, k, per) == [i \in 1..n |-> [pos |-> << ((3 * i + k) % 11) + 1, ((5 * i + 2 * k) % 9) + 1, ((7 * i + 3 * k) % 8) + 1 >>,
                                        R |-> Tri(21 * k + 5 * (i % per)), colour |-> i]]
MCPlaceListCases == { [cdims |-> MCCDims, tmpls |-> [i \in 1..n |-> TmplOf(i + sft)], poses |-> ListPoses(n, k, per)] :
                         n \in {2, 3, 4, 6, 9}, k \in 0..3, per \in {1, 2, 3}, sft \in {0, 1} }
                    \cup { [cdims |-> MCCDims, tmpls |-> [i \in 1..n |-> Tmpl6], poses |-> ListPoses(n, k, 2)] : n \in {3, 5}, k \in 0..1 }

\* ---- windowing: per axis fully outside below / straddling / inside / covering / straddling above / fully outside above
MCVDims == <<4, 5, 6>>
MCCentres == { -3, 0, 1, 2, 3, 4, 6, 9 }
MCShapes == { <<2, 4, 6>>, <<4, 2, 2>>, <<6, 6, 4>>, <<8, 2, 6>> }
MCWindowCases == { [vdims |-> MCVDims, centre |-> <<a, b, c>>, shape |-> sh] : a \in MCCentres, b \in MCCentres, c \in MCCentres,
                                                                            sh \in MCShapes }
\* centred windows (crop / pad with even sizes): volume dims even, window centred at N/2
MCCentredCases == { [vdims |-> vd, centre |-> Centre(vd), shape |-> sh] : vd \in { <<4, 6, 8>>, <<6, 6, 6>> },
                                                                        sh \in { <<2, 2, 2>>, <<4, 6, 8>>, <<2, 4, 6>>, <<8, 8, 8>>, <<6, 10, 8>>, <<10, 12, 14>> } }
\* volumes with a 1-voxel axis (single slices)
MCThinCases == { [vdims |-> <<1, 4, 7>>, centre |-> <<a, b, c>>, shape |-> sh] : a \in {-1, 0, 1}, b \in {0, 2, 5}, c \in {3, 8},
                                                                             sh \in { <<2, 2, 2>>, <<2, 4, 6>> } }
MCWindowAll == MCWindowCases \cup MCCentredCases \cup MCThinCases

\* ---- fractional centres (units of 1/8 voxel) on both sides of 0 and of the upper face, exact .5 included, even and odd
\* shapes, 1-voxel windows
MCWindowQCases == { [vdims |-> MCVDims, centre |-> <<a, b, c>>, shape |-> sh, u |-> 8] :
                       a \in {-36, -4, -1, 4, 12, 31, 36}, b \in {-12, 3, 20, 44}, c \in {-5, 4, 28, 52},
                       sh \in { <<2, 4, 6>>, <<3, 5, 7>>, <<8, 1, 4>> } }
                  \cup { [vdims |-> MCVDims, centre |-> <<10 * a, 10 * b, 10 * c>>, shape |-> <<4, 4, 4>>, u |-> 10] :   \* tenths
                         a \in {-5, 7, 25}, b \in {-13, 5, 41}, c \in {15, 66} }
\* ---- fractional complete positions (1/8 voxel) from below voxel 1 to beyond the upper face; even and odd template boxes
Tmpl7 == [S |-> 7, cells |-> << Cell(<<0, 0, 0>>, TRUE), Cell(<<1, 0, 0>>, TRUE), Cell(<<2, 0, 0>>, TRUE),
                                Cell(<<0, -1, 0>>, TRUE), Cell(<<0, 0, 2>>, TRUE), Cell(<<-1, 1, 0>>, FALSE) >>]
QPoseSeq(n, k) == [i \in 1..n |-> [pos |-> << ((13 * i + 5 * k) % 120) - 12, ((29 * i + 7 * k) % 104) - 12, ((37 * i + 11 * k) % 96) - 12 >>,
                                   R |-> Tri((7 * i + 11 * k) % 64), colour |-> 1 + ((i + k) % 4)]]
MCPlaceQCases == { [cdims |-> MCCDims, tmpl |-> t, poses |-> QPoseSeq(n, k), u |-> 8] : t \in {Tmpl8, Tmpl6, Tmpl7}, n \in {1, 3, 7}, k \in 0..5 }
                 \cup { [cdims |-> MCCDims, tmpl |-> Tmpl7, poses |-> << [pos |-> <<8 * 6 + f, 8 * 5, 8 * 4 - f>>, R |-> r, colour |-> 2] >>, u |-> 8] :
                        f \in {0, 1, 3, 4, 5, 7}, r \in {Id, Rz1, Mul(Rx1, Ry1)} }
                 \cup { [cdims |-> MCCDims, tmpl |-> Tmpl8, poses |-> << [pos |-> <<f, 8 * 5, 8 + f>>, R |-> Rx1, colour |-> 3] >>, u |-> 8] :
                        f \in {-9, -4, -1, 0, 3, 4, 8} }

\* ---- symmetrisation
MCSymCases == { [dims |-> dd, n |-> n] : dd \in { <<5, 5, 5>>, <<6, 6, 6>>, <<7, 6, 5>>, <<8, 8, 4>> }, n \in {1, 2, 4} }

\* integral and fractional cases go through the same constants (told apart by the field u)
MCPlaceAll == MCPlaceCases \cup MCPlaceQCases
MCPlaceAllBig == MCPlaceCasesBig \cup MCPlaceQCases
MCWindowAllQ == MCWindowAll \cup MCWindowQCases

Empty == {}
=============================================================================

---------------------------- MODULE DoseClauses ----------------------------
(***************************************************************************)
(* C16 - dose filtering: the clauses, as predicates on a table of measured *)
(* attenuation exponents.  Shared by Dose.tla (synthetic tables, L1) and   *)
(* DoseTrace.tla (tables measured on cryocat.tiltstack.dose_filter, L3).   *)
(*                                                                         *)
(* A table t describes one stack of t.n images of width t.W and height     *)
(* t.H filtered with the doses t.d100 (e/A^2 x 100, image i <-> dose i):   *)
(*   t.ent   sequence of integer frequency indices <<kx, ky>>, the same    *)
(*           for every image, sorted by the radial key                     *)
(*               Q(kx, ky) = (kx*H)^2 + (ky*W)^2                           *)
(*           (f^2 = Q / (W*H*px)^2: this is what "spatial frequency from   *)
(*           pixel size AND image dimensions" means on a non-square image) *)
(*   t.A[i][e]   attenuation exponent  -ln gain  of image i at t.ent[e],   *)
(*           x 1000, clamped to Sat (gains below 1e-10 cannot be measured  *)
(*           in double precision)                                          *)
(*   t.lx100 = W*px*100, t.ly100 = H*px*100 and t.xexact / t.yexact (the   *)
(*           pixel size was constructed so that this number is exact)      *)
(* and the closed form of the statement enters through the generated       *)
(* calibration table DoseTable!TwoNe (on-axis frequencies m/200 1/A).      *)
(***************************************************************************)
EXTENDS Integers, Sequences, FiniteSets, TLC, DoseTable

Sat   == 23000        \* A is clamped here: gain 1e-10
TolA  == 2            \* 2e-3 in the exponent: rounding of two logged values + measurement noise
TolG  == 10           \* residuals (linearity, spreads, mean) x 1e9

Abs(x) == IF x < 0 THEN -x ELSE x
Sq(x)  == x * x
Q(t, k) == Sq(k[1] * t.H) + Sq(k[2] * t.W)
Entries(t) == 1 .. Len(t.ent)
Images(t)  == 1 .. t.n

KRange(N) == (0 - (N \div 2)) .. (((N + 1) \div 2) - 1)

\* the entry list is strictly ordered by (Q, kx, ky) - hence duplicate free - inside the frequency box, and covers
\* every frequency when the table claims to be complete
WellFormed(t) ==
    /\ t.n >= 1 /\ Len(t.d100) = t.n /\ Len(t.A) = t.n
    /\ \A i \in Images(t) : Len(t.A[i]) = Len(t.ent) /\ t.d100[i] >= 0 /\ t.d100[i] <= 30000
    /\ \A i \in Images(t), e \in Entries(t) : t.A[i][e] <= Sat /\ t.A[i][e] >= -2000000      \* clamped by the projection
    /\ \A e \in Entries(t) : t.ent[e][1] \in KRange(t.W) /\ t.ent[e][2] \in KRange(t.H)
    /\ \A e \in 1 .. Len(t.ent) - 1 :
          LET a == t.ent[e]
              b == t.ent[e + 1]
          IN  \/ Q(t, a) < Q(t, b)
              \/ Q(t, a) = Q(t, b) /\ (a[1] < b[1] \/ (a[1] = b[1] /\ a[2] < b[2]))
    /\ t.complete => Len(t.ent) = t.W * t.H
    /\ t.hascomp => /\ Len(t.d2) = t.n /\ Len(t.A2) = t.n /\ Len(t.A12) = t.n /\ Len(t.Asum) = t.n
                    /\ \A i \in Images(t) : Len(t.A2[i]) = Len(t.ent) /\ Len(t.A12[i]) = Len(t.ent) /\ Len(t.Asum[i]) = Len(t.ent)
                    /\ \A i \in Images(t), e \in Entries(t) :
                          /\ t.A2[i][e] <= Sat /\ t.A12[i][e] <= Sat /\ t.Asum[i][e] <= Sat
                          /\ t.A2[i][e] >= -2000000 /\ t.A12[i][e] >= -2000000 /\ t.Asum[i][e] >= -2000000

RealLinearDiagonal(t) == t.real /\ t.spread <= TolG /\ t.pw <= TolG /\ t.leak <= TolG /\ t.lin <= TolG

\* the filter is a function of its arguments: repeating a call after the caller overwrote the returned stack gives the
\* same stack (rep), stacks handed out earlier are not changed by later calls (keep), arguments are left untouched
CallsAreIndependent(t) == t.rep <= TolG /\ t.keep <= TolG /\ ~t.argmut

\* how the arguments were handed over (event fields): storage form of the stack, spelling of the pixel size, form of the
\* dose vector; t.xres = cross-checks of the same stack / doses in other forms (single precision array, stack file of
\* every accepted extension, output file written and read back): relative difference to the float64 result x 1e9
StackForms == {"xyz_c", "xyz_f", "xyz_view", "zyx_c", "xyz_ro", "xyz_strided", "xyz_c_outzyx", "zyx_c_outxyz"}
PixelSpellings == {"float", "np64", "np32", "str", "int", "npi32", "npi64"}
DoseForms == {"array", "list", "file", "csv"}
TolX == 2000          \* 2e-6 relative: single-precision storage (unchanged tree: 6e-8)
FormsKnown(t) == t.form \in StackForms /\ t.pxas \in PixelSpellings /\ t.dosesas \in DoseForms
SameForEveryInputForm(t) == \A i \in DOMAIN t.xres : t.xres[i].res <= TolX

\* the zero-frequency component, hence the image mean, is unchanged
\* (t.degen: constant images - 0, 1, 0.5, -3 - inside an otherwise random stack come back unchanged, no NaN anywhere)
MeanUnchanged(t) ==
    /\ t.mean <= TolG /\ t.degen <= TolG
    /\ \A i \in Images(t), e \in Entries(t) : t.ent[e] = <<0, 0>> => Abs(t.A[i][e]) <= 1

PowerNeverIncreases(t) == \A i \in Images(t), e \in Entries(t) : t.A[i][e] >= -1

ZeroDoseIsIdentity(t) == \A i \in Images(t) : t.d100[i] = 0 => \A e \in Entries(t) : Abs(t.A[i][e]) <= 1

\* A depends on the frequency only through the radial key and does not decrease with it
RadialMonotone(t) ==
    \A i \in Images(t) : \A e \in 1 .. Len(t.ent) - 1 :
        IF Q(t, t.ent[e]) = Q(t, t.ent[e + 1]) THEN Abs(t.A[i][e] - t.A[i][e + 1]) <= TolA
        ELSE t.A[i][e] <= t.A[i][e + 1] + TolA

\* image i is attenuated with dose i: exponents of two images are in the ratio of their doses (where measurable)
Proportional(t, i, j) ==
    \A e \in Entries(t) :
        t.A[i][e] < Sat /\ t.A[j][e] < Sat =>
            Abs(t.A[i][e] * t.d100[j] - t.A[j][e] * t.d100[i]) <= TolA * (t.d100[i] + t.d100[j]) + 1
\* reference image: the first one with the smallest positive dose
Ref(t) == LET pos == {i \in Images(t) : t.d100[i] > 0}
          IN  IF pos = {} THEN 1
              ELSE CHOOSE i \in pos : \A j \in pos : t.d100[i] < t.d100[j] \/ (t.d100[i] = t.d100[j] /\ i <= j)
DosePairing(t) == \A j \in Images(t) : Proportional(t, Ref(t), j)

\* ... and a dose of at least 1 e/A^2 does attenuate: at the frequency with the largest radial key (the last entry; at
\* least the Nyquist frequency of an axis, >= 0.04 1/A for pixel sizes up to 10 A, where 2 Ne < 110) the exponent is
\* at least 9e-3 per e/A^2 - so an image that comes back unfiltered is rejected also off the calibration grid
\* two images whose doses differ by as little as 1e-3 e/A^2 are still attenuated differently: t.near[p] = [i, j, dd, nl]
\* with dose_j - dose_i = dd x 1e-6 > 0 and nl = ln(gain_i / gain_j) x 1e9 at the frequency with the largest radial key,
\* where 5.62 < 2 Ne <= 110 (frequencies >= 0.04 1/A):   dd / 110  <=  nl / 1000  <=  dd / 5.62
NearDosesResolved(t) ==
    \A p \in DOMAIN t.near :
        LET r == t.near[p] IN
        /\ r.dd > 0 /\ r.dd <= 10000 /\ r.i \in Images(t) /\ r.j \in Images(t)
        /\ r.nl * 110 >= r.dd * 1000
        /\ r.nl * 562 <= r.dd * 100000
MoreDoseAttenuatesMore(t) ==
    /\ \A i, j \in Images(t) : t.d100[i] <= t.d100[j] => \A e \in Entries(t) : t.A[i][e] <= t.A[j][e] + TolA
    /\ Len(t.ent) >= 2 => \A i \in Images(t) : t.d100[i] >= 100 => t.A[i][Len(t.ent)] >= 5
    /\ NearDosesResolved(t)

\* calibration against the closed form of the statement at on-axis frequencies that fall on the table grid:
\*   A = d / TwoNe(f)   <=>   (A x 1e3) * (TwoNe x 1e2) = d100 * 1e3,    within 0.5 %, for doses >= 50 e/A^2
GridM(k, l100) == IF k # 0 /\ (100 * FreqDen * Abs(k)) % l100 = 0 THEN (100 * FreqDen * Abs(k)) \div l100 ELSE 0
OnGrid(t, k) ==          \* the table index m of an on-axis frequency, 0 if none
    IF k[2] = 0 /\ t.xexact THEN GridM(k[1], t.lx100)
    ELSE IF k[1] = 0 /\ t.yexact THEN GridM(k[2], t.ly100)
    ELSE 0
Calibrated(t) ==
    \A i \in Images(t), e \in Entries(t) :
        LET m == OnGrid(t, t.ent[e]) IN
        m >= TableLo /\ m <= TableHi /\ t.d100[i] >= 5000 /\ t.A[i][e] < Sat =>
            Abs(t.A[i][e] * TwoNe(m) - t.d100[i] * 1000) <= t.d100[i] * 5
CalibrationPoints(t) ==
    Cardinality({<<i, e>> \in Images(t) \X Entries(t) :
        LET m == OnGrid(t, t.ent[e]) IN m >= TableLo /\ m <= TableHi /\ t.d100[i] >= 5000 /\ t.A[i][e] < Sat})

\* filtering with d1 and then d2 equals filtering once with d1 + d2, and the exponents add
CompositionAdds(t) ==
    t.hascomp => \A i \in Images(t), e \in Entries(t) :
        /\ t.A12[i][e] < Sat /\ t.Asum[i][e] < Sat => Abs(t.A12[i][e] - t.Asum[i][e]) <= TolA
        /\ t.A12[i][e] < Sat => Abs(t.A12[i][e] - (t.A[i][e] + t.A2[i][e])) <= TolA + 1
        /\ t.A12[i][e] >= Sat => t.A[i][e] + t.A2[i][e] >= Sat - TolA - 1

\* name of the first clause the table breaks, or "none"
Failing(t) ==
    IF ~WellFormed(t) THEN "malformed_trace"
    ELSE IF ~RealLinearDiagonal(t) THEN "C16_RealLinearDiagonal"
    ELSE IF ~FormsKnown(t) THEN "malformed_trace"
    ELSE IF ~CallsAreIndependent(t) THEN "C16_CallsAreIndependent"
    ELSE IF ~SameForEveryInputForm(t) THEN "C16_SameForEveryInputForm"
    ELSE IF ~MeanUnchanged(t) THEN "C16_MeanUnchanged"
    ELSE IF ~PowerNeverIncreases(t) THEN "C16_PowerNeverIncreases"
    ELSE IF ~ZeroDoseIsIdentity(t) THEN "C16_ZeroDoseIsIdentity"
    ELSE IF ~RadialMonotone(t) THEN "C16_RadialInFrequencyOfPixelAndDimensions"
    ELSE IF ~DosePairing(t) THEN "C16_DosePairingProportional"
    ELSE IF ~MoreDoseAttenuatesMore(t) THEN "C16_MoreDoseAttenuatesMore"
    ELSE IF ~Calibrated(t) THEN "C16_CalibratedCriticalExposure"
    ELSE IF ~CompositionAdds(t) THEN "C16_CompositionAddsDoses"
    ELSE "none"
=============================================================================
